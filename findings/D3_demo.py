"""D3 (C27): clvm_tree_to_lazy_node on objects whose pair accessor builds fresh children.
Run with PYTHONPATH pointing at a directory holding the built clvm_rs package."""
import random, sys
import clvm_rs
from clvm_rs.clvm_rs import clvm_tree_to_lazy_node, ser_2026, deser_2026, ser_legacy, deser_legacy

class Fresh:
    """tree view that creates NEW child objects on every .pair access"""
    def __init__(self, t): self.t = t
    @property
    def atom(self): return self.t if isinstance(self.t, bytes) else None
    @property
    def pair(self):
        if isinstance(self.t, bytes): return None
        return (Fresh(self.t[0]), Fresh(self.t[1]))

def rnd(r, d=0):
    if d > 7 or r.random() < 0.3:
        return bytes(r.randrange(256) for _ in range(r.randrange(4)))
    return (rnd(r, d+1), rnd(r, d+1))

def ser(t):
    if isinstance(t, bytes):
        if t == b"": return b"\x80"
        if len(t) == 1 and t[0] < 0x80: return t
        assert len(t) < 0x40
        return bytes([0x80 | len(t)]) + t
    return b"\xff" + ser(t[0]) + ser(t[1])

bad = 0
r = random.Random(1)
N = 200
for i in range(N):
    t = rnd(r)
    ln = clvm_tree_to_lazy_node(Fresh(t))
    got = bytes(ser_legacy(ln))
    if got != ser(t): bad += 1
print(f"corrupted {bad} of {N}")
sys.exit(1 if bad else 0)
