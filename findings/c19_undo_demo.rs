// C19 candidate: undo does not unlink the undone tree from the hole's parents.
// Place as tests/c19_undo_demo.rs ; cargo test --offline --test c19_undo_demo -- --nocapture
use clvmr::allocator::{Allocator, NodePtr};
use clvmr::serde::{node_from_bytes_backrefs, node_to_bytes, Serializer};

#[test]
fn undo_leaves_stale_parent_link() {
    let mut a = Allocator::new();
    let s = a.new_pair(NodePtr::NIL, NodePtr::NIL).unwrap(); // sentinel
    let aa = a.new_atom(b"aaaaaaaa").unwrap();
    let bb = a.new_atom(b"bbbbbbbb").unwrap();
    let cc = a.new_atom(b"cccccccc").unwrap();
    let one = a.new_small_number(1).unwrap();
    // t0 = ((S . 1) . A)
    let s1 = a.new_pair(s, one).unwrap();
    let t0 = a.new_pair(s1, aa).unwrap();
    // U = (A . S)   (added, then undone)
    let u = a.new_pair(aa, s).unwrap();
    // V = (B . (C . A))
    let ca = a.new_pair(cc, aa).unwrap();
    let v = a.new_pair(bb, ca).unwrap();

    let mut ser = Serializer::new(Some(s));
    let (done, _) = ser.add(&a, t0).unwrap();
    assert!(!done);
    let before = ser.get_ref().clone();
    let (done, undo) = ser.add(&a, u).unwrap();
    assert!(!done);
    ser.restore(undo);
    assert_eq!(ser.get_ref(), &before, "undo restores the bytes");
    let (done, _) = ser.add(&a, v).unwrap();
    assert!(done);
    let out = ser.into_inner();
    println!("bytes: {}", hex::encode(&out));
    // expected tree: ((V . 1) . A)
    let v1 = a.new_pair(v, one).unwrap();
    let expect = a.new_pair(v1, aa).unwrap();
    let expect_bytes = node_to_bytes(&a, expect).unwrap();
    let got = node_from_bytes_backrefs(&mut a, &out);
    match got {
        Ok(n) => {
            let got_bytes = node_to_bytes(&a, n).unwrap();
            println!("decoded : {}", hex::encode(&got_bytes));
            println!("expected: {}", hex::encode(&expect_bytes));
            assert_eq!(got_bytes, expect_bytes, "decoded tree differs from the assembled tree");
        }
        Err(e) => panic!("decode failed: {e:?}"),
    }
}
