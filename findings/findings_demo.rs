// Demonstrations of the genuine defects recorded in /verif/known_findings.json, against the real code.
// Place as tests/findings_demo.rs in a checkout of clvm_rs and run:
//   cargo test --offline --test findings_demo -- --nocapture
// Each test PASSES when the defect is present (it asserts the defective behaviour).
use clvmr::allocator::Allocator;
use clvmr::chia_dialect::{ChiaDialect, ClvmFlags};
use clvmr::dialect::{Dialect, OperatorSet};
use clvmr::run_program::run_program;
use clvmr::serde::node_from_bytes;

// C12 finding: substring of an inline small-integer atom that is not itself a canonical small
// integer is copied to the heap and counted; the same substring of a heap atom counts 0.
#[test]
fn c12_substr_of_small_int_counts_heap_bytes() {
    let mut a = Allocator::new();
    let n = a.new_small_number(128).unwrap(); // bytes 00 80, stored inline
    let before = a.heap_size();
    let _s = a.new_substr(n, 0, 1).unwrap(); // [00]... not canonical -> heap copy
    let grew_inline = a.heap_size() - before;

    let mut b = Allocator::new();
    // force the same bytes onto the heap: concat of two halves launders the small-int form
    let h0 = b.new_atom(&[0x00]).unwrap();
    let h1 = b.new_atom(&[0x80]).unwrap();
    let m = b.new_concat(2, &[h0, h1]).unwrap(); // heap atom 00 80
    let before = b.heap_size();
    let _s = b.new_substr(m, 0, 1).unwrap();
    let grew_heap = b.heap_size() - before;
    println!("substr(0,1) of 0x0080: inline parent heap +{grew_inline}, heap parent heap +{grew_heap}");
    assert_eq!(grew_heap, 0);
    assert_eq!(grew_inline, 1, "defect not present any more");
}

// C09 finding: classic cost model multiplies with wrapping_mul. opcode 7f ff ff ff 40:
// multiplier+1 = 2^31, cost function 1 (add-like). 300 arguments totalling 2 863 279 498 bytes give a
// base of 2^33+1; the true product 2^64 + 2^31 exceeds 2^32-1 and must be rejected, but wraps to 2^31.
#[test]
fn c09_unknown_op_product_wraps() {
    let mut a = Allocator::new();
    let big = a.new_atom(&vec![1u8; 9_576_185]).unwrap();
    let small = a.new_atom(&vec![1u8; 183]).unwrap();
    let mut args = a.nil();
    args = a.new_pair(small, args).unwrap();
    for _ in 0..299 {
        args = a.new_pair(big, args).unwrap();
    }
    let op = a.new_atom(&[0x7f, 0xff, 0xff, 0xff, 0x40]).unwrap();
    let d = ChiaDialect::new(ClvmFlags::empty());
    let r = d.op(&mut a, op, args, 11_000_000_000, OperatorSet::Default);
    println!("unknown op 7fffffff40 with base 2^33+1: {:?}", r.as_ref().map(|x| x.0));
    let red = r.expect("defect not present any more: the call is rejected");
    assert_eq!(red.0, 1u64 << 31);
}

// C07 finding: CANONICAL_INTS (without NO_UNKNOWN_OPS) turns a failure into a success.
// (softfork (q . 200) (q . 0x0000) (q . (x)) (q . ()))  : extension 0 given non-canonically.
#[test]
fn c07_canonical_ints_turns_failure_into_success() {
    // ff 24 = softfork ; args quoted
    // program bytes: (36 (1 . 200) (1 . 0x0000) (1 . (8)) (1 . ()))
    let hex = "ff24ffff018200c8ffff01820000ffff01ff0880ffff018080";
    let bytes: Vec<u8> = (0..hex.len()).step_by(2).map(|i| u8::from_str_radix(&hex[i..i + 2], 16).unwrap()).collect();
    let run = |flags: ClvmFlags| {
        let mut a = Allocator::new();
        let prg = node_from_bytes(&mut a, &bytes).unwrap();
        let env = a.nil();
        run_program(&mut a, &ChiaDialect::new(flags), prg, env, 1_000_000).map(|r| r.0)
    };
    let plain = run(ClvmFlags::empty());
    let canon = run(ClvmFlags::CANONICAL_INTS);
    println!("without CANONICAL_INTS: {plain:?}\nwith    CANONICAL_INTS: {canon:?}");
    assert!(plain.is_err(), "the guarded program raises");
    assert!(canon.is_ok(), "defect not present any more: adding the restriction flag no longer creates a success");
}
