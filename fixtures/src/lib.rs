//! Positive and negative controls for /verif's in-bounds verifier (lib/bounds.py).
//! Every `ok_*` function must be PROVED, every `bad_*` function must have at least one goal
//! that is NOT proved. They are analysed (never run) on every check that uses the verifier;
//! a `bad_*` function that gets proved means the engine is unsound and the check fails closed.
#![allow(clippy::all, unused)]

// ------------------------------------------------------------------ must be proved
pub fn ok_guarded_const(v: &[u8]) -> u8 {
    if v.len() >= 2 { v[1] } else { 0 }
}
pub fn ok_not_empty(v: &[u8]) -> u8 {
    if v.is_empty() {
        return 0;
    }
    v[0]
}
pub fn ok_loop(v: &[u8]) -> u32 {
    let mut c = 0;
    let mut s = 0u32;
    while c < v.len() {
        s = s.wrapping_add(v[c] as u32);
        c += 1;
    }
    s
}
pub fn ok_strip(mut b: &[u8]) -> usize {
    while !b.is_empty() && b[0] == 0 {
        b = &b[1..];
    }
    b.len()
}
pub fn ok_strip_checked(b: &[u8]) -> u8 {
    let mut buf = b;
    if buf.is_empty() {
        return 0;
    }
    if buf[0] == 0 {
        if buf.len() < 2 || (buf[1] & 0x80) == 0 {
            return 1;
        }
        buf = &buf[1..];
    }
    buf[0]
}
pub fn ok_table(x: u8) -> u8 {
    const T: [u8; 256] = [7; 256];
    T[x as usize]
}
pub fn ok_nested_table(i: u32) -> u8 {
    const T: [[u8; 32]; 37] = [[1; 32]; 37];
    if (i as usize) < T.len() { T[i as usize][0] } else { 0 }
}
pub fn ok_or_chain(v: &[u8]) -> bool {
    !v.is_empty()
        && (v.len() > 4
            || (v.len() == 1 && v[0] == 0)
            || (v[0] & 0x80) != 0
            || (v[0] == 0 && (v[1] & 0x80) == 0))
}
pub fn ok_range(v: &[u8], n: usize) -> &[u8] {
    if n <= v.len() { &v[..n] } else { v }
}
pub fn ok_range_from(v: &[u8]) -> &[u8] {
    if v.len() > 1 { &v[0..v.len() - 1] } else { v }
}
pub fn ok_div(a: u64, b: u64) -> u64 {
    if b == 0 { 0 } else { a / b }
}
pub fn ok_len_local(v: &mut Vec<u8>, w: &[u8]) -> u8 {
    // the length is captured in a scalar before the vector is mutated: the scalar does not change
    let n = w.len();
    let mut tmp = [0u8; 48];
    if n > 48 {
        return 0;
    }
    tmp[..n].copy_from_slice(w);
    v.clear();
    let s = &tmp[..n];
    s.len() as u8
}
pub fn ok_exact_len(v: &[u8]) -> u8 {
    if v.len() == 4 { v[3] } else { 0 }
}

// ------------------------------------------------------------------ must NOT be proved
pub fn bad_unguarded(v: &[u8]) -> u8 {
    v[0]
}
pub fn bad_off_by_one(v: &[u8]) -> u8 {
    if v.len() >= 1 { v[1] } else { 0 }
}
pub fn bad_le(v: &[u8], i: usize) -> u8 {
    if i <= v.len() { v[i] } else { 0 }
}
pub fn bad_nested_table(i: u32) -> u8 {
    const T: [[u8; 32]; 37] = [[1; 32]; 37];
    if (i as usize) <= T.len() { T[i as usize][0] } else { 0 }
}
pub fn bad_inner_of_nested_table(i: u32, j: usize) -> u8 {
    const T: [[u8; 32]; 37] = [[1; 32]; 37];
    // j is checked against the OUTER length (37), not the inner one (32)
    if (i as usize) < T.len() && j < T.len() { T[i as usize][j] } else { 0 }
}
pub fn bad_strip_then_index(b: &[u8]) -> u8 {
    let mut buf = b;
    if buf.is_empty() {
        return 0;
    }
    if buf[0] == 0 {
        buf = &buf[1..];
        if (buf[0] & 0x80) == 0 {
            return 1;
        }
    }
    2
}
pub fn bad_stale_vec(v: &mut Vec<u8>) -> u8 {
    if v.len() >= 1 {
        v.clear();
        v[0]
    } else {
        0
    }
}
pub fn bad_stale_local(v: &[u8], w: &[u8]) -> u8 {
    let mut s = v;
    if s.len() >= 1 {
        s = w;
        s[0]
    } else {
        0
    }
}
pub fn bad_loop_le(v: &[u8]) -> u32 {
    let mut c = 0;
    let mut s = 0u32;
    while c <= v.len() {
        s = s.wrapping_add(v[c] as u32);
        c += 1;
    }
    s
}
pub fn bad_range(v: &[u8], n: usize) -> &[u8] {
    if n <= v.len() + 1 { &v[..n] } else { v }
}
pub fn bad_div(a: u64, b: u64) -> u64 {
    a / b
}
pub fn bad_merge(v: &[u8], f: bool) -> u8 {
    let ok = if f { v.len() >= 1 } else { true };
    if ok { v[0] } else { 0 }
}
pub fn bad_sub_wrap(v: &[u8; 8], n: usize) -> &[u8] {
    &v[4 - n..]
}
pub fn bad_two_pops(s: &mut Vec<Vec<u8>>) -> u8 {
    let a = s.pop().unwrap_or_default();
    if a.len() >= 1 {
        let b = s.pop().unwrap_or_default();
        b[0]
    } else {
        0
    }
}
pub fn bad_wrong_slice(v: &[u8], w: &[u8]) -> u8 {
    if v.len() >= 3 { w[2] } else { 0 }
}
pub fn bad_loop_carried(v: &[u8]) -> u8 {
    // the test is on the previous iteration's index
    let mut i = 0usize;
    let mut ok = !v.is_empty();
    let mut r = 0u8;
    while i < 10 {
        if ok {
            r = v[i];
        }
        ok = i + 1 < v.len();
        i += 2;
    }
    r
}
// loop-carried indices: provable only by induction (lib/bounds.py prove_loop_invariant)
pub fn ok_loop_counter(it: &[u8]) -> [u8; 4] {
    // counter <= 4 is an invariant: tested against the bound before the store, incremented after it
    let mut out = [0u8; 4];
    let mut counter = 0usize;
    for x in it {
        if counter == 4 {
            return out;
        }
        out[counter] = *x;
        counter += 1;
    }
    out
}
pub fn ok_loop_countdown(v: &[u8], mut mask: u8) -> u8 {
    // idx starts at len - 1 (len >= 1 on this path) and only decreases while > 0
    if v.is_empty() {
        return 0;
    }
    let mut idx = v.len() - 1;
    let mut acc = 0u8;
    while mask != 0 {
        acc ^= v[idx];
        if idx > 0 {
            idx -= 1;
        }
        mask >>= 1;
    }
    acc
}
pub fn ok_loop_guarded(v: &[u8], bits: u8) -> u8 {
    // while !done, idx < len: idx starts at len - 1 when the slice is non-empty (done otherwise) and only decreases
    let mut done = v.is_empty();
    let mut idx: usize = if done { 0 } else { v.len() - 1 };
    let mut acc = 0u8;
    let mut m = 1u8;
    while m != 0 {
        if !done {
            if bits & m != 0 {
                if idx == 0 {
                    done = true;
                } else {
                    idx -= 1;
                }
            } else {
                acc = v[idx];
                done = true;
            }
        }
        m <<= 1;
    }
    acc
}
pub fn bad_loop_first_iteration_only(v: &[u8], n: usize) -> u8 {
    // in bounds on the first iteration only: i grows without a test against the length
    let mut i = 0usize;
    let mut s = 0u8;
    while i <= n {
        if v.is_empty() {
            return 0;
        }
        s ^= v[i];
        i += 1;
    }
    s
}
pub fn bad_loop_guard_dropped(v: &[u8], bits: u8) -> u8 {
    // like ok_loop_guarded, but the empty-slice case is not marked done: v[0] on an empty slice
    let mut done = false;
    let mut idx: usize = v.len().saturating_sub(1);
    let mut acc = 0u8;
    let mut m = 1u8;
    while m != 0 {
        if !done {
            if bits & m != 0 {
                if idx == 0 {
                    done = true;
                } else {
                    idx -= 1;
                }
            } else {
                acc = v[idx];
                done = true;
            }
        }
        m <<= 1;
    }
    acc
}
