"""Index-in-bounds obligations and a small prover for them (used by C25).

For every place where Rust would panic on an out-of-range index — MIR `Assert(BoundsCheck)` terminators and calls of
`Index::index` / `IndexMut::index_mut` on slices, arrays and Vecs — the obligation is `index < len` (element),
`start <= len` (x[a..]), `end <= len` (x[..b]) or `start <= end <= len` (x[a..b]), plus `a - b >= 0` for every usize
subtraction inside the index expression.

Values are reconstructed FLOW-SENSITIVELY from MIR (Eval): a local assigned more than once is resolved through its
reaching definitions at the point of use (`buf = &buf[1..]` makes len(buf) = len(old buf) - 1); when several
definitions reach, the local stays an opaque symbol.  Facts come from the branch conditions that dominate the site
(taken on the edge that dominates it), from dominating bounds checks that passed, and from known value ranges (u8
casts, masks, lengths >= 0, array types, local functions that only return constants).  A fact that mentions storage
that may be mutated between the condition and the site (a redefinition, a `&mut` borrow) is discarded.

The prover works on linear integer forms: constant bounds per symbol + one matching fact (Fourier-Motzkin step of
depth 2).  It is deliberately weak: whatever it cannot show is reported as `unproved` with the facts it had.
"""
from lib import mir

PURE = ("::len", "::is_empty", "::as_ref", "::deref", "::as_slice", "::borrow", "Allocator::atom", "Allocator::atom_len",
        "Allocator::node", "Allocator::sexp", "Allocator::small_number", "NodePtr::index", "NodePtr::object_type",
        "allocator::len_for_value", "::limbs", "::clone", "Cursor::<T>::get_ref", "::as_bytes", "::as_mut_slice", "::deref_mut", "::iter", "::first")
TRANSPARENT = ("::as_ref", "::deref", "::as_slice", "::borrow", "::as_mut_slice", "::deref_mut", "::as_bytes", "::as_mut")
SCALAR = ("usize", "u64", "u32", "u16", "u8", "bool", "i32", "i64", "isize", "u128", "i128")
UNSIGNED = ("u8", "u16", "u32", "u64", "usize", "u128", "bool")
WIDE = {"u8": 255, "u16": 65535, "u32": (1 << 32) - 1, "bool": 1}


def is_index_call(t):
    c = t.get("callee") or ""
    return t["k"] == "call" and ("ops::Index<" in c or "ops::IndexMut<" in c) and (c.endswith("::index") or c.endswith("::index_mut"))


class Eval:
    """flow-sensitive symbolic values over raw MIR"""

    def __init__(self, f, crate=None):
        self.f = f
        self.cr = crate
        self.nlocals = len(f.locals)
        self._rd = None
        self.multi = set()
        for l in range(1, self.nlocals):
            n = len(f.defs(l)) + (1 if l <= f.nargs else 0)
            if n > 1 or f.partial_defs(l):
                self.multi.add(l)
        self._mut = None
        self.path = None

    # ---------------------------------------------------------------- reaching definitions (multi-def locals)
    def _reaching(self):
        if self._rd is not None:
            return self._rd
        f = self.f
        nb = len(f.blocks)
        gen = [dict() for _ in range(nb)]      # local -> last def site in block (or "partial")
        for b in range(nb):
            if f.blocks[b]["cleanup"]:
                continue
            for i, st in enumerate(f.stmts(b)):
                if "d" in st and st["d"]["l"] in self.multi:
                    l = st["d"]["l"]
                    gen[b][l] = (b, i) if not st["d"]["p"] else ("partial", b, i)
            t = f.term(b)
            if t["k"] == "call" and t["dst"]["l"] in self.multi:
                gen[b][t["dst"]["l"]] = (b, "T") if not t["dst"]["p"] else ("partial", b, "T")
        IN = [dict() for _ in range(nb)]
        entry = {l: frozenset(["entry"]) for l in self.multi}
        IN[0] = entry
        work = [0]
        seen_once = set()
        while work:
            b = work.pop()
            out = dict(IN[b])
            for l, d in gen[b].items():
                out[l] = frozenset([d])
            for tb, _ in f.succ(b):
                new = dict(IN[tb])
                changed = tb not in seen_once
                seen_once.add(tb)
                for l, s in out.items():
                    u = new.get(l, frozenset()) | s
                    if u != new.get(l):
                        new[l] = u
                        changed = True
                if changed:
                    IN[tb] = new
                    work.append(tb)
        self._rd = (IN, gen)
        return self._rd

    def rd(self, l, pt):
        """definitions of multi-def local l reaching point pt=(block, stmt index | 'T').
        With a concrete path set (self.path, a list of blocks ending at the site) the answer is the LAST definition on
        that path before pt, if there is one."""
        IN, gen = self._reaching()
        b, i = pt
        if self.path and b in self.path:
            k = len(self.path) - 1 - self.path[::-1].index(b)
            stmts = self.f.stmts(b)
            end = len(stmts) if i == "T" else i
            for j in range(end - 1, -1, -1):
                st = stmts[j]
                if "d" in st and st["d"]["l"] == l:
                    return frozenset([(b, j) if not st["d"]["p"] else ("partial", b, j)])
            for q in range(k - 1, -1, -1):
                pb = self.path[q]
                if l in gen[pb]:
                    return frozenset([gen[pb][l]])
            b0 = self.path[0]
            return IN[b0].get(l, frozenset(["entry"]))
        cur = IN[b].get(l, frozenset(["entry"]))
        stmts = self.f.stmts(b)
        end = len(stmts) if i == "T" else i
        for j in range(end):
            st = stmts[j]
            if "d" in st and st["d"]["l"] == l:
                cur = frozenset([(b, j) if not st["d"]["p"] else ("partial", b, j)])
        return cur

    # ---------------------------------------------------------------- mutation sites (for discarding stale facts)
    def mutation_blocks(self, l):
        """blocks in which storage reachable from local l may be written: an assignment to (a place rooted at) l or
        through a `&mut` derived from it, or a call that receives such a `&mut` (or l itself by move)"""
        if self._mut is None:
            self._mut = {}
        if l in self._mut:
            return self._mut[l]
        f = self.f
        derived = {l}
        changed = True
        while changed:
            changed = False
            for b, blk in enumerate(f.blocks):
                if blk["cleanup"]:
                    continue
                for st in blk["stmts"]:
                    rv = st.get("rv", {})
                    src = None
                    for k in ("ref", "rawptr"):
                        if k in rv and rv[k][0] not in ("shr", "const", "fake"):
                            src = rv[k][1]["l"]
                    if "use" in rv and ("mv" in rv["use"] or "cp" in rv["use"]):
                        pl = rv["use"].get("mv") or rv["use"].get("cp")
                        if pl["l"] in derived and pl["l"] != l and not st["d"]["p"]:
                            src = pl["l"]
                    if src in derived and "d" in st and not st["d"]["p"] and st["d"]["l"] not in derived:
                        ty = f.local_ty(st["d"]["l"])
                        if "mut" in ty or src == l and ("ref" in rv or "rawptr" in rv):
                            derived.add(st["d"]["l"])
                            changed = True
        out = set()
        ty_l = f.local_ty(l)
        l_is_mut_ref = ty_l.startswith("&mut") or ty_l.startswith("&'a mut") or " mut " in ty_l.split("[")[0]
        for b, blk in enumerate(f.blocks):
            if blk["cleanup"]:
                continue
            for st in blk["stmts"]:
                if "d" in st and st["d"]["l"] in derived and (st["d"]["l"] == l or st["d"]["p"]):
                    out.add(b)
            t = blk["term"]
            if t["k"] == "call":
                if t["dst"]["l"] in derived and (t["dst"]["l"] == l or t["dst"]["p"]):
                    out.add(b)
                for a in t["args"]:
                    pl = a.get("mv") or a.get("cp")
                    if pl and pl["l"] in derived:
                        if pl["l"] != l or (l_is_mut_ref and "mv" in a) or (pl["l"] == l and "mv" in a and not self._copy_ty(ty_l)):
                            out.add(b)
            if t["k"] == "drop" and "place" in t and t["place"]["l"] == l:
                out.add(b)
        self._mut[l] = out
        return out

    @staticmethod
    def _copy_ty(ty):
        return ty.startswith("&") and not ty.startswith("&mut") and " mut " not in ty.split("[")[0] or ty in ("usize", "u64", "u32", "u8", "u16", "i32", "i64", "bool", "allocator::NodePtr")

    # ---------------------------------------------------------------- values
    def operand(self, op, pt, depth=0):
        if "c" in op:
            c = op["c"]
            if "val" in c and isinstance(c["val"], int):
                return ("c", c["val"])
            if "bytes" in c:
                return ("bytes", c["bytes"], c.get("ty", ""))
            if "fn" in c:
                return ("fn", c["fn"])
            if "str" in c:
                return ("str", c["str"])
            return ("k", c.get("name") or c.get("ty") or "?")
        pl = op.get("cp") or op.get("mv")
        return self.place(pl, pt, depth)

    def place(self, pl, pt, depth=0):
        base = self.local(pl["l"], pt, depth)
        for p in pl["p"]:
            if p == "*":
                continue
            if isinstance(p, dict):
                if "f" in p:
                    bb = base
                    while bb[0] == "val":
                        bb = bb[2]
                    if bb[0] == "agg" and bb[1] == "tuple" and str(p["f"]).isdigit() and int(p["f"]) < len(bb[2]):
                        base = bb[2][int(p["f"])]
                    else:
                        base = ("fld", base, p["f"])
                elif "dc" in p:
                    base = ("dc", base, p["dc"])
                elif "ix" in p:
                    base = ("elem", base, self.local(p["ix"], pt, depth))
                elif "cix" in p and not p.get("fe"):
                    base = ("elem", base, ("c", p["cix"]))
                else:
                    base = ("proj", base, str(sorted(p.items())))
            else:
                base = ("proj", base, str(p))
        return base

    def local(self, l, pt, depth=0):
        f = self.f
        if depth > 40:
            return ("sym", f"_{l}", (l,))
        if l in self.multi:
            ds = self.rd(l, pt)
            if len(ds) != 1:
                return ("sym", f.local_name(l) or f"_{l}", (l,))
            d = next(iter(ds))
            if d == "entry":
                return ("sym", f.local_name(l) or f"arg{l}", (l,))
            if d[0] == "partial":
                return ("sym", f.local_name(l) or f"_{l}", (l,))
        else:
            if 1 <= l <= f.nargs:
                return ("par", l, f.local_name(l) or f"arg{l}")
            ds = f.defs(l)
            if len(ds) != 1:
                return ("sym", f.local_name(l) or f"_{l}", (l,))
            d = ds[0]
        b, i = d
        if i == "T":
            t = f.term(b)
            callee = t.get("callee") or "?indirect"
            args = tuple(self.operand(a, (b, "T"), depth + 1) for a in t["args"])
            if any(callee.endswith(p) for p in PURE):
                v = ("call", callee, args)
            else:
                v = ("call", callee, args, (b,))      # impure: the call site is part of the identity
        else:
            rv = f.stmts(b)[i]["rv"]
            v = self.rvalue(rv, (b, i), depth + 1)
        if l not in self.multi and f.local_ty(l) in SCALAR and v[0] not in ("c", "val"):
            return ("val", l, v)       # a scalar computed once: its value does not change when storage does
        return v

    def rvalue(self, rv, pt, depth=0):
        O = lambda o: self.operand(o, pt, depth)
        if "use" in rv:
            return O(rv["use"])
        if "ref" in rv:
            return self.place(rv["ref"][1], pt, depth)
        if "rawptr" in rv:
            return self.place(rv["rawptr"][1], pt, depth)
        if "cast" in rv:
            return ("cast", rv["cast"][0], O(rv["cast"][1]), rv["cast"][2], self._op_ty(rv["cast"][1]))
        if "bin" in rv:
            op, a, b = rv["bin"]
            return ("bin", op.replace("Unchecked", ""), O(a), O(b))
        if "un" in rv:
            if rv["un"][0] == "PtrMetadata":
                return ("len", O(rv["un"][1]))
            return ("un", rv["un"][0], O(rv["un"][1]))
        if "len" in rv:
            return ("len", self.place(rv["len"], pt, depth))
        if "agg" in rv:
            kind = rv["agg"][0]
            name = kind.get("adt", "") + "::" + kind.get("variant", "") if isinstance(kind, dict) else str(kind)
            return ("agg", name, tuple(O(o) for o in rv["agg"][1]))
        if "discr" in rv:
            return ("discr", self.place(rv["discr"], pt, depth))
        if "repeat" in rv:
            n = rv["repeat"][1]
            return ("repeat", int(n) if str(n).isdigit() else str(n))
        return ("rv", str(sorted(rv.keys())))

    def _op_ty(self, op):
        if "c" in op:
            return op["c"].get("ty", "")
        pl = op.get("cp") or op.get("mv")
        if pl and not pl["p"]:
            return self.f.local_ty(pl["l"])
        return ""

    def place_ty(self, pl):
        if not pl["p"] or pl["p"] == ["*"]:
            return self.f.local_ty(pl["l"])
        return ""


# --------------------------------------------------------------------------- keys / roots
def key(e):
    k = e[0]
    if k == "val":
        return key(e[2])
    if k == "c":
        return str(e[1])
    if k == "par":
        return e[2]
    if k == "sym":
        return e[1]
    if k == "fld":
        return key(e[1]) + "." + e[2]
    if k == "dc":
        return "(" + key(e[1]) + " as " + e[2] + ")"
    if k == "elem":
        return key(e[1]) + "[" + key(e[2]) + "]"
    if k == "call":
        s = e[1].split("::")[-1] + "(" + ", ".join(key(a) for a in e[2]) + ")"
        if len(e) > 3:
            s += f"@bb{e[3][0]}"
        return s
    if k == "cast":
        return "(" + key(e[2]) + " as " + e[3] + ")"
    if k == "bin":
        return "(" + key(e[2]) + " " + e[1] + " " + key(e[3]) + ")"
    if k == "un":
        return e[1] + "(" + key(e[2]) + ")"
    if k == "len":
        return "len(" + key(e[1]) + ")"
    if k == "agg":
        return e[1].split("::")[-1] + "(" + ", ".join(key(a) for a in e[2]) + ")"
    if k == "discr":
        return "discr(" + key(e[1]) + ")"
    if k == "bytes":
        return "b'" + e[1][:16] + "'"
    return str(e[1:])[:60]


def roots(e, out=None):
    """locals an expression depends on: ('sym', name, (l,)) and ('par', l, name)"""
    if out is None:
        out = set()
    if not isinstance(e, tuple):
        return out
    if e[0] == "val":
        return roots(e[2], out)
    if e[0] == "sym":
        out.add(e[2][0])
    elif e[0] == "par":
        out.add(e[1])
    for x in e[1:]:
        if isinstance(x, tuple):
            if x and isinstance(x[0], str):
                roots(x, out)
            else:
                for y in x:
                    if isinstance(y, tuple):
                        roots(y, out)
    return out


# --------------------------------------------------------------------------- linear forms
class Lin:
    """linearisation of integer expressions; records atoms (key -> expr) and the usize subtractions met"""

    def __init__(self, ev):
        self.ev = ev
        self.atoms = {}
        self.subs = []
        self.hints = {}
        self.vals = {}      # atom key -> scalar locals that hold exactly this value

    def atom(self, e):
        k = key(e)
        self.atoms[k] = e
        return ({k: 1}, 0)

    def lin(self, e):
        k = e[0]
        if k == "c":
            return ({}, e[1])
        if k == "val":
            r = self.lin(e[2])
            if len(r[0]) == 1 and r[1] == 0 and list(r[0].values()) == [1]:
                self.vals.setdefault(next(iter(r[0])), set()).add(e[1])
            return r
        if k == "bin" and e[1] in ("Add", "Sub", "AddWithOverflow", "SubWithOverflow"):
            a, b = self.lin(e[2]), self.lin(e[3])
            sgn = 1 if e[1].startswith("Add") else -1
            if sgn == -1:
                self.subs.append((e[2], e[3]))
            t = dict(a[0])
            for x, c in b[0].items():
                t[x] = t.get(x, 0) + sgn * c
            return ({x: c for x, c in t.items() if c}, a[1] + sgn * b[1])
        if k == "bin" and e[1] in ("Mul", "MulWithOverflow"):
            a, b = self.lin(e[2]), self.lin(e[3])
            if not a[0]:
                return ({x: c * a[1] for x, c in b[0].items() if c * a[1]}, a[1] * b[1])
            if not b[0]:
                return ({x: c * b[1] for x, c in a[0].items() if c * b[1]}, a[1] * b[1])
            return self.atom(e)
        if k == "fld" and e[2] == "0" and e[1][0] == "bin" and e[1][1].endswith("WithOverflow"):
            return self.lin(("bin", e[1][1][:-len("WithOverflow")], e[1][2], e[1][3]))
        if k == "cast":
            src_ty = e[4].replace("&", "")
            dst = e[3]
            if e[1] == "IntToInt" and (src_ty in ("u8", "u16", "u32", "u64", "usize", "bool") and dst in ("usize", "u64", "u128", "i128")
                                       or src_ty in ("u8", "u16") and dst in ("u32", "i32", "i64")
                                       or src_ty == dst):
                r = self.lin(e[2])
                if src_ty in UNSIGNED and len(r[0]) == 1 and r[1] == 0 and list(r[0].values()) == [1]:
                    self.hints.setdefault(next(iter(r[0])), (0, WIDE.get(src_ty)))
                return r
            return self.atom(e)
        if k == "len":
            return self.slice_len(e[1])
        if k == "call" and (e[1].endswith("::len")) and len(e[2]) == 1:
            return self.slice_len(e[2][0])
        return self.atom(e)

    def slice_len(self, s):
        while True:
            if s[0] == "val":
                s = s[2]
                continue
            if s[0] == "call" and any(s[1].endswith(t) for t in TRANSPARENT) and len(s[2]) == 1 and "Atom" not in s[1]:
                s = s[2][0]
                continue
            if s[0] == "cast" and s[1] in ("PointerCoercion", "Unsize", "PtrToPtr"):
                s = s[2]
                continue
            break
        n = self.array_len(s)
        if n is not None:
            return ({}, n)
        if s[0] == "call" and is_index_callee(s[1]) and len(s[2]) == 2:
            w, r = s[2]
            if r[0] == "agg":
                rk = r[1].split("::")[-1]
                if rk == "RangeFrom":
                    a = self.lin(r[2][0])
                    wl = self.slice_len(w)
                    self.subs.append((("len", w), r[2][0]))
                    return sub(wl, a)
                if rk == "RangeTo":
                    return self.lin(r[2][0])
                if rk == "Range":
                    self.subs.append((r[2][1], r[2][0]))
                    return sub(self.lin(r[2][1]), self.lin(r[2][0]))
        return self.atom(("len", s))

    def array_len(self, s):
        """constant length if s is an array-typed value"""
        if s[0] == "bytes":
            import re
            m = re.search(r"\[.*; (\d+)\]$", s[2].strip())
            if m:
                return int(m.group(1))
            return None
        if s[0] == "agg" and s[1] == "array":
            return len(s[2])
        if s[0] == "repeat" and isinstance(s[1], int):
            return s[1]
        ty = None
        if s[0] == "par":
            ty = self.ev.f.local_ty(s[1])
        elif s[0] == "sym":
            ty = self.ev.f.local_ty(s[2][0])
        elif s[0] == "tyv":
            ty = s[1]
        if ty:
            import re
            m = re.fullmatch(r"(?:&(?:'\w+ )?(?:mut )?)?\[.*; (\d+)\]", ty.strip())
            if m:
                return int(m.group(1))
        return None


def is_index_callee(c):
    return ("ops::Index<" in c or "ops::IndexMut<" in c) and (c.endswith("::index") or c.endswith("::index_mut"))


def sub(a, b):
    t = dict(a[0])
    for x, c in b[0].items():
        t[x] = t.get(x, 0) - c
    return ({x: c for x, c in t.items() if c}, a[1] - b[1])


def add(a, b, k=1):
    t = dict(a[0])
    for x, c in b[0].items():
        t[x] = t.get(x, 0) + k * c
    return ({x: c for x, c in t.items() if c}, a[1] + k * b[1])


def show_lin(l):
    terms, c = l
    s = " ".join(f"{'+' if v > 0 else '-'}{abs(v) if abs(v) != 1 else ''}{k}" for k, v in sorted(terms.items()))
    return (s + f" {c:+d}").strip()


# --------------------------------------------------------------------------- the prover
class Prover:
    def __init__(self, f, crate=None):
        self.f = f
        self.cr = crate
        self.ev = Eval(f, crate)
        self._ranges = {}

    # ---- facts ---------------------------------------------------------------------------------------
    def _cond_facts(self, e, truth, L, out):
        """append linear facts  (lin, rel)  meaning lin rel 0 with rel in '>=0', '==0' implied by  e == truth"""
        k = e[0]
        if k == "val":
            return self._cond_facts(e[2], truth, L, out)
        if k == "un" and e[1] == "Not":
            return self._cond_facts(e[2], not truth, L, out)
        if k == "bin" and e[1] in ("Lt", "Le", "Gt", "Ge", "Eq", "Ne"):
            a, b = L.lin(e[2]), L.lin(e[3])
            op = e[1]
            if not truth:
                op = {"Lt": "Ge", "Le": "Gt", "Gt": "Le", "Ge": "Lt", "Eq": "Ne", "Ne": "Eq"}[op]
            if op == "Lt":      # a < b  ->  b - a - 1 >= 0
                out.append((add(sub(b, a), ({}, -1)), ">=0"))
            elif op == "Le":
                out.append((sub(b, a), ">=0"))
            elif op == "Gt":
                out.append((add(sub(a, b), ({}, -1)), ">=0"))
            elif op == "Ge":
                out.append((sub(a, b), ">=0"))
            elif op == "Eq":
                out.append((sub(a, b), "==0"))
            elif op == "Ne":
                # a != b with b == 0 and a >= 0  ->  a >= 1
                d = sub(a, b)
                out.append((d, "!=0"))
            return
        if k == "call" and e[1].endswith("::is_empty") and len(e[2]) == 1:
            l = L.slice_len(e[2][0])
            if truth:
                out.append((l, "==0"))
            else:
                out.append((add(l, ({}, -1)), ">=0"))
            return
        if k == "call" and e[1].endswith("::starts_with") and len(e[2]) == 2 and truth:
            out.append((sub(L.slice_len(e[2][0]), L.slice_len(e[2][1])), ">=0"))
            return
        if k == "call" and e[1].endswith("::eq") and len(e[2]) == 2 and not truth:
            return
        if k == "cast":
            return self._cond_facts(e[2], truth, L, out)

    def edge_facts(self, x, tgt, val, L):
        """facts implied by leaving switch block x through the edge labelled val"""
        f = self.f
        t = f.term(x)
        cond = self.ev.operand(t["on"], (x, "T"))
        fs = []
        if t.get("ty") == "bool":
            if val == "otherwise":
                truth = [v for v, _ in t["targets"]] == [0]
            else:
                truth = bool(val)
            self._cond_facts(cond, truth, L, fs)
        elif val != "otherwise":
            fs.append((sub(L.lin(cond), ({}, val)), "==0"))
        return fs

    def passed_facts(self, x, L):
        """facts implied by the terminator of x having completed normally (a bounds check / an index call that returned)"""
        t = self.f.term(x)
        fs = []
        if t["k"] == "assert" and t.get("kind") == "BoundsCheck":
            cond = self.ev.operand(t["cond"], (x, "T"))
            self._cond_facts(cond, bool(t.get("expected", True)), L, fs)
        elif is_index_call(t) and t.get("target") is not None:
            for g in self.site_goals(x, L, quiet=True):
                fs.append((g[0], ">=0"))
        return fs

    def facts_at(self, site_b, L):
        """facts valid at the terminator of block site_b (from dominating edges and dominating passed checks)"""
        f = self.f
        kept = []
        for x in f.dominators(site_b):
            t = f.term(x)
            cands = []
            if t["k"] == "switch":
                for tgt, val in f.succ(x):
                    if len(f.pred(tgt)) == 1 and (tgt == site_b or f.dominates(tgt, site_b)):
                        cands.append((tgt, lambda Lf, tgt=tgt, val=val: self.edge_facts(x, tgt, val, Lf)))
            elif x != site_b and t.get("target") is not None:
                cands.append((t["target"], lambda Lf: self.passed_facts(x, Lf)))
            for tgt, mk in cands:
                Lf = Lin(self.ev)
                for lin, rel in mk(Lf):
                    if self._stale(lin, Lf, L, self._between(tgt, site_b)):
                        continue
                    self._merge(L, Lf)
                    kept.append((lin, rel, x))
        return kept

    @staticmethod
    def _merge(L, Lf):
        for k, e in Lf.atoms.items():
            L.atoms.setdefault(k, e)
        for k, h in Lf.hints.items():
            L.hints.setdefault(k, h)
        for k, v in Lf.vals.items():
            L.vals.setdefault(k, set()).update(v)

    def path_facts(self, path, site_b, L):
        """facts along one concrete path (list of blocks ending in site_b)"""
        f = self.f
        out = []
        for i, x in enumerate(path[:-1]):
            nxt = path[i + 1]
            t = f.term(x)
            rest = set(path[i + 1:])
            Lf = Lin(self.ev)
            fs = []
            if t["k"] == "switch":
                labels = [val for tgt, val in f.succ(x) if tgt == nxt]
                if len(labels) == 1:
                    fs = self.edge_facts(x, nxt, labels[0], Lf)
            else:
                fs = self.passed_facts(x, Lf)
            for lin, rel in fs:
                if self._stale(lin, Lf, L, rest):
                    continue
                self._merge(L, Lf)
                out.append((lin, rel, x))
        return out

    def _between(self, start, site_b):
        """blocks on a path start -> site_b that does not re-enter start"""
        f = self.f
        fwd = set()
        st = [start]
        while st:
            b = st.pop()
            if b in fwd:
                continue
            fwd.add(b)
            if b == site_b:
                continue
            for tb, _ in f.succ(b):
                if tb != start:
                    st.append(tb)
        bwd = set()
        st = [site_b]
        while st:
            b = st.pop()
            if b in bwd:
                continue
            bwd.add(b)
            if b == start:
                continue
            for pb, _ in f.pred(b):
                st.append(pb)
        return fwd & bwd

    def _stale(self, lin, Lf, Lgoal, region):
        """may the storage a fact talks about have changed inside `region` (the blocks between the fact and the site)?"""
        f = self.f
        for a in lin[0]:
            # the same scalar local on both sides: one value, whatever happened to the storage it was read from
            if Lf.vals.get(a) and Lgoal.vals.get(a) and (Lf.vals[a] & Lgoal.vals[a]):
                continue
            e = Lf.atoms.get(a)
            if e is None:
                continue
            ee = e
            while ee[0] == "val" or (ee[0] == "cast" and ee[1] == "IntToInt"):
                ee = ee[2]
            if ee[0] == "call" and len(ee) > 3:
                continue    # the result of one particular call: a value, fixed once computed
            if ee[0] == "len":
                inner = ee[1]
                while inner[0] == "val":
                    inner = inner[2]
                if inner[0] == "call" and inner[1].endswith("Cursor::<T>::get_ref"):
                    continue    # the slice under a Cursor<&[u8]> is never replaced by reads, seeks or set_position
            for r in roots(e):
                ty = f.local_ty(r)
                if r not in self.ev.multi and Eval._copy_ty(ty):
                    continue
                if self.ev.mutation_blocks(r) & region:
                    return True
        return False

    # ---- ranges of atoms -----------------------------------------------------------------------------
    def atom_range(self, k, e, L=None):
        lo, hi = None, None
        while e[0] == "val":
            e = e[2]
        if L is not None and k in L.hints:
            lo, hi = L.hints[k]
        if e[0] == "cast" and e[1] == "IntToInt":
            il, ih = self.atom_range(key(e[2]), e[2], L)
            if il is not None and ih is not None and il >= 0 and ih <= WIDE.get(e[3], 1 << 63):
                return il, ih
        if e[0] == "sym" and e[2][0] in self.ev.multi:
            vals = []
            for d in self.f.defs(e[2][0]):
                rv = self.f.def_rvalue(d)
                if "use" in rv and "c" in rv["use"] and isinstance(rv["use"]["c"].get("val"), int):
                    vals.append(rv["use"]["c"]["val"])
                else:
                    vals = None
                    break
            if vals and not (e[2][0] <= self.f.nargs):
                return min(vals), max(vals)
        if e[0] == "k" and len(e) > 1 and e[1] in UNSIGNED:
            lo = 0      # a const generic of an unsigned type
        if e[0] == "len" or (e[0] == "call" and e[1].endswith("::len")):
            lo = 0
        if e[0] == "cast":
            src = e[4].replace("&", "")
            if src in WIDE:
                lo, hi = 0, WIDE[src]
            elif e[3] in ("usize", "u64", "u32", "u8", "u16"):
                lo = 0
                if e[3] in WIDE:
                    hi = WIDE[e[3]]
        if e[0] == "bin" and e[1] == "BitAnd":
            for s in (e[2], e[3]):
                if s[0] == "c":
                    lo, hi = 0, s[1]
        if e[0] == "bin" and e[1] in ("Shr", "Div", "Rem", "BitOr", "Mul", "Shl"):
            lo = 0
        if e[0] == "elem":
            lo = 0
        if e[0] == "call":
            r = self.fn_const_range(e[1])
            if r:
                lo, hi = r
            elif e[1].endswith(("::atom_len", "NodePtr::index", "::limbs", "::count_ones", "::leading_zeros", "::trailing_zeros")):
                lo = 0
        if e[0] in ("par", "sym", "fld"):
            ty = None
            if e[0] == "par":
                ty = self.f.local_ty(e[1])
            elif e[0] == "sym":
                ty = self.f.local_ty(e[2][0])
            if ty in ("usize", "u64", "u32", "u16", "u8"):
                lo = 0
                hi = WIDE.get(ty)
        return lo, hi

    def fn_const_range(self, callee):
        if callee in self._ranges:
            return self._ranges[callee]
        r = None
        g = self.cr.fns.get(callee) if self.cr else None
        if g is not None:
            vals = []
            ok = True
            for d in g.defs(0):
                rv = g.def_rvalue(d)
                if "use" in rv and "c" in rv["use"] and isinstance(rv["use"]["c"].get("val"), int):
                    vals.append(rv["use"]["c"]["val"])
                else:
                    ok = False
            if ok and vals:
                r = (min(vals), max(vals))
        self._ranges[callee] = r
        return r

    # ---- proving -------------------------------------------------------------------------------------
    def prove(self, goal, facts, L, depth=0):
        """goal: lin >= 0 ?"""
        terms, c = goal
        if not terms:
            return c >= 0
        if depth == 0:
            # d != 0 together with d >= 0 (or -d >= 0) gives d - 1 >= 0 (resp. -d - 1 >= 0)
            derived = []
            for (ft, fc), rel, src in facts:
                if rel != "!=0" or len(ft) < 2:
                    continue
                neg = ({a: -co for a, co in ft.items()}, -fc)
                for (gt, gc), rel2, _ in facts:
                    if rel2 == ">=0" and gt == ft and gc == fc:
                        derived.append(((dict(ft), fc - 1), ">=0", src))
                    elif rel2 == ">=0" and gt == neg[0] and gc == neg[1]:
                        derived.append(((dict(neg[0]), neg[1] - 1), ">=0", src))
            if derived:
                facts = list(facts) + derived
        # constant bounds per atom from ranges and single-atom facts
        lo, hi = {}, {}
        for a in set(terms) | {x for fl, _, _ in facts for x in fl[0]}:
            e = L.atoms.get(a)
            if e is not None:
                l, h = self.atom_range(a, e, L)
                if l is not None:
                    lo[a] = l
                if h is not None:
                    hi[a] = h
        for (ft, fc), rel, _ in facts:
            if len(ft) == 1:
                (a, co), = ft.items()
                if rel == ">=0":
                    if co > 0:      # co*a + fc >= 0 -> a >= ceil(-fc/co)
                        v = -(fc // co) if fc % co == 0 else (-fc) // co + 1
                        v = -((fc) // co) if True else v
                        import math
                        v = math.ceil(-fc / co)
                        lo[a] = max(lo.get(a, v), v)
                    else:
                        import math
                        v = math.floor(fc / (-co))
                        hi[a] = min(hi.get(a, v), v)
                elif rel == "==0" and fc % co == 0:
                    v = -fc // co
                    lo[a] = max(lo.get(a, v), v)
                    hi[a] = min(hi.get(a, v), v)
                elif rel == "!=0" and fc == 0 and lo.get(a) == 0:
                    lo[a] = 1
        # a != 0 facts together with lo == 0
        for (ft, fc), rel, _ in facts:
            if rel == "!=0" and len(ft) == 1:
                (a, co), = ft.items()
                if fc % co == 0 and lo.get(a) is not None and lo[a] == -fc // co:
                    lo[a] += 1
                if fc % co == 0 and hi.get(a) is not None and hi[a] == -fc // co:
                    hi[a] -= 1
        if any(a in lo and a in hi and lo[a] > hi[a] for a in lo):
            return True       # contradictory facts: this path cannot be taken
        mn = c
        ok = True
        for a, co in terms.items():
            if co > 0 and a in lo:
                mn += co * lo[a]
            elif co < 0 and a in hi:
                mn += co * hi[a]
            else:
                ok = False
                break
        if ok and mn >= 0:
            return True
        if depth >= 2:
            return False
        # one Fourier-Motzkin step: goal = F + rest (F >= 0)  or goal = rest +/- F (F == 0)
        for (ft, fc), rel, _ in facts:
            if not (set(ft) & set(terms)):
                continue
            fl = (ft, fc)
            if rel == ">=0":
                for kk in (1, 2, 8):
                    rest = add(goal, fl, -kk)
                    if len(rest[0]) < len(terms) or not rest[0]:
                        if self.prove(rest, facts, L, depth + 1):
                            return True
            elif rel == "==0":
                for kk in (1, -1, 2, -2, 8, -8):
                    rest = add(goal, fl, kk)
                    if len(rest[0]) < len(terms) or not rest[0]:
                        if self.prove(rest, facts, L, depth + 1):
                            return True
        return False

    # ---- sites ---------------------------------------------------------------------------------------
    def site_goals(self, b, L, quiet=False):
        """obligations (lin >= 0, text) of the indexing construct that ends block b"""
        f = self.f
        ev = self.ev
        t = f.term(b)
        goals = []
        nsub = len(L.subs)
        if t["k"] == "assert":
            cond = ev.operand(t["cond"], (b, "T"))
            while cond[0] == "val":
                cond = cond[2]
            if cond[0] == "bin" and cond[1] == "Lt":
                idx, ln = L.lin(cond[2]), L.lin(cond[3])
                goals.append((add(sub(ln, idx), ({}, -1)), f"{key(cond[2])} < {key(cond[3])}"))
            elif cond[0] == "bin" and cond[1] == "Eq" and t.get("kind") in ("DivisionByZero", "RemainderByZero"):
                d = cond[2]
                goals.append((add(L.lin(d), ({}, -1)), f"{key(d)} != 0"))
            else:
                goals.append((({"?" + key(cond): 1}, -1), "unrecognised bounds condition"))
        else:
            cont = ev.operand(t["args"][0], (b, "T"))
            idx = ev.operand(t["args"][1], (b, "T"))
            while idx[0] == "val":
                idx = idx[2]
            ln = L.slice_len(cont)
            if not ln[0] and ln[1] == 0 and self._container_ty_len(t) is not None:
                ln = ({}, self._container_ty_len(t))
            tl = self._container_ty_len(t)
            if tl is not None:
                ln = ({}, tl)
            if idx[0] == "agg" and idx[1].split("::")[-1] in ("RangeFrom", "RangeTo", "Range", "RangeFull", "RangeInclusive", "RangeToInclusive"):
                rk = idx[1].split("::")[-1]
                if rk == "RangeFrom":
                    goals.append((sub(ln, L.lin(idx[2][0])), f"{key(idx[2][0])} <= len({key(cont)})"))
                elif rk == "RangeTo":
                    goals.append((sub(ln, L.lin(idx[2][0])), f"{key(idx[2][0])} <= len({key(cont)})"))
                elif rk == "Range":
                    goals.append((sub(L.lin(idx[2][1]), L.lin(idx[2][0])), f"{key(idx[2][0])} <= {key(idx[2][1])}"))
                    goals.append((sub(ln, L.lin(idx[2][1])), f"{key(idx[2][1])} <= len({key(cont)})"))
                elif rk == "RangeFull":
                    pass
                else:
                    goals.append((({"?" + rk: 1}, -1), "inclusive range"))
            else:
                goals.append((add(sub(ln, L.lin(idx)), ({}, -1)), f"{key(idx)} < len({key(cont)})"))
        if not quiet:
            for a, bb in L.subs[nsub:]:
                goals.append((sub(L.lin(a), L.lin(bb)), f"no wrap: {key(a)} - {key(bb)} >= 0"))
        else:
            del L.subs[nsub:]
        return goals

    def _container_ty_len(self, t):
        """array length from the callee's Self type when the container is an array"""
        import re
        ga = t.get("ga") or []
        for g in ga[:1]:
            m = re.fullmatch(r"\[.*; (\d+)\]", g.strip())
            if m:
                return int(m.group(1))
        return None

    def sites(self):
        f = self.f
        for b in sorted(f.reachable_blocks()):
            t = f.term(b)
            if t["k"] == "assert" and t.get("kind") == "BoundsCheck":
                yield b, "bounds check"
            elif t["k"] == "assert" and t.get("kind") in ("DivisionByZero", "RemainderByZero"):
                yield b, "division"
            elif is_index_call(t):
                yield b, "index call"

    def check_site(self, b, invariants=None):
        """-> dict(goals=[(text, proved, linear form, how)], facts=[...])
        invariants: optional callable(prover, L, facts) -> extra facts assumed as data-structure invariants"""
        L = Lin(self.ev)
        goals = self.site_goals(b, L)
        facts = self.facts_at(b, L)
        res = []
        for gi, (g, text) in enumerate(goals):
            how = "dominating conditions"
            ok = self.prove(g, facts, L)
            if not ok:
                ok = self.prove_on_paths(b, g, facts, L, goal_index=gi)
                how = "every path"
            if not ok and invariants is not None:
                extra = invariants(self, L, facts)
                if extra:
                    ok = self.prove(g, facts + extra, L) or self.prove_on_paths(b, g, facts + extra, L, goal_index=gi)
                    how = "storage invariant"
            if not ok:
                inv = self.prove_loop_invariant(b, gi)
                if inv:
                    ok = True
                    how = "loop invariant: " + inv
            res.append((text, ok, show_lin(g) + " >= 0", how if ok else None))
        return {"goals": res, "facts": [show_lin(l) + " " + rel for l, rel, _ in facts]}

    # ---- loop invariants --------------------------------------------------------------------------------
    def _paths_to(self, p, cap=200):
        """acyclic path sets D -> p for dominators D of p, farthest dominator first: yields lists of paths"""
        f = self.f
        inner = [body for h_, body in f.loops().items() if p in body]
        body_ = min(inner, key=len) if inner else None
        for D in reversed(f.dominators(p)):
            if body_ is not None and D not in body_:
                continue
            region = self._between(D, p) | {D, p}
            paths, cyclic = [], False
            stack = [(D, [D])]
            while stack and not cyclic:
                x, path = stack.pop()
                if x == p:
                    paths.append(path)
                    if len(paths) > cap:
                        break
                    continue
                for tb, _ in f.succ(x):
                    if tb not in region:
                        continue
                    if tb in path:
                        cyclic = True
                        break
                    stack.append((tb, path + [tb]))
            if not cyclic and paths and len(paths) <= cap:
                yield paths

    def facts_before(self, bd, L):
        """facts valid on entry to block bd (before its statements run)"""
        f = self.f
        preds = f.pred(bd)
        if len(preds) == 1:
            p, val = preds[0]
            fs = list(self.facts_at(p, L))
            t = f.term(p)
            if t["k"] == "switch":
                fs += [(l_, r_, p) for l_, r_ in self.edge_facts(p, bd, val, L)]
            else:
                fs += [(l_, r_, p) for l_, r_ in self.passed_facts(p, L)]
            return fs
        idom = [x for x in f.dominators(bd) if x != bd]
        return list(self.facts_at(idom[0], L)) if idom else []

    def prove_loop_invariant(self, b, goal_index):
        """The goal of site b mentions a local X that is reassigned in the loop around b, so no dominating condition bounds it.
        Try to establish the goal by induction: find an inequality I over X and loop-invariant terms (the goal itself, or the goal
        weakened by one) - optionally guarded by `P == v` for a bool local P tested on the way to b - such that
          (entry)        I holds on every path into the loop (with X's value on that path), or the guard is false there;
          (preservation) every assignment to X inside the loop re-establishes I from I and the conditions dominating it, every such
                         assignment sits behind the guard, and P is only ever assigned the opposite constant inside the loop;
          (use)          I and the conditions dominating b give the goal.
        Returns a description of the invariant, or None."""
        f, ev = self.f, self.ev
        cands = [(h, body) for h, body in f.loops().items() if b in body]
        if not cands:
            return None
        h, body = min(cands, key=lambda hb: len(hb[1]))
        L = Lin(ev)
        goals = self.site_goals(b, L)
        if goal_index >= len(goals):
            return None
        g, text = goals[goal_index]

        def unval(e):
            while e and e[0] == "val":
                e = e[2]
            return e
        carried = []
        for k_, c_ in g[0].items():
            e = unval(L.atoms.get(k_, ("?",)))
            if e[0] == "sym" and len(e[2]) == 1 and any(d_[0] in body for d_ in f.defs(e[2][0])):
                carried.append((k_, e[2][0], c_))
        if len(carried) != 1 or abs(carried[0][2]) != 1:
            return None
        xk, lx, cx = carried[0]
        for k_ in g[0]:
            if k_ == xk:
                continue
            for r in roots(L.atoms.get(k_, ("?",))):
                if any(d_[0] in body for d_ in f.defs(r)):
                    return None
        dom_facts = self.facts_at(b, L)
        # guards: bool locals tested on the way to b inside the loop
        guards = [None]
        for s_ in f.dominators(b):
            if s_ == b or s_ not in body or f.term(s_)["k"] != "switch" or f.term(s_).get("ty") != "bool":
                continue
            ce = unval(ev.operand(f.term(s_)["on"], (s_, "T")))
            if ce[0] != "sym" or len(ce[2]) != 1 or f.local_ty(ce[2][0]) != "bool":
                continue
            for tgt, val in f.succ(s_):
                if len(f.pred(tgt)) == 1 and (tgt == b or f.dominates(tgt, b)):
                    truth = ([v for v, _ in f.term(s_)["targets"]] == [0]) if val == "otherwise" else bool(val)
                    guards.append((ce[2][0], truth))

        def subst(I, new_lin):
            """I with X replaced by the linear form new_lin"""
            t = {a: c_ for a, c_ in I[0].items() if a != xk}
            for a, c_ in new_lin[0].items():
                t[a] = t.get(a, 0) + cx * c_
            return ({a: c_ for a, c_ in t.items() if c_}, I[1] + cx * new_lin[1])

        def const_bool(e):
            e = unval(e)
            if e[0] == "c" and isinstance(e[1], (int, bool)):
                return bool(e[1])
            return None

        entries = [p for p, _ in f.pred(h) if p not in body]
        xdefs = [d_ for d_ in f.defs(lx) if d_[0] in body]
        for kk in (0, 1):
            I = (dict(g[0]), g[1] + kk)
            for guard in guards:
                # --- use
                if not self.prove(g, dom_facts + [(I, ">=0", h)], L):
                    continue
                ok = True
                # --- guard discipline
                if guard is not None:
                    lp, v = guard
                    for d_ in f.defs(lp):
                        if d_[0] not in body:
                            continue
                        cv = const_bool(ev.rvalue(f.stmts(d_[0])[d_[1]]["rv"], d_)) if d_[1] != "T" else None
                        if cv is None or cv == v:
                            ok = False
                    for d_ in xdefs:
                        behind = False
                        for s_ in f.dominators(d_[0]):
                            if s_ not in body or f.term(s_)["k"] != "switch":
                                continue
                            ce = unval(ev.operand(f.term(s_)["on"], (s_, "T")))
                            if ce[0] == "sym" and ce[2] == (lp,):
                                for tgt, val in f.succ(s_):
                                    truth = ([vv for vv, _ in f.term(s_)["targets"]] == [0]) if val == "otherwise" else bool(val)
                                    if truth == v and len(f.pred(tgt)) == 1 and (tgt == d_[0] or f.dominates(tgt, d_[0])):
                                        behind = True
                        # ... and P is not reassigned between that test and the assignment (within one iteration)
                        for pd in f.defs(lp):
                            if pd[0] in body and d_[0] in f.reach_from([pd[0]], blocked={h}) and pd[0] != d_[0]:
                                behind = False
                        if not behind:
                            ok = False
                if not ok:
                    continue
                # --- entry
                for p in entries:
                    proved_p = False
                    for paths in self._paths_to(p):
                        allok = True
                        for path in paths:
                            ev.path = path
                            try:
                                Lp = Lin(ev)
                                xe = ev.local(lx, (p, "T"))
                                if unval(xe)[0] == "sym" and unval(xe)[2] == (lx,):
                                    allok = False       # X's value on this path is not determined inside the region
                                    break
                                facts_p = self.path_facts(path, p, Lp)
                                if guard is not None:
                                    pe = ev.local(guard[0], (p, "T")) if guard[0] in ev.multi else ev.local(guard[0], (p, "T"))
                                    cb = const_bool(pe)
                                    if cb is not None:
                                        if cb != guard[1]:
                                            continue        # the guard is false on this path: nothing to show
                                    else:
                                        fs = []
                                        self._cond_facts(pe, guard[1], Lp, fs)
                                        if not fs:
                                            allok = False
                                            break
                                        facts_p = facts_p + [(l_, r_, p) for l_, r_ in fs]
                                goal_p = subst(I, Lp.lin(xe))
                                self._merge(Lp, L)
                                if not self.prove(goal_p, facts_p, Lp):
                                    allok = False
                                    break
                            finally:
                                ev.path = None
                        if allok:
                            proved_p = True
                            break
                    if not proved_p:
                        ok = False
                        break
                if not ok or not entries:
                    continue
                # --- preservation
                for d_ in xdefs:
                    Ld = Lin(ev)
                    if d_[1] == "T":
                        ok = False
                        break
                    new = ev.rvalue(f.stmts(d_[0])[d_[1]]["rv"], d_)
                    new_lin = Ld.lin(new)
                    if any("d" in st and st["d"]["l"] == lx for st in f.stmts(d_[0])[:d_[1]]):
                        ok = False
                        break
                    facts_d = self.facts_before(d_[0], Ld)
                    self._merge(Ld, L)
                    if not self.prove(subst(I, new_lin), facts_d + [(I, ">=0", h)], Ld):
                        ok = False
                        break
                if ok:
                    return f"{show_lin(I)} >= 0 is a loop invariant" + (f" while {f.local_name(guard[0]) or 'the guard'} == {str(guard[1]).lower()}" if guard else "")
        return None

    def prove_on_paths(self, b, goal, dom_facts, L, cap=400, goal_index=None):
        """path-sensitive attempt: for some dominator D of the site with an acyclic region D..site, the goal holds on
        every path D -> site under the conditions taken along that path (or the path is contradictory)"""
        f = self.f
        doms = [x for x in f.dominators(b) if x != b]
        # a site inside a loop is reached once per iteration: "every path from D" covers every arrival only when D lies in the
        # same (innermost) loop, so that the region is one iteration and loop-carried locals stay symbolic
        inner = [body for h_, body in f.loops().items() if b in body]
        if inner:
            body_ = min(inner, key=len)
            doms = [x for x in doms if x in body_]
        for D in doms[:14]:
            region = self._between(D, b)
            # acyclic?
            paths = []
            cyclic = False
            stack = [(D, [D])]
            while stack and not cyclic:
                x, path = stack.pop()
                if x == b:
                    paths.append(path)
                    if len(paths) > cap:
                        break
                    continue
                for tb, _ in f.succ(x):
                    if tb not in region:
                        continue
                    if tb in path:
                        cyclic = True
                        break
                    stack.append((tb, path + [tb]))
            if cyclic or len(paths) > cap or not paths:
                if cyclic:
                    break
                continue
            if all(self.prove(goal, dom_facts + self.path_facts(p, b, L), L) for p in paths):
                return True
            # same, with the values of reassigned locals resolved along each path
            if goal_index is not None:
                ok = True
                for p in paths:
                    self.ev.path = p
                    try:
                        Lp = Lin(self.ev)
                        gs = self.site_goals(b, Lp)
                        if goal_index >= len(gs):
                            ok = False
                            break
                        facts_p = self.path_facts(p, b, Lp)
                        self._merge(Lp, L)
                        if not self.prove(gs[goal_index][0], dom_facts + facts_p, Lp):
                            ok = False
                            break
                    finally:
                        self.ev.path = None
                if ok:
                    return True
        return False


def arg_pop_sites(f, cr, b, args=None, pop_suffixes=("Vec::<T, A>::pop", "ReadCacheLookup::pop")):
    """for the call ending block b: per argument (or per element, when an argument is an array literal) the block of the pop
    call whose result (through unwrap / Some.0 / .0 / references and casts) it is, or None.  Identifies WHICH pop feeds
    WHICH argument without looking at any name."""
    ev = Eval(f, cr)
    t = f.term(b)

    def unval(e):
        while e and e[0] in ("val", "cast"):
            e = e[2]
        return e

    def site(e):
        e = unval(e)
        if e[0] == "call" and e[1].endswith("::unwrap") and e[2]:
            return site(e[2][0])
        if e[0] == "call" and e[1].endswith("::expect") and e[2]:
            return site(e[2][0])
        if e[0] == "fld":
            inner = unval(e[1])
            if inner[0] == "dc":
                return site(inner[1])
            return site(inner)
        if e[0] == "call" and e[1].endswith(tuple(pop_suffixes)) and len(e) > 3:
            return e[3][0]
        return None
    out = []
    for i, a in enumerate(t["args"]):
        if args is not None and i not in args:
            continue
        e = unval(ev.operand(a, (b, "T")))
        if e[0] == "agg" and e[1] == "array":
            out.append([site(x) for x in e[2]])
        else:
            out.append(site(e))
    return out
