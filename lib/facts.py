"""Fact production: run the mirfacts driver over /repo's CURRENT working tree.

Facts are a pure function of (source tree, driver, toolchain). They are cached under
/verif/.cache/facts/<hash-of-sources>/<config>/ and rebuilt whenever the hash changes,
so every check decides the tree that is on disk when it runs.
"""
import fcntl
import hashlib
import json
import os
import shutil
import subprocess
import sys
import time

VERIF = os.path.dirname(os.path.dirname(os.path.abspath(__file__)))
CACHE = os.path.join(VERIF, ".cache")
DRIVER = os.path.join(VERIF, "mirfacts", "target", "release", "mirfacts")
# VERIF_TGT_SLOT=<k>: use a separate cargo target directory (and lock) per slot, so that the self-test tools can analyse
# several scratch worktrees at once; the fact files themselves are keyed by source hash and shared.
SLOT = ("-" + os.environ["VERIF_TGT_SLOT"]) if os.environ.get("VERIF_TGT_SLOT") else ""

CONFIGS = {
    "default": ["-p", "clvmr"],
    "nofast": ["-p", "clvmr", "--features", "no-fastpath"],
    "diag": ["-p", "clvmr", "--features", "counters,pre-eval"],
    "wheel": ["-p", "clvm_rs"],
}
# crate whose fact file a config must produce
CONFIG_CRATES = {
    "default": ["clvmr"],
    "nofast": ["clvmr"],
    "diag": ["clvmr"],
    "wheel": ["clvm_rs", "clvmr"],
}


def repo_root():
    return os.path.abspath(os.environ.get("VERIF_REPO", "/repo"))


def _source_files(repo):
    out = []
    for top in ("Cargo.toml", "Cargo.lock", "rust-toolchain.toml"):
        p = os.path.join(repo, top)
        if os.path.isfile(p):
            out.append(p)
    for d in ("src", "wheel", "docs", "tools", "clvm-fuzzing", "fuzz"):
        base = os.path.join(repo, d)
        for root, dirs, files in os.walk(base):
            dirs[:] = [x for x in dirs if x not in ("target", "__pycache__", ".git", "corpus", "artifacts")]
            for f in files:
                if f.endswith((".rs", ".toml", ".py", ".md", ".pyi", ".lock")):
                    out.append(os.path.join(root, f))
    return sorted(out)


def source_hash(repo=None):
    repo = repo or repo_root()
    h = hashlib.sha256()
    for p in _source_files(repo):
        h.update(os.path.relpath(p, repo).encode())
        h.update(b"\0")
        with open(p, "rb") as f:
            h.update(hashlib.sha256(f.read()).digest())
    for p in (DRIVER,):
        if os.path.isfile(p):
            with open(p, "rb") as f:
                h.update(hashlib.sha256(f.read()).digest())
    return h.hexdigest()[:24]


def _sysroot():
    return subprocess.check_output(["rustc", "+nightly", "--print", "sysroot"], text=True).strip()


def ensure_driver():
    if os.path.isfile(DRIVER):
        return
    env = dict(os.environ, CARGO_NET_OFFLINE="true")
    subprocess.check_call(
        ["cargo", "+nightly", "build", "--release", "--offline"],
        cwd=os.path.join(VERIF, "mirfacts"), env=env,
        stdout=subprocess.DEVNULL, stderr=subprocess.DEVNULL,
    )


def _build(config, repo, outdir):
    """Run cargo check with the driver for one config; facts land in outdir."""
    ensure_driver()
    tgt = os.path.join(CACHE, "tgt", config + SLOT)
    os.makedirs(tgt, exist_ok=True)
    # cargo's freshness cache would skip the wrapper for an unchanged member:
    # drop the members' fingerprints so the driver always runs.
    fp = os.path.join(tgt, "debug", ".fingerprint")
    if os.path.isdir(fp):
        for n in os.listdir(fp):
            if n.startswith(("clvmr-", "clvm_rs-", "clvm-rs-")):
                shutil.rmtree(os.path.join(fp, n), ignore_errors=True)
    tmp_out = outdir + ".building"
    shutil.rmtree(tmp_out, ignore_errors=True)
    os.makedirs(tmp_out)
    env = dict(os.environ)
    env.update(
        CARGO_NET_OFFLINE="true",
        LD_LIBRARY_PATH=os.path.join(_sysroot(), "lib") + ":" + env.get("LD_LIBRARY_PATH", ""),
        RUSTFLAGS="-Zmir-opt-level=0 -Awarnings",
        RUSTC_WORKSPACE_WRAPPER=DRIVER,
        CARGO_TARGET_DIR=tgt,
        MIRFACTS_CRATES="clvmr,clvm_rs",
        MIRFACTS_OUT=tmp_out,
    )
    env.pop("RUSTC_WRAPPER", None)
    cmd = ["cargo", "+nightly", "check", "--offline"] + CONFIGS[config]
    t0 = time.time()
    p = subprocess.run(cmd, cwd=repo, env=env, stdout=subprocess.PIPE, stderr=subprocess.STDOUT, text=True)
    if p.returncode != 0:
        sys.stderr.write(p.stdout[-4000:])
        raise RuntimeError(f"fact build failed for config {config} (cargo exit {p.returncode})")
    for crate in CONFIG_CRATES[config]:
        f = os.path.join(tmp_out, crate + ".json")
        if not os.path.isfile(f):
            sys.stderr.write(p.stdout[-4000:])
            raise RuntimeError(f"driver did not run for crate {crate} in config {config}")
    meta = {"config": config, "repo": repo, "cmd": " ".join(cmd), "wall_s": round(time.time() - t0, 2)}
    with open(os.path.join(tmp_out, "meta.json"), "w") as f:
        json.dump(meta, f)
    shutil.rmtree(outdir, ignore_errors=True)
    os.rename(tmp_out, outdir)


def fixtures_facts():
    """facts of /verif/fixtures (the verifier's positive/negative controls); cached by the hash of its sources + driver"""
    ensure_driver()
    fx = os.path.join(VERIF, "fixtures")
    h = hashlib.sha256()
    for rel in ("Cargo.toml", os.path.join("src", "lib.rs")):
        with open(os.path.join(fx, rel), "rb") as f:
            h.update(f.read())
    with open(DRIVER, "rb") as f:
        h.update(hashlib.sha256(f.read()).digest())
    outdir = os.path.join(CACHE, "facts", "fixtures-" + h.hexdigest()[:16])
    out = os.path.join(outdir, "verif_fixtures.json")
    lock = os.path.join(CACHE, "lock-fixtures")
    os.makedirs(CACHE, exist_ok=True)
    with open(lock, "w") as lf:
        fcntl.flock(lf, fcntl.LOCK_EX)
        try:
            if not os.path.isfile(out):
                tgt = os.path.join(CACHE, "tgt", "fixtures")
                shutil.rmtree(os.path.join(tgt, "debug", ".fingerprint"), ignore_errors=True)
                tmp = outdir + ".building"
                shutil.rmtree(tmp, ignore_errors=True)
                os.makedirs(tmp)
                env = dict(os.environ)
                env.update(CARGO_NET_OFFLINE="true", LD_LIBRARY_PATH=os.path.join(_sysroot(), "lib") + ":" + env.get("LD_LIBRARY_PATH", ""),
                           RUSTFLAGS="-Zmir-opt-level=0 -Awarnings", RUSTC_WORKSPACE_WRAPPER=DRIVER, CARGO_TARGET_DIR=tgt,
                           MIRFACTS_CRATES="verif_fixtures", MIRFACTS_OUT=tmp)
                env.pop("RUSTC_WRAPPER", None)
                p = subprocess.run(["cargo", "+nightly", "check", "--offline"], cwd=fx, env=env, stdout=subprocess.PIPE, stderr=subprocess.STDOUT, text=True)
                if p.returncode != 0 or not os.path.isfile(os.path.join(tmp, "verif_fixtures.json")):
                    sys.stderr.write(p.stdout[-3000:])
                    raise RuntimeError("fixture facts could not be built")
                shutil.rmtree(outdir, ignore_errors=True)
                os.rename(tmp, outdir)
        finally:
            fcntl.flock(lf, fcntl.LOCK_UN)
    return out


def ensure(configs, repo=None):
    """Return {config: dir} with fresh fact files for the current source tree."""
    repo = repo or repo_root()
    h = source_hash(repo)
    base = os.path.join(CACHE, "facts", h)
    os.makedirs(base, exist_ok=True)
    res = {}
    for config in configs:
        outdir = os.path.join(base, config)
        lock = os.path.join(CACHE, f"lock-{config}{SLOT}")
        with open(lock, "w") as lf:
            fcntl.flock(lf, fcntl.LOCK_EX)
            try:
                if not os.path.isfile(os.path.join(outdir, "meta.json")):
                    _build(config, repo, outdir)
            finally:
                fcntl.flock(lf, fcntl.LOCK_UN)
        res[config] = outdir
    _gc(base)
    return res


def _gc(keep):
    """Keep the fact cache small: at most 13 source states (a few MB each)."""
    root = os.path.join(CACHE, "facts")
    try:
        ents = [os.path.join(root, e) for e in os.listdir(root)]
        ents = [e for e in ents if os.path.isdir(e) and e != keep]
        ents.sort(key=lambda e: os.path.getmtime(e))
        for e in ents[:-12]:
            shutil.rmtree(e, ignore_errors=True)
    except OSError:
        pass


def ensure_parallel(configs, repo=None):
    """Build several configs concurrently (each in its own process)."""
    repo = repo or repo_root()
    h = source_hash(repo)
    base = os.path.join(CACHE, "facts", h)
    missing = [c for c in configs if not os.path.isfile(os.path.join(base, c, "meta.json"))]
    if len(missing) > 1:
        procs = []
        for c in missing:
            env = dict(os.environ, VERIF_REPO=repo)
            procs.append(subprocess.Popen([sys.executable, os.path.abspath(__file__), c], env=env))
        for p in procs:
            p.wait()
    return ensure(configs, repo)


if __name__ == "__main__":
    r = ensure(sys.argv[1:] or ["default"])
    print(json.dumps(r))
