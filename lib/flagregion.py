"""T6: regions of code controlled by a flag test, and what they may contain."""
from lib import mir
from lib.mir import strip, walk, show

PURE_CALLEE_SUFFIXES = (
    "ClvmFlags>::contains", "::len", "::is_empty", "::eq", "::ne", "::lt", "::le", "::gt", "::ge", "::cmp",
    "::atom_len", "::small_number", "::is_some", "::is_none", "::sign", "::deref", "::as_ref", "::borrow",
    "::partial_cmp", "Try>::branch", "::bits", "::clone", "::sexp", "::node", "::index", "::not",
    "::allow_unknown_ops", "::flags", "::last", "::first", "::into", "::from", "::to_string", "::format",
    "fmt::Arguments::<'a>::new", "::from_residual", "fmt::format", "::new_const", "::must_use", "::new_v1",
    "rt::Argument::<'_>::new_display", "::new_debug", "std::fmt::rt::Argument::<'_>::new_display",
)


def flag_of(e):
    """expression -> (flag name, polarity) if it is a test `flags.contains(F)`, a negation of one, or the
    allow_unknown_ops() wrapper (== !NO_UNKNOWN_OPS); else None. polarity True: expr is true iff F is SET."""
    e = strip(e)
    pol = True
    while e[0] == "un" and e[1] == "Not":
        pol = not pol
        e = strip(e[2])
    if e[0] == "call":
        if e[1].endswith("ClvmFlags>::contains") and len(e[2]) == 2:
            c = strip(e[2][1])
            if c[0] == "const" and c[2]:
                return c[2].split("::")[-1], pol
        if e[1].endswith("::allow_unknown_ops"):
            return "NO_UNKNOWN_OPS", not pol
    return None


def flag_tests(f):
    """all switch blocks of f that test a single flag: list of dict(block, flag, set_edge, clear_edge)"""
    out = []
    for b in sorted(f.reachable_blocks()):
        t = f.term(b)
        if t["k"] != "switch" or t.get("ty") != "bool":
            continue
        fl = flag_of(f.switch_cond(b))
        if not fl:
            continue
        be = f.bool_edges(b)
        if not be:
            continue
        flag, pol = fl
        set_edge, clear_edge = (be[0], be[1]) if pol else (be[1], be[0])
        out.append(dict(block=b, flag=flag, set_edge=set_edge, clear_edge=clear_edge, line=t["ln"]))
    return out


def local_reads(f):
    """{local: set(blocks that read it)}"""
    if hasattr(f, "_reads"):
        return f._reads
    reads = {}

    def rd_place(pl, b):
        reads.setdefault(pl["l"], set()).add(b)
        for p in pl["p"]:
            if isinstance(p, dict) and "ix" in p:
                reads.setdefault(p["ix"], set()).add(b)

    def rd_op(o, b):
        pl = mir.op_place(o)
        if pl:
            rd_place(pl, b)

    for b in f.reachable_blocks():
        for st in f.stmts(b):
            rv = st.get("rv")
            if not rv:
                continue
            for o in mir.rvalue_operands(rv):
                rd_op(o, b)
            for pl in mir.rvalue_places(rv):
                rd_place(pl, b)
            if st.get("d") and st["d"]["p"]:
                # writing through a projection reads the base
                rd_place({"l": st["d"]["l"], "p": []}, b)
        t = f.term(b)
        if t["k"] == "switch":
            rd_op(t["on"], b)
        elif t["k"] in ("call", "tailcall"):
            for a in t["args"]:
                rd_op(a, b)
            if t.get("fptr"):
                rd_op(t["fptr"], b)
        elif t["k"] == "assert":
            rd_op(t["cond"], b)
        elif t["k"] == "drop":
            pass
    # the return place is read by `return`
    for b in f.return_blocks():
        reads.setdefault(0, set()).add(b)
    f._reads = reads
    return reads


def is_pure_callee(c):
    c = c or ""
    return any(c.endswith(s) for s in PURE_CALLEE_SUFFIXES)


def region_effects(f, region, allow_calls=(), allow_error_blocks=True):
    """effects of the non-error blocks of a region:
    [(kind, description, block)]  kind in call | store | liveout"""
    reads = local_reads(f)
    out = []
    for b in sorted(region):
        if allow_error_blocks and (f.is_error_block(b) or f.diverges(b)):
            continue
        for st in f.stmts(b):
            d = st.get("d")
            if not d:
                continue
            if st.get("x"):
                continue
            if any(p == "*" for p in d["p"]):
                out.append(("store", "*" + mir.show(f.expr_place(d, deep=False)) + " = " + show(f.expr_rvalue(st["rv"], deep=False)), b))
                continue
            l = d["l"]
            if l == 0:
                out.append(("liveout", "return value = " + show(f.expr_rvalue(st["rv"], deep=False))[:80], b))
                continue
            outside = [x for x in reads.get(l, ()) if x not in region]
            if outside:
                out.append(("liveout", f"{f.local_name(l) or '_' + str(l)} = " + show(f.expr_rvalue(st["rv"], deep=False))[:80], b))
        t = f.term(b)
        if t["k"] == "call":
            c = t.get("callee") or t.get("raw") or "<indirect>"
            if not is_pure_callee(c) and c not in allow_calls:
                out.append(("call", c, b))
            elif t["dst"]["l"] != 0 and not t["dst"]["p"]:
                outside = [x for x in reads.get(t["dst"]["l"], ()) if x not in region]
                if outside and not is_pure_callee(c):
                    out.append(("liveout", f"{f.local_name(t['dst']['l'])} = {c}(..)", b))
    return out
