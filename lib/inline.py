"""Normal forms of values across `?`, map_err, references and closures (used by C26).

norm() rewrites a reconstructed expression so that it no longer depends on local names, borrow plumbing, the
error-propagation scaffolding or on whether a piece of code sits in a closure:
  named locals are expanded, & / * / value-preserving casts dropped,
  (Try::branch(X) as Continue).0  ->  X        (and Ok(X) unwrapped),
  Result::map_err(X, m)           ->  X        (m is recorded in .mappers),
  a closure call / Python::detach(py, closure) ->  the closure body's success value with captures substituted,
  parameters -> $n, locals of type Allocator -> ALLOC, locals with several definitions -> phi(...).
"""
from lib import mir


def short(callee):
    c = callee or "?"
    c = c.replace("clvmr::chia_dialect::_::<impl clvmr::ClvmFlags>", "ClvmFlags")
    return c


class Norm:
    def __init__(self, crate):
        self.cr = crate
        self.mappers = []

    # ------------------------------------------------------------------ helpers
    def _is_alloc(self, f, l):
        ty = f.local_ty(l).replace("&mut ", "").replace("&", "").strip()
        return ty.endswith("::Allocator") or ty == "Allocator"

    def local(self, f, l, env, depth):
        if 1 <= l <= f.nargs:
            if env is not None:
                return ("cparam", l)
            return ("param", l)
        if self._is_alloc(f, l):
            return ("ALLOC",)
        if depth > 30:
            return ("local", f.local_name(l) or f"_{l}")
        ds = f.defs(l)
        if not ds:
            return ("local", f.local_name(l) or f"_{l}")
        vals = []
        for d in ds:
            rv = f.def_rvalue(d)
            if "call" in rv and isinstance(rv["call"], dict) and "k" in rv["call"]:
                t = rv["call"]
                if t.get("callee") is None:
                    e = ("call", "?indirect", tuple(f.expr_op(a) for a in t["args"]))
                else:
                    e = ("call", t["callee"], tuple(f.expr_op(a) for a in t["args"]))
            else:
                e = f.expr_rvalue(rv)
            v = self.norm(f, e, env, depth + 1)
            if v not in vals:
                vals.append(v)
        if len(vals) == 1:
            return vals[0]
        return ("phi", tuple(sorted(vals, key=render)))

    def ok_value(self, g, env, depth=0):
        """normal form of what g returns when it does not fail"""
        vals = []
        for d in g.defs(0):
            rv = g.def_rvalue(d)
            if "call" in rv and isinstance(rv["call"], dict) and "k" in rv["call"]:
                t = rv["call"]
                c = t.get("callee") or ""
                if c.endswith("::from_residual"):
                    continue
                e = ("call", t.get("callee") or "?indirect", tuple(g.expr_op(a) for a in t["args"]))
            else:
                e = g.expr_rvalue(rv)
            v = self.norm(g, e, env, depth + 1)
            if v[0] == "agg" and v[1].endswith("Err"):
                continue
            if v not in vals:
                vals.append(v)
        if len(vals) == 1:
            return vals[0]
        return ("phi", tuple(sorted(vals, key=render)))

    def err_values(self, g, env=None):
        """normal forms of the payloads of every explicit `Err(x)` the function returns"""
        out = []
        for d in g.defs(0):
            rv = g.def_rvalue(d)
            if "agg" in rv and isinstance(rv["agg"][0], dict) and rv["agg"][0].get("variant") == "Err":
                out.append(self.norm(g, g.expr_op(rv["agg"][1][0]), env))
        return out

    def inline(self, path, ops, depth):
        g = self.cr.fns.get(path)
        if g is None:
            return ("call", path, tuple(ops))
        return self.ok_value(g, list(ops), depth)

    # ------------------------------------------------------------------ main
    def norm(self, f, e, env=None, depth=0):
        N = lambda x: self.norm(f, x, env, depth + 1)
        k = e[0]
        if depth > 60:
            return ("deep",)
        if k == "named":
            if not (1 <= e[2] <= f.nargs) and self._is_alloc(f, e[2]) and not f.local_ty(e[2]).startswith("&"):
                return ("ALLOC",)
            return N(e[3])
        if k == "ref":
            return N(e[2])
        if k == "deref":
            return N(e[1])
        if k == "cast":
            return N(e[2])
        if k == "var":
            return self.local(f, e[2], env, depth)
        if k == "field":
            base = e[1]
            # closure capture
            if env is not None:
                b = base
                while b[0] in ("deref", "ref"):
                    b = b[1] if b[0] == "deref" else b[2]
                if b[0] == "var" and b[2] == 1 and e[2].isdigit() and int(e[2]) < len(env):
                    return env[int(e[2])]
            if base[0] == "downcast" and base[2] == "Continue" and e[2] == "0":
                inner = base[1]
                while inner[0] == "named":
                    inner = inner[3]
                if inner[0] == "call" and inner[1].endswith("Try>::branch"):
                    v = N(inner[2][0])
                    if v[0] == "agg" and v[1].endswith("Ok") and len(v[2]) == 1:
                        return v[2][0]
                    return v
            if base[0] == "downcast" and base[2] in ("Some", "Ok") and e[2] == "0":
                v = N(base[1])
                if v[0] == "agg" and v[1].endswith(base[2]) and len(v[2]) == 1:
                    return v[2][0]
                if v[0] == "call" and base[2] == "Ok":
                    return v    # the success value of a call, as with `?`
                return ("field", ("downcast", v, base[2]), "0")
            return ("field", N(base), e[2])
        if k == "downcast":
            return ("downcast", N(e[1]), e[2])
        if k == "call":
            callee, args = e[1], e[2]
            if callee.endswith("Result::<T, E>::map_err") and len(args) == 2:
                m = args[1]
                while m[0] in ("named",):
                    m = m[3]
                self.mappers.append((f.path, m[1] if m[0] in ("fnref",) else (m[1] if m[0] == "agg" else render(N(m)))))
                return N(args[0])
            if callee.endswith("Python::<'py>::detach") and len(args) == 2:
                c = args[1]
                while c[0] in ("named", "ref"):
                    c = c[3] if c[0] == "named" else c[2]
                if c[0] == "agg" and c[1].startswith("closure:"):
                    return self.inline(c[1][len("closure:"):], [N(x) for x in c[2]], depth + 1)
            if "{closure#" in callee and callee in self.cr.fns and args:
                c = args[0]
                while c[0] in ("named", "ref"):
                    c = c[3] if c[0] == "named" else c[2]
                if c[0] == "agg" and c[1].startswith("closure:"):
                    return self.inline(c[1][len("closure:"):], [N(x) for x in c[2]], depth + 1)
            return ("call", short(callee), tuple(N(a) for a in args))
        if k == "agg":
            return ("agg", e[1], tuple(N(x) for x in e[2]))
        if k in ("bin", "chk"):
            return (k, e[1], N(e[2]), N(e[3]))
        if k == "un":
            return ("un", e[1], N(e[2]))
        return e


def render(e):
    k = e[0]
    if k == "param":
        return f"${e[1]}"
    if k == "cparam":
        return f"$c{e[1]}"
    if k == "ALLOC":
        return "ALLOC"
    if k == "local":
        return e[1]
    if k == "phi":
        return "phi(" + " | ".join(render(x) for x in e[1]) + ")"
    if k == "call":
        return e[1] + "(" + ", ".join(render(a) for a in e[2]) + ")"
    if k == "agg":
        name = e[1]
        if name.startswith("closure:"):
            name = "{closure}"
        return name.split("::")[-1] + "(" + ", ".join(render(a) for a in e[2]) + ")"
    if k == "field":
        return render(e[1]) + "." + e[2]
    if k == "downcast":
        return "(" + render(e[1]) + " as " + e[2] + ")"
    if k == "deep":
        return "..."
    return mir.show(e)
