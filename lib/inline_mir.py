"""A second, semantically equivalent VIEW of the analysed program: every call of a small private function is replaced by the
callee's body (MIR inlining on the fact files' JSON, done before lib.mir builds its CFGs).

Why: most rules are intra-procedural.  Extracting a few lines of a function into a private helper does not change what the
program does, but it moves the construct a rule looks for out of the function the rule is anchored in (false-alarm probe 5:
6 of 6 such refactorings raised an alarm).  Inlining undoes exactly that edit.  The driver (`check`) runs a rule on the plain
view first and only if an obligation fails runs it again on this view; an obligation that holds in EITHER view is discharged
- both views are the same program, so a structural clause shown on one of them holds for the program.

What is inlined: calls whose resolved callee is a private (`vis == priv`) free function or method of the same crate, not a
closure, not recursive, at most MAX_BLOCKS basic blocks, to depth MAX_DEPTH.  Public functions are never inlined: they are the
anchors of the rules (check_cost, new_atom, ...) and part of the API.

How: the callee's locals are appended to the caller's; its return place becomes the call's destination local (so `_0 = Err(e)`
in a tail-called helper is `_0 = Err(e)` in the caller); parameters are assigned from the call's arguments; `return` becomes a
jump to the call's continuation.  When the continuation is the `?` pattern (branch() + switch) and the helper's return site
assigns a literal Ok(..)/Err(..) (or a from_residual result), the branch call is duplicated for that site and the switch is
replaced by the arm that must be taken (jump threading), so that error/success classification of blocks stays as precise as
in hand-written code.
"""
import copy

MAX_BLOCKS = 80
MAX_DEPTH = 3


def _renumber(x, lmap, bmap, promote=None):
    """deep copy of a JSON fragment with locals renumbered through lmap (places {"l":..,"p":[..]} and {"ix": local}).
    promote: {callee param: caller place}: `*param` is that place (the argument was `&mut place`), so that writes through a
    by-reference parameter of an inlined helper are seen as writes to the caller's own local"""
    if isinstance(x, dict):
        if "l" in x and "p" in x and isinstance(x["l"], int):
            if promote and x["l"] in promote and x["p"] and x["p"][0] == "*":
                base = promote[x["l"]]
                return {"l": base["l"], "p": copy.deepcopy(base["p"]) + [_renumber(p, lmap, bmap, promote) for p in x["p"][1:]]}
            return {"l": lmap[x["l"]], "p": [_renumber(p, lmap, bmap, promote) for p in x["p"]]}
        out = {}
        for k, v in x.items():
            if k == "ix" and isinstance(v, int):
                out[k] = lmap[v]
            else:
                out[k] = _renumber(v, lmap, bmap, promote)
        return out
    if isinstance(x, list):
        return [_renumber(v, lmap, bmap, promote) for v in x]
    return x


def _retarget(t, bmap):
    t = dict(t)
    for k in ("target", "unwind", "otherwise"):
        if isinstance(t.get(k), int):
            t[k] = bmap[t[k]]
    if "targets" in t:
        t["targets"] = [[v, bmap[b]] for v, b in t["targets"]]
    return t


def _known_variant(blk, ret_local):
    """the Result/ControlFlow variant the block leaves in ret_local, if it is a literal: 'Ok' | 'Err' | None"""
    v = None
    for st in blk["stmts"]:
        d = st.get("d")
        if d and d["l"] == ret_local:
            v = None
            if not d["p"]:
                rv = st.get("rv", {})
                if "agg" in rv and isinstance(rv["agg"][0], dict) and rv["agg"][0].get("adt", "").endswith("result::Result"):
                    v = rv["agg"][0]["variant"]
    t = blk["term"]
    if t["k"] == "call" and t.get("dst", {}).get("l") == ret_local:
        c = t.get("callee") or t.get("raw") or ""
        v = "Err" if c.endswith("from_residual") and not t["dst"]["p"] else None
    return v


def _question_mark(blocks, call_target, dst_local):
    """if the continuation of a call is `?` on its result: (branch block, switch block, continue arm, break arm)"""
    if call_target is None:
        return None
    b1 = blocks[call_target]
    t1 = b1["term"]
    if t1["k"] != "call" or not (t1.get("callee") or "").endswith("Try>::branch") or t1.get("target") is None:
        return None
    a = t1["args"][0] if t1.get("args") else None
    pl = (a.get("mv") or a.get("cp")) if isinstance(a, dict) else None
    if not pl or pl["l"] != dst_local or pl["p"]:
        return None
    b2 = blocks[t1["target"]]
    t2 = b2["term"]
    if t2["k"] != "switch":
        return None
    arms = {v: b for v, b in t2["targets"]}
    if 0 in arms and (1 in arms or t2.get("otherwise") is not None):
        return (call_target, t1["target"], arms[0], arms.get(1, t2.get("otherwise")))
    return None


_ANCHORS = None


def anchor_names():
    """identifiers that occur inside string literals of the rule sources: functions the rules name are their anchors and, like
    public functions, are never inlined (a helper introduced by a refactoring cannot be among them)"""
    global _ANCHORS
    if _ANCHORS is None:
        import glob
        import os
        import re
        root = os.path.dirname(os.path.dirname(os.path.abspath(__file__)))
        names = set()
        for p in glob.glob(os.path.join(root, "rules", "*.py")):
            with open(p) as f:
                src = f.read()
            for lit in re.findall(r'"([^"\n]{3,200})"|\'([^\'\n]{3,200})\'', src):
                lit = lit[0] or lit[1]
                if " " in lit:
                    continue        # prose (obligation texts), not a path or an identifier
                for tok in re.findall(r"[A-Za-z_][A-Za-z0-9_]{2,}", lit):
                    names.add(tok)
        _ANCHORS = names
    return _ANCHORS


_BASELINE = None


def baseline_fns():
    """private functions that existed when the rules were frozen (oracle/private_fns.json): they are part of the shape the rules
    were written against and stay as they are; only helpers introduced since are inlined"""
    global _BASELINE
    if _BASELINE is None:
        import json
        import os
        root = os.path.dirname(os.path.dirname(os.path.abspath(__file__)))
        try:
            with open(os.path.join(root, "oracle", "private_fns.json")) as f:
                _BASELINE = set(json.load(f)["fns"])
        except (OSError, ValueError, KeyError):
            _BASELINE = set()
    return _BASELINE


def eligible(fd, fns):
    if fd.get("vis") != "priv" or fd.get("kind") == "Closure" or len(fd["blocks"]) > MAX_BLOCKS:
        return False
    if fd["path"].split("::")[-1] in anchor_names() or fd["path"] in baseline_fns():
        return False
    p = fd["path"]
    if "::tests::" in p or p.startswith("tests::") or "::test_" in p.split("::")[-1] or p.split("::")[-1].startswith("test_"):
        return False
    return True


def _reaches(fns, src, dst, seen=None):
    seen = seen or set()
    if src in seen:
        return False
    seen.add(src)
    fd = fns.get(src)
    if fd is None:
        return False
    for blk in fd["blocks"]:
        t = blk["term"]
        if t["k"] in ("call", "tailcall"):
            c = t.get("callee")
            if c == dst or (c in fns and _reaches(fns, c, dst, seen)):
                return True
    return False


def inline_fn(fd, fns, recursive):
    """return a copy of the function dict with eligible calls inlined (or fd itself when there is nothing to inline)"""
    todo = [i for i, blk in enumerate(fd["blocks"]) if blk["term"]["k"] == "call" and blk["term"].get("callee") in fns
            and blk["term"]["callee"] != fd["path"] and eligible(fns[blk["term"]["callee"]], fns) and blk["term"]["callee"] not in recursive
            and not blk["cleanup"]]
    if not todo:
        return fd
    out = copy.deepcopy(fd)
    blocks, locs = out["blocks"], out["locals"]
    depth = {i: 0 for i in range(len(blocks))}
    stack = {i: (fd["path"],) for i in range(len(blocks))}
    i = 0
    n_inlined = 0
    while i < len(blocks):
        blk = blocks[i]
        t = blk["term"]
        c = t.get("callee") if t["k"] == "call" else None
        if not c or c not in fns or blk["cleanup"] or depth[i] >= MAX_DEPTH or c in stack[i] or c in recursive or not eligible(fns[c], fns) \
                or len(t.get("args", [])) != fns[c]["nargs"]:
            i += 1
            continue
        g = fns[c]
        dst = t["dst"]
        lmap = {}
        base_l = len(locs)
        if not dst["p"]:
            lmap[0] = dst["l"]
        else:
            lmap[0] = base_l
            locs.append(dict(g["locals"][0]))
            base_l += 1
        for j in range(1, len(g["locals"])):
            lmap[j] = len(locs)
            locs.append(dict(g["locals"][j]))
        base_b = len(blocks)
        cont = t.get("target")
        # by-reference parameters: `helper(&mut x, ..)` - inside the inlined body `*param` IS x
        promote = {}

        def borrowed_place(l_, depth_=0):
            """local l_ holds `&mut <place>` (through reborrows `&mut *t`): the place, else None"""
            defs_ = [st for bb in blocks for st in bb["stmts"] if st.get("d", {}).get("l") == l_]
            defs_t = [bb for bb in blocks if bb["term"]["k"] == "call" and bb["term"].get("dst", {}).get("l") == l_]
            if len(defs_) != 1 or defs_t or defs_[0]["d"]["p"] or depth_ > 3:
                return None
            rv_ = defs_[0].get("rv", {})
            if "use" in rv_:
                pl2 = rv_["use"].get("mv") or rv_["use"].get("cp")
                return borrowed_place(pl2["l"], depth_ + 1) if pl2 and not pl2["p"] else None
            if "ref" not in rv_ or rv_["ref"][0] != "mut":
                return None
            pl2 = rv_["ref"][1]
            if "*" not in pl2["p"]:
                return pl2
            if pl2["p"] and pl2["p"][0] == "*" and "*" not in pl2["p"][1:]:
                inner = borrowed_place(pl2["l"], depth_ + 1)
                if inner is not None:
                    return {"l": inner["l"], "p": list(inner["p"]) + list(pl2["p"][1:])}
            return None
        for k_, a_ in enumerate(t["args"]):
            pl_ = a_.get("mv") if isinstance(a_, dict) else None
            if not pl_ or pl_["p"]:
                continue
            base_ = borrowed_place(pl_["l"])
            if base_ is None:
                continue
            pj = k_ + 1
            reassigned = any(st.get("d", {}).get("l") == pj and not st["d"]["p"] for gb in g["blocks"] for st in gb["stmts"]) or \
                any(gb["term"]["k"] == "call" and gb["term"].get("dst", {}).get("l") == pj for gb in g["blocks"])
            if not reassigned:
                promote[pj] = base_
        # by-value parameters that the helper never writes (nor borrows mutably) are the caller's operand itself: no copy, so
        # that e.g. the budget handed on to check_cost inside the helper is still recognisably the caller's budget parameter
        def written_in_helper(pj):
            for gb in g["blocks"]:
                for st in gb["stmts"]:
                    if st.get("d", {}).get("l") == pj:
                        return True
                    rv_ = st.get("rv", {})
                    for kk_ in ("ref", "rawptr"):
                        if kk_ in rv_ and rv_[kk_][0] not in ("shr", "const", "fake") and rv_[kk_][1]["l"] == pj and "*" not in rv_[kk_][1]["p"]:
                            return True
                gt_ = gb["term"]
                if gt_["k"] == "call" and gt_.get("dst", {}).get("l") == pj:
                    return True
                if gt_["k"] == "drop" and gt_.get("place", {}).get("l") == pj:
                    return True
            return False

        def derefs_only(pj):
            """every use of parameter pj in the helper is through `*pj`"""
            def walk_(x):
                if isinstance(x, dict):
                    if "l" in x and "p" in x and isinstance(x["l"], int):
                        if x["l"] == pj and not (x["p"] and x["p"][0] == "*"):
                            return False
                        return all(walk_(p_) for p_ in x["p"])
                    if x.get("ix") == pj:
                        return False
                    return all(walk_(v) for v in x.values())
                if isinstance(x, list):
                    return all(walk_(v) for v in x)
                return True
            return all(walk_(gb["stmts"]) and walk_(gb["term"]) for gb in g["blocks"])
        direct = {}
        for k_, a_ in enumerate(t["args"]):
            pj = k_ + 1
            pl_ = (a_.get("mv") or a_.get("cp")) if isinstance(a_, dict) else None
            if pj in promote:
                if derefs_only(pj):
                    direct[pj] = None       # no assignment needed at all
                continue
            if pl_ and not pl_["p"] and not written_in_helper(pj):
                direct[pj] = pl_["l"]
                lmap[pj] = pl_["l"]
        qm = _question_mark(blocks, cont, dst["l"]) if not dst["p"] else None
        # When the caller applies `?` to the result, the callee's CFG is split by "which literal variant does the return place
        # hold" (unknown / Ok / Err), so that each `return` knows which arm of the caller's `?` it must take (MIR funnels all
        # returns through one shared block, which would otherwise merge that knowledge away).
        def step(gb, s_in):
            s = s_in
            for st in gb["stmts"]:
                d = st.get("d")
                if d and d["l"] == 0:
                    s = None
                    rv = st.get("rv", {})
                    if not d["p"] and "agg" in rv and isinstance(rv["agg"][0], dict) and rv["agg"][0].get("adt", "").endswith("result::Result"):
                        s = rv["agg"][0]["variant"]
            gt = gb["term"]
            if gt["k"] == "call" and gt.get("dst", {}).get("l") == 0:
                cc = gt.get("callee") or gt.get("raw") or ""
                s = "Err" if cc.endswith("from_residual") and not gt["dst"]["p"] else None
            return s

        def gsucc(gt):
            out = []
            for k in ("target", "unwind", "otherwise"):
                if isinstance(gt.get(k), int):
                    out.append(gt[k])
            out += [bb for _, bb in gt.get("targets", [])]
            return out
        nodes = {}
        order = []
        work = [(0, None)]
        while work:
            nd = work.pop()
            if nd in nodes:
                continue
            nodes[nd] = len(order)
            order.append(nd)
            j, s_in = nd
            s_out = step(g["blocks"][j], s_in) if qm is not None else None
            for sj in gsucc(g["blocks"][j]["term"]):
                work.append((sj, s_out))
        if len(order) > 4 * MAX_BLOCKS:
            i += 1
            continue
        newblocks = []
        extra = []      # threaded copies of the caller's branch() block
        n_nodes = len(order)
        join_ix = base_b + n_nodes if (dst["p"] and cont is not None) else None
        for (j, s_in) in order:
            gb = g["blocks"][j]
            s_out = step(gb, s_in) if qm is not None else None
            bmap = {sj: base_b + nodes[(sj, s_out)] for sj in gsucc(gb["term"])}
            nb = {"cleanup": gb["cleanup"], "stmts": [_renumber(st, lmap, bmap, promote) for st in gb["stmts"]]}
            gt = gb["term"]
            if gt["k"] == "return":
                tgt = join_ix if join_ix is not None else cont
                if qm is not None and s_out in ("Ok", "Err"):
                    b1 = blocks[qm[0]]
                    extra.append({"cleanup": False, "stmts": copy.deepcopy(b1["stmts"]),
                                  "term": dict(copy.deepcopy(b1["term"]), target=(qm[2] if s_out == "Ok" else qm[3]))})
                    tgt = ("extra", len(extra) - 1)
                nb["term"] = {"k": "goto", "target": tgt, "ln": gt.get("ln", t.get("ln")), "x": False} if tgt is not None else \
                    {"k": "unreachable", "ln": gt.get("ln", t.get("ln")), "x": False}
            else:
                nb["term"] = _retarget(_renumber(gt, lmap, bmap, promote), bmap)
            newblocks.append(nb)
        if join_ix is not None:
            newblocks.append({"cleanup": False, "stmts": [{"d": copy.deepcopy(dst), "rv": {"use": {"mv": {"l": lmap[0], "p": []}}}, "ln": t.get("ln"), "x": False}],
                              "term": {"k": "goto", "target": cont, "ln": t.get("ln"), "x": False}})
        extra_base = base_b + len(newblocks)
        for nb in newblocks:
            tt = nb["term"]
            if tt["k"] == "goto" and isinstance(tt["target"], tuple):
                tt["target"] = extra_base + tt["target"][1]
        newblocks.extend(extra)
        # arguments -> parameters
        for k, a in enumerate(t["args"]):
            if (k + 1) in direct:
                if direct[k + 1] is None:
                    # the argument was `&mut place` and the helper only ever dereferences it: the borrow itself is dead in this view
                    pl_ = a.get("mv")
                    chain = [pl_["l"]] if pl_ else []
                    while chain:
                        l_ = chain.pop()
                        for bb in blocks:
                            for st in list(bb["stmts"]):
                                if st.get("d", {}).get("l") == l_ and not st["d"]["p"] and "ref" in st.get("rv", {}):
                                    nxt_ = st["rv"]["ref"][1]
                                    bb["stmts"].remove(st)
                                    if nxt_["p"] and nxt_["p"][0] == "*":
                                        chain.append(nxt_["l"])
                continue
            blk["stmts"].append({"d": {"l": lmap[k + 1], "p": []}, "rv": {"use": copy.deepcopy(a)}, "ln": t.get("ln"), "x": False})
        blk["term"] = {"k": "goto", "target": base_b, "ln": t.get("ln"), "x": False, "inlined": c}
        for k in range(len(newblocks)):
            depth[base_b + k] = depth[i] + 1
            stack[base_b + k] = stack[i] + (c,)
        blocks.extend(newblocks)
        n_inlined += 1
        i += 1
    # `return` became a jump: skip over the empty jump-only blocks this leaves behind, so that a call whose result the helper
    # returns directly (`check_cost(..)` as the helper's tail expression) is again immediately followed by the caller's `?`
    def final(b_, seen_=()):
        blk_ = blocks[b_]
        if not blk_["stmts"] and blk_["term"]["k"] == "goto" and isinstance(blk_["term"].get("target"), int) and b_ not in seen_ \
                and b_ >= len(fd["blocks"]):
            return final(blk_["term"]["target"], seen_ + (b_,))
        return b_
    for blk_ in blocks:
        t_ = blk_["term"]
        for k_ in ("target", "otherwise"):
            if isinstance(t_.get(k_), int):
                t_[k_] = final(t_[k_])
        if "targets" in t_:
            t_["targets"] = [[v_, final(b_)] for v_, b_ in t_["targets"]]
    out["inlined_calls"] = n_inlined
    out["inlined_helpers"] = sorted({c for st in stack.values() for c in st[1:]})
    return out


def inline_crate(d):
    """d: the crate's fact dict (as loaded from JSON); returns a shallow copy whose "fns" list has the inlined bodies.
    A helper all of whose call sites were inlined is dead code in this view (its code is analysed inside every caller):
    out["inline_info"] records {"dissolved": [...], "helpers_of": {caller: [helpers]}}."""
    fns = {}
    for fd in d["fns"]:
        fns.setdefault(fd["path"], fd)
    recursive = {p for p, fd in fns.items() if eligible(fd, fns) and _reaches(fns, p, p)}
    out = dict(d)
    new = [inline_fn(fd, fns, recursive) if fns.get(fd["path"]) is fd else fd for fd in d["fns"]]
    helpers_of = {fd["path"]: fd["inlined_helpers"] for fd in new if fd.get("inlined_helpers")}
    inlined = {h for hs in helpers_of.values() for h in hs}
    still_called = set()
    first = {}
    for fd in new:
        first.setdefault(fd["path"], fd)
    for fd in new:
        if first[fd["path"]] is not fd:
            continue        # a second item under the same path (cfg alternative): lib.mir keeps the first only
        for blk in fd["blocks"]:
            t = blk["term"]
            if t["k"] in ("call", "tailcall") and t.get("callee") in inlined:
                still_called.add(t["callee"])
            # a function used as a value (fn pointer / passed to map) keeps existing
            for st in blk["stmts"]:
                _fnrefs(st, inlined, still_called)
            _fnrefs(t, inlined, still_called)
    dissolved = sorted(inlined - still_called)
    # dissolved helpers stay in the function table (rules anchored in them must still resolve); they are dead code in this view,
    # which the view merge in lib/report.py takes into account
    out["fns"] = new
    out["inline_info"] = {"dissolved": dissolved, "helpers_of": helpers_of}
    return out


def _fnrefs(x, names, acc):
    if isinstance(x, dict):
        c = x.get("c")
        if isinstance(c, dict):
            if c.get("fn") in names:       # a function item used as a value (promoted constants are named after their function: not a use)
                acc.add(c["fn"])
        for v in x.values():
            _fnrefs(v, names, acc)
    elif isinstance(x, list):
        for v in x:
            _fnrefs(v, names, acc)
