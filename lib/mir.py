"""Rule-layer core over mirfacts JSON: CFG, dominators, def-use, expression
reconstruction, linear normaliser, error-block classification, call graph."""
import json
import os
import re
from collections import defaultdict


class AnchorMissing(Exception):
    """A rule could not resolve one of its anchors: the property is undecided (fail closed)."""


# ----------------------------------------------------------------------------- crate
class Crate:
    def __init__(self, path, view=None):
        with open(path) as f:
            self.d = json.load(f)
        self.view = view
        if view == "inlined":
            # the second view of the same program: private helpers inlined into their callers (lib/inline_mir.py)
            from lib import inline_mir
            self.d = inline_mir.inline_crate(self.d)
        self.inline_info = self.d.get("inline_info", {"dissolved": [], "helpers_of": {}})
        self.name = self.d["crate"]
        self.fns = {}
        for fd in self.d["fns"]:
            fn = Fn(fd, self)
            # duplicate paths (cfg-alternative items) keep the first; closures are unique
            self.fns.setdefault(fn.path, fn)
        self.consts = defaultdict(list)
        for c in self.d["consts"]:
            self.consts[c["path"]].append(c)
        self.adts = {a["path"]: a for a in self.d["adts"]}
        self.impls = self.d["impls"]
        self._callers = None
        self._cg = None

    # -- anchors
    def fn(self, path):
        f = self.fns.get(path)
        if f is None:
            raise AnchorMissing(f"function not found: {path}")
        return f

    def has_fn(self, path):
        return path in self.fns

    def find_fns(self, pred):
        return [f for f in self.fns.values() if pred(f)]

    def const(self, path):
        c = self.consts.get(path)
        if not c:
            raise AnchorMissing(f"constant not found: {path}")
        return c[0]

    def const_val(self, path):
        c = self.const(path)
        if "val" not in c:
            raise AnchorMissing(f"constant has no scalar value: {path}")
        return c["val"]

    def adt(self, path):
        a = self.adts.get(path)
        if a is None:
            raise AnchorMissing(f"type not found: {path}")
        return a

    def struct_fields(self, path):
        return [f["name"] for f in self.adt(path)["variants"][0]["fields"]]

    def impl_method(self, trait, for_ty, method):
        for i in self.impls:
            if i["trait"] == trait and i["for"] == for_ty:
                for m in i["methods"]:
                    if m["name"] == method:
                        return self.fn(m["path"])
        raise AnchorMissing(f"impl {trait} for {for_ty}::{method} not found")

    # -- call graph (closures are edges from their parent)
    def callgraph(self):
        if self._cg is None:
            cg = defaultdict(set)
            for f in self.fns.values():
                for _, t in f.calls():
                    if t.get("callee"):
                        cg[f.path].add(t["callee"])
                    if t.get("raw") and t["raw"] != t.get("callee"):
                        cg[f.path].add(t["raw"])
                    if t.get("trait") and not t.get("resolved"):
                        # unresolved trait call (generic D: Dialect, W: Write): may reach every local impl
                        meth = (t.get("raw") or "").split("::")[-1]
                        for im in self.impls:
                            if im["trait"] == t["trait"]:
                                for m in im["methods"]:
                                    if m["name"] == meth:
                                        cg[f.path].add(m["path"])
                    for a in t.get("args", []):
                        fnc = const_fn(a)
                        if fnc:
                            cg[f.path].add(fnc)
                for b in f.blocks:
                    for st in b["stmts"]:
                        rv = st.get("rv")
                        if not rv:
                            continue
                        if "agg" in rv and isinstance(rv["agg"][0], dict) and "closure" in rv["agg"][0]:
                            cg[f.path].add(rv["agg"][0]["closure"])
                        for o in rvalue_operands(rv):
                            fnc = const_fn(o)
                            if fnc:
                                cg[f.path].add(fnc)
                if f.d.get("parent"):
                    pass
            self._cg = cg
        return self._cg

    def reachable(self, roots, local_only=True):
        cg = self.callgraph()
        seen = set()
        work = list(roots)
        while work:
            x = work.pop()
            if x in seen:
                continue
            seen.add(x)
            for y in cg.get(x, ()):
                if y not in seen and (not local_only or y in self.fns):
                    work.append(y)
        return seen

    def callers_of(self, path):
        if self._callers is None:
            c = defaultdict(list)
            for f in self.fns.values():
                for b, t in f.calls():
                    if t.get("callee"):
                        c[t["callee"]].append((f, b))
                    if t.get("raw") and t.get("raw") != t.get("callee"):
                        c[t["raw"]].append((f, b))
            self._callers = c
        return self._callers.get(path, [])


def const_fn(op):
    if isinstance(op, dict) and "c" in op:
        return op["c"].get("fn")
    return None


def rvalue_operands(rv):
    if "use" in rv:
        return [rv["use"]]
    if "bin" in rv:
        return rv["bin"][1:]
    if "chk" in rv:
        return rv["chk"][1:]
    if "un" in rv:
        return [rv["un"][1]]
    if "cast" in rv:
        return [rv["cast"][1]]
    if "agg" in rv:
        return rv["agg"][1]
    if "repeat" in rv:
        return [rv["repeat"][0]]
    return []


def rvalue_places(rv):
    """places read by an rvalue (besides operands)"""
    out = []
    for k in ("ref", "rawptr"):
        if k in rv:
            out.append(rv[k][1])
    for k in ("discr", "len"):
        if k in rv:
            out.append(rv[k])
    return out


def op_place(op):
    if "cp" in op:
        return op["cp"]
    if "mv" in op:
        return op["mv"]
    return None


def place_fields(pl):
    return [p["f"] for p in pl["p"] if isinstance(p, dict) and "f" in p]


# ----------------------------------------------------------------------------- function
class Fn:
    def __init__(self, d, crate):
        self.d = d
        self.crate = crate
        self.path = d["path"]
        self.file = d["file"]
        self.lo = d["lo"]
        self.hi = d["hi"]
        self.blocks = d["blocks"]
        self.locals = d["locals"]
        self.nargs = d["nargs"]
        # VERIF_RENAME_SUFFIX=<s>: self-test switch - pretend every local and parameter of the analysed program had been renamed
        # (debug name + s).  A rule that passes on the real tree and fails under this switch depends on a name (tools/name_probe.sh).
        sfx = os.environ.get("VERIF_RENAME_SUFFIX")
        if sfx and not d.get("_renamed"):
            d["_renamed"] = True
            for l in self.locals:
                if l.get("name") and l["name"] != "self":
                    l["name"] = l["name"] + sfx
        self.n = len(self.blocks)
        self._succ = None
        self._pred = None
        self._idom = None
        self._ipdom = None
        self._defs = None
        self._status = None

    def __repr__(self):
        return f"<Fn {self.path}>"

    # -- basics
    def term(self, b):
        return self.blocks[b]["term"]

    def stmts(self, b):
        return self.blocks[b]["stmts"]

    def is_cleanup(self, b):
        return self.blocks[b]["cleanup"]

    def local_name(self, l):
        return self.locals[l].get("name")

    def local_ty(self, l):
        return self.locals[l]["ty"]

    def local_by_name(self, name):
        return [i for i, l in enumerate(self.locals) if l.get("name") == name]

    # -- name-independent rendering (so that renaming a local, or introducing one for a sub-expression, changes nothing)
    def unparam(self, x):
        """replace the debug names of this function's parameters (except `self`) by $n in a rendered string, in every string of
        a list/tuple/set, or in the keys of a linear form: what a rule compares must not depend on what a parameter is called"""
        import re as _re
        if isinstance(x, str):
            for i in range(1, self.nargs + 1):
                nm = self.locals[i].get("name")
                if nm and nm != "self":
                    x = _re.sub(r"(?<![\w$.:])" + _re.escape(nm) + r"\b(?!::|\()", f"${i}", x)
            return x
        if isinstance(x, dict):
            return {self.unparam(k): (self.unparam(v) if isinstance(v, (str, list, tuple, set, dict)) else v) for k, v in x.items()}
        if isinstance(x, (list, tuple, set)):
            return type(x)(self.unparam(v) if isinstance(v, (str, list, tuple, set, dict)) else v for v in x)
        return x

    def unname(self, x, keep=None):
        """keep: {local index: placeholder} overrides the default placeholder of those locals.
        Like unparam, and every other named local is replaced by %<its type> (all locals sharing a debug name must share the
        type, otherwise %?).  Coarser than denamed() - two locals of one type are not told apart - but applicable to any
        rendered string; use it where the compared text mentions a local only to say WHAT KIND of thing is tested."""
        import re as _re
        if isinstance(x, str):
            names = {}
            kept = {}
            for i in range(1, len(self.locals)):
                nm = self.locals[i].get("name")
                if nm and nm != "self":
                    if keep and i in keep:
                        kept.setdefault(nm, set()).add(keep[i])
                    elif i > self.nargs:
                        names.setdefault(nm, set()).add(self.locals[i]["ty"])
            for nm in sorted(kept, key=len, reverse=True):
                rep = next(iter(kept[nm])) if len(kept[nm]) == 1 else "%?"
                x = _re.sub(r"(?<![\w$.%:])" + _re.escape(nm) + r"\b(?!::|\()", lambda m_: rep, x)
                names.pop(nm, None)
            x = self.unparam(x)
            for nm in sorted(names, key=len, reverse=True):
                tys = names[nm]
                rep = "%" + (next(iter(tys)) if len(tys) == 1 else "?")
                x = _re.sub(r"(?<![\w$.%:])" + _re.escape(nm) + r"\b(?!::|\()", lambda m_: rep, x)
            return x
        if isinstance(x, dict):
            return {self.unname(k, keep): (self.unname(v, keep) if isinstance(v, (str, list, tuple, set, dict)) else v) for k, v in x.items()}
        if isinstance(x, (list, tuple, set)):
            return type(x)(self.unname(v, keep) if isinstance(v, (str, list, tuple, set, dict)) else v for v in x)
        return x

    def role_of(self, l):
        """stable placeholder of a local: $n for parameter n; otherwise %<type>#k, k = rank among the locals of that type
        that are assigned more than once (declaration order)"""
        if 1 <= l <= self.nargs:
            return f"${l}"
        if not hasattr(self, "_roles"):
            self._roles = {}
            seen = {}
            for i in range(self.nargs + 1, len(self.locals)):
                if len(self.defs(i)) > 1 or self.partial_defs(i):
                    ty = self.local_ty(i)
                    k = seen.get(ty, 0)
                    seen[ty] = k + 1
                    self._roles[i] = f"%{ty}#{k}"
        return self._roles.get(l, f"%{self.local_ty(l)}")

    def denamed(self, e, keep=None):
        """expand named single-definition locals to their defining expression and replace the remaining variables by
        their role; `keep` maps local index -> fixed placeholder (e.g. {cost_local: 'COST'})"""
        if not isinstance(e, tuple) or not e:
            return e
        if e[0] == "named":
            if keep and e[2] in keep:
                return ("var", keep[e[2]], e[2])
            return self.denamed(e[3], keep)
        if e[0] == "var":
            if keep and e[2] in keep:
                return ("var", keep[e[2]], e[2])
            return ("var", self.role_of(e[2]), e[2])
        return tuple(self.denamed(x, keep) if isinstance(x, tuple) else x for x in e)

    def byte_tests(self):
        """{(rel, constant)}: every test of the function on a BYTE VALUE read from the input — element 0 of a one-byte buffer,
        or a u8 parameter — whether written as a comparison (`b == 0xff`, `b <= 0x7f`) or as a `match` on the byte.
        Found by role, not by the local's name."""
        import re
        out = set()

        def is_byte_atom(k):
            if re.fullmatch(r"\[0; 1\]\[0\]", k) or re.fullmatch(r"\*?\$\d+\[0\]", k) and False:
                return True
            m = re.fullmatch(r"\$(\d+)", k)
            return bool(m) and self.local_ty(int(m.group(1))) == "u8"
        for b in self.reachable_blocks():
            t = self.term(b)
            if t["k"] != "switch":
                continue
            e = self.denamed(self.switch_cond(b))
            if t.get("ty") == "bool":
                n = compare_norm(e)
                if n and len(n[0]) == 1 and is_byte_atom(list(n[0])[0]):
                    out.add((n[2], abs(n[1])))
            elif t.get("ty") == "u8":
                k = show(strip(e))
                if is_byte_atom(k):
                    for v, _ in t["targets"]:
                        out.add(("==0", v))
        return out

    def bit_direction(self):
        """for a path walker: [('set'|'clear', 'left'|'right')] — which child of the Pair is taken on each edge of the
        switch that tests a bit of the path (cond contains `BitAnd`); decided from expressions, not from local names"""
        sel = []
        for b in sorted(self.reachable_blocks()):
            if self.term(b)["k"] != "switch" or self.term(b).get("ty") != "bool":
                continue
            c = show(self.denamed(self.switch_cond(b)))
            if "BitAnd" not in c or "Ne 0" not in c and "!= 0" not in c and " Ne " not in c:
                continue
            be = self.bool_edges(b)
            if not be:
                continue
            for edge, nm in ((be[0], "set"), (be[1], "clear")):
                for st in self.stmts(edge):
                    if st.get("d") and "rv" in st and not st["d"]["p"]:
                        v = show(self.denamed(self.expr_rvalue(st["rv"])))
                        if v.endswith(" as Pair).1"):
                            sel.append((nm, "right"))
                        elif v.endswith(" as Pair).0"):
                            sel.append((nm, "left"))
        return sorted(set(sel))

    def where(self, b=None, ln=None):
        if ln is None and b is not None:
            ln = self.term(b)["ln"]
        return f"{self.file}:{ln}" if ln else self.file

    def calls(self):
        for b, blk in enumerate(self.blocks):
            if blk["cleanup"]:
                continue
            t = blk["term"]
            if t["k"] in ("call", "tailcall"):
                yield b, t

    def calls_to(self, *names):
        return [(b, t) for b, t in self.calls() if t.get("callee") in names or t.get("raw") in names]

    def calls_matching(self, pred):
        return [(b, t) for b, t in self.calls() if pred(t)]

    # -- CFG (normal edges only: unwind edges and cleanup blocks are ignored)
    def succ(self, b):
        if self._succ is None:
            self._build_cfg()
        return self._succ[b]

    def pred(self, b):
        if self._pred is None:
            self._build_cfg()
        return self._pred[b]

    def _build_cfg(self):
        succ = []
        for blk in self.blocks:
            t = blk["term"]
            k = t["k"]
            s = []
            if k == "goto":
                s = [(t["target"], "goto")]
            elif k == "switch":
                s = [(bb, v) for v, bb in t["targets"]] + [(t["otherwise"], "otherwise")]
                s = self._prune_infeasible(t, s)
            elif k in ("call", "drop", "assert"):
                if t.get("target") is not None:
                    s = [(t["target"], "next")]
            succ.append(s)
        pred = [[] for _ in self.blocks]
        for b, s in enumerate(succ):
            for tb, lab in s:
                pred[tb].append((b, lab))
        self._succ, self._pred = succ, pred

    def _prune_infeasible(self, t, s):
        """`Err(e)?` : Try::branch(Err(..)) can only take the Break edge; a switch whose
        `otherwise` block is a bare `unreachable` loses that edge."""
        try:
            e = strip(self.expr_op(t["on"]))
        except RecursionError:
            return s
        if e[0] == "discr":
            inner = strip(e[1])
            if inner[0] == "call" and inner[1].endswith("Try>::branch") and inner[2]:
                a = strip(inner[2][0])
                if a[0] == "agg" and a[1].endswith("result::Result::Err"):
                    s = [(bb, v) for bb, v in s if v == 1]
                elif a[0] == "agg" and a[1].endswith("result::Result::Ok"):
                    s = [(bb, v) for bb, v in s if v == 0]
        out = []
        for bb, v in s:
            blk = self.blocks[bb]
            if v == "otherwise" and blk["term"]["k"] == "unreachable" and not blk["stmts"]:
                continue
            out.append((bb, v))
        return out or s

    def succ_blocks(self, b):
        return [x for x, _ in self.succ(b)]

    def question_mark(self, b):
        """block b ends in a call whose result goes through `?`:
        returns (continue_block, break_block) or None."""
        t = self.term(b)
        if t["k"] != "call" or t.get("target") is None:
            return None
        b1 = t["target"]
        t1 = self.term(b1)
        if t1["k"] != "call" or not (t1.get("callee") or "").endswith("Try>::branch"):
            return None
        a = op_place(t1["args"][0]) if t1["args"] else None
        if a is None or a["l"] != t["dst"]["l"]:
            return None
        b2 = t1.get("target")
        if b2 is None or self.term(b2)["k"] != "switch":
            return None
        tg = {v: bb for bb, v in self.succ(b2)}
        if 0 in tg and 1 in tg:
            return (tg[0], tg[1])
        return None

    def reach_from(self, starts, blocked=()):
        """blocks reachable from starts (inclusive) without entering `blocked`."""
        blocked = set(blocked)
        seen = set()
        work = [s for s in starts if s not in blocked]
        while work:
            b = work.pop()
            if b in seen:
                continue
            seen.add(b)
            for s in self.succ_blocks(b):
                if s not in seen and s not in blocked:
                    work.append(s)
        return seen

    def reachable_blocks(self):
        return set(self.idom().keys())

    def return_blocks(self):
        return [b for b, blk in enumerate(self.blocks) if blk["term"]["k"] == "return" and not blk["cleanup"]]

    # -- dominators (Cooper-Harvey-Kennedy), on the normal CFG from bb0
    def _rpo(self, entry, succf):
        seen, order = set(), []
        stack = [(entry, iter(succf(entry)))]
        seen.add(entry)
        while stack:
            b, it = stack[-1]
            adv = False
            for s in it:
                if s not in seen:
                    seen.add(s)
                    stack.append((s, iter(succf(s))))
                    adv = True
                    break
            if not adv:
                order.append(b)
                stack.pop()
        order.reverse()
        return order

    def _dom_generic(self, entry, succf, predf):
        rpo = self._rpo(entry, succf)
        idx = {b: i for i, b in enumerate(rpo)}
        idom = {entry: entry}
        changed = True
        while changed:
            changed = False
            for b in rpo[1:]:
                ps = [p for p in predf(b) if p in idom]
                if not ps:
                    continue
                new = ps[0]
                for p in ps[1:]:
                    a, c = p, new
                    while a != c:
                        while idx[a] > idx[c]:
                            a = idom[a]
                        while idx[c] > idx[a]:
                            c = idom[c]
                    new = a
                if idom.get(b) != new:
                    idom[b] = new
                    changed = True
        return idom

    def idom(self):
        if self._idom is None:
            self._idom = self._dom_generic(0, self.succ_blocks, lambda b: [p for p, _ in self.pred(b)])
        return self._idom

    def dominates(self, a, b):
        """a dominates b (reflexive). Unreachable b: False."""
        idom = self.idom()
        if b not in idom:
            return False
        while True:
            if a == b:
                return True
            nb = idom[b]
            if nb == b:
                return False
            b = nb

    def dominators(self, b):
        idom = self.idom()
        out = []
        if b not in idom:
            return out
        while True:
            out.append(b)
            nb = idom[b]
            if nb == b:
                break
            b = nb
        return out

    def ipdom(self):
        """immediate post-dominators with a virtual exit (-1) joined from every
        block without normal successors (return, diverging call, unreachable)."""
        if self._ipdom is None:
            EXIT = -1
            exits = [b for b in range(self.n) if not self.is_cleanup(b) and not self.succ(b)]

            def rsucc(b):
                if b == EXIT:
                    return exits
                return [p for p, _ in self.pred(b)]

            def rpred(b):
                if b == EXIT:
                    return []
                s = self.succ_blocks(b)
                return s if s else [EXIT]

            self._ipdom = self._dom_generic(EXIT, rsucc, rpred)
        return self._ipdom

    def postdominates(self, a, b):
        ip = self.ipdom()
        if b not in ip:
            return False
        while True:
            if a == b:
                return True
            nb = ip[b]
            if nb == b:
                return False
            b = nb

    def region(self, b, edge_target):
        """blocks control-dependent on taking edge b->edge_target: reachable from
        edge_target before the immediate post-dominator of b."""
        ip = self.ipdom().get(b, -1)
        blocked = {ip} if ip != -1 else set()
        if edge_target in blocked:
            return set()
        return self.reach_from([edge_target], blocked)

    def loops(self):
        """natural loops: {header: set(blocks)}"""
        out = defaultdict(set)
        for b in range(self.n):
            if self.is_cleanup(b):
                continue
            for s in self.succ_blocks(b):
                if self.dominates(s, b):
                    body = {s, b}
                    work = [b]
                    while work:
                        x = work.pop()
                        if x == s:
                            continue
                        for p, _ in self.pred(x):
                            if p not in body:
                                body.add(p)
                                work.append(p)
                    out[s] |= body
        return dict(out)

    def in_loop(self, b):
        return any(b in body for body in self.loops().values())

    # -- def-use
    def defs(self, l):
        if self._defs is None:
            d = defaultdict(list)
            for b, blk in enumerate(self.blocks):
                if blk["cleanup"]:
                    continue
                for i, st in enumerate(blk["stmts"]):
                    if "d" in st and not st["d"]["p"]:
                        d[st["d"]["l"]].append((b, i))
                    elif "d" in st:
                        d[("partial", st["d"]["l"])].append((b, i))
                t = blk["term"]
                if t["k"] == "call" and not t["dst"]["p"]:
                    d[t["dst"]["l"]].append((b, "T"))
            self._defs = d
        return self._defs.get(l, [])

    def partial_defs(self, l):
        self.defs(0)
        return self._defs.get(("partial", l), [])

    def def_rvalue(self, site):
        b, i = site
        if i == "T":
            return {"call": self.term(b)}
        return self.stmts(b)[i]["rv"]

    # -- expression reconstruction
    def expr_op(self, op, deep=True, depth=0, seen=None):
        if "c" in op:
            c = op["c"]
            if "fn" in c:
                return ("fnref", c["fn"])
            if "variant" in c:
                return ("agg", c["ty"].lstrip("&") + "::" + c["variant"], ())
            if "val" in c:
                return ("const", c["val"], c.get("name"), c.get("ty"))
            if "bytes" in c:
                return ("bytes", c["bytes"], c.get("name"))
            if "str" in c:
                return ("str", c["str"])
            return ("const", None, c.get("name"), c.get("ty"))
        pl = op_place(op)
        if pl is None:
            return ("unknown",)
        return self.expr_place(pl, deep, depth, seen)

    def expr_place(self, pl, deep=True, depth=0, seen=None):
        seen = seen or frozenset()
        base = self.expr_local(pl["l"], deep, depth, seen)
        projs = pl["p"]
        i = 0
        # (checked-binop tuple).0  ->  the arithmetic result
        if base[0] == "chk" and projs and isinstance(projs[0], dict) and projs[0].get("i") == 0:
            base = ("bin", base[1], base[2], base[3])
            i = 1
        elif base[0] == "chk" and projs and isinstance(projs[0], dict) and projs[0].get("i") == 1:
            base = ("overflow", base[1], base[2], base[3])
            i = 1
        for p in projs[i:]:
            if p == "*":
                if base[0] == "ref":
                    base = base[2]
                else:
                    base = ("deref", base)
            elif "f" in p:
                tb = base
                while tb[0] == "named":
                    tb = tb[3]
                # a field of a tuple built a moment ago (`match (a, b)`) is just that element
                if tb[0] == "agg" and tb[1] == "tuple" and str(p["f"]).isdigit() and int(p["f"]) < len(tb[2]) and p.get("i") == int(p["f"]):
                    base = tb[2][int(p["f"])]
                else:
                    base = ("field", base, p["f"])
            elif "dc" in p:
                base = ("downcast", base, p["dc"])
            elif "ix" in p:
                base = ("index", base, self.expr_local(p["ix"], deep, depth + 1, seen))
            elif "cix" in p:
                base = ("index", base, ("const", p["cix"], None, "usize"))
            else:
                base = ("proj", base, json.dumps(p, sort_keys=True))
        return base

    def expr_local(self, l, deep=True, depth=0, seen=None):
        seen = seen or frozenset()
        name = self.local_name(l)
        if l != 0 and l <= self.nargs:
            return ("var", name or f"arg{l}", l)
        if depth > 40 or l in seen:
            return ("var", name or f"_{l}", l)
        ds = self.defs(l)
        if name and not deep:
            return ("var", name, l)
        if len(ds) != 1 or self.partial_defs(l):
            return ("var", name or f"_{l}", l)
        rv = self.def_rvalue(ds[0])
        e = self.expr_rvalue(rv, deep, depth + 1, seen | {l})
        if name and e[0] in ("call", "agg", "unknown"):
            # keep the user's name visible for opaque values
            return ("named", name, l, e)
        return e

    def expr_rvalue(self, rv, deep=True, depth=0, seen=None):
        seen = seen or frozenset()
        E = lambda o: self.expr_op(o, deep, depth, seen)
        if "use" in rv:
            return E(rv["use"])
        if "bin" in rv:
            op, a, b = rv["bin"]
            if op.endswith("WithOverflow"):
                return ("chk", op[: -len("WithOverflow")], E(a), E(b))
            if op.endswith("Unchecked"):
                op = op[: -len("Unchecked")]
            return ("bin", op, E(a), E(b))
        if "un" in rv:
            return ("un", rv["un"][0], E(rv["un"][1]))
        if "cast" in rv:
            k, o, ty = rv["cast"]
            return ("cast", k, E(o), ty)
        if "ref" in rv:
            return ("ref", rv["ref"][0], self.expr_place(rv["ref"][1], deep, depth, seen))
        if "rawptr" in rv:
            return ("ref", "raw", self.expr_place(rv["rawptr"][1], deep, depth, seen))
        if "discr" in rv:
            return ("discr", self.expr_place(rv["discr"], deep, depth, seen))
        if "len" in rv:
            return ("len", self.expr_place(rv["len"], deep, depth, seen))
        if "agg" in rv:
            kind, ops = rv["agg"]
            if isinstance(kind, dict):
                if "adt" in kind:
                    k = f'{kind["adt"]}::{kind["variant"]}'
                elif "closure" in kind:
                    k = "closure:" + kind["closure"]
                else:
                    k = "coroutine"
            else:
                k = kind
            return ("agg", k, tuple(E(o) for o in ops))
        if "call" in rv:
            t = rv["call"]
            callee = t.get("callee") or "<indirect>"
            return ("call", callee, tuple(E(a) for a in t["args"]))
        if "repeat" in rv:
            return ("repeat", E(rv["repeat"][0]), rv["repeat"][1])
        return ("unknown",)

    def discr_variants(self, b):
        """for a switch on an enum discriminant: {switch value: variant name}, else None"""
        t = self.term(b)
        if t["k"] != "switch":
            return None
        pl = op_place(t["on"])
        if not pl or pl["p"]:
            return None
        ds = self.defs(pl["l"])
        if len(ds) != 1 or ds[0][1] == "T":
            return None
        rv = self.stmts(ds[0][0])[ds[0][1]]["rv"]
        if "discr" in rv and "variants" in rv:
            return {int(v): n for v, n in rv["variants"]}
        return None

    def discr_enum(self, b):
        t = self.term(b)
        pl = op_place(t["on"]) if t["k"] == "switch" else None
        if not pl or pl["p"]:
            return None
        ds = self.defs(pl["l"])
        if len(ds) != 1 or ds[0][1] == "T":
            return None
        rv = self.stmts(ds[0][0])[ds[0][1]]["rv"]
        return rv.get("enum") if "discr" in rv else None

    # -- switch conditions
    def switch_cond(self, b, deep=True):
        t = self.term(b)
        if t["k"] != "switch":
            return None
        return self.expr_op(t["on"], deep)

    def bool_edges(self, b):
        """for a switch on a bool: (true_target, false_target) else None"""
        t = self.term(b)
        if t["k"] != "switch" or t.get("ty") != "bool":
            return None
        tg = dict((v, bb) for v, bb in t["targets"])
        if 0 in tg:
            return (t["otherwise"], tg[0])
        if 1 in tg:
            return (tg[1], t["otherwise"])
        return None

    # -- result status: does every path from block b to `return` leave an Err in _0 ?
    def status(self):
        """status[b] = set of kinds of the LAST definition of _0 on paths from the start of
        b to return: 'ERR:<variant|?>', 'OK', 'OTHER', 'NONE'."""
        if self._status is not None:
            return self._status
        last = {}
        for b, blk in enumerate(self.blocks):
            if blk["cleanup"]:
                continue
            k = None
            for st in blk["stmts"]:
                if "d" in st and st["d"]["l"] == 0:
                    if not st["d"]["p"]:
                        k = self._classify_ret(st["rv"], b)
                    else:
                        k = "OTHER"
            t = blk["term"]
            if t["k"] == "call" and t["dst"]["l"] == 0 and not t["dst"]["p"]:
                k = self._classify_call_ret(t)
            last[b] = k
        status = {b: set() for b in range(self.n) if not self.is_cleanup(b)}
        changed = True
        while changed:
            changed = False
            for b in status:
                t = self.term(b)
                if t["k"] == "return":
                    S = {"NONE"}
                else:
                    S = set()
                    for s in self.succ_blocks(b):
                        S |= status.get(s, set())
                k = last.get(b)
                if k is not None and "NONE" in S:
                    S = (S - {"NONE"}) | {k}
                if S != status[b]:
                    status[b] = S
                    changed = True
        self._status = status
        self._last_ret = last
        return status

    def _classify_ret(self, rv, b):
        if "agg" in rv and isinstance(rv["agg"][0], dict) and "adt" in rv["agg"][0]:
            adt, var = rv["agg"][0]["adt"], rv["agg"][0]["variant"]
            if adt.endswith("result::Result"):
                if var == "Err":
                    e = self.expr_op(rv["agg"][1][0])
                    return "ERR:" + err_variant(e)
                return "OK"
            if adt.endswith("option::Option"):
                return "NONEVAL" if var == "None" else "OK"
        if "use" in rv:
            e = self.expr_op(rv["use"])
            if e[0] == "agg" and e[1].endswith("result::Result::Err"):
                return "ERR:" + err_variant(e[2][0])
            if e[0] == "agg" and e[1].endswith("result::Result::Ok"):
                return "OK"
            if e[0] == "call":
                return self._classify_callee(e[1])
        return "OTHER"

    def _classify_callee(self, callee):
        if callee.endswith("FromResidual>::from_residual") or callee.endswith("::from_residual"):
            return "ERR:?"
        return "OTHER"

    def _classify_call_ret(self, t):
        k = self._classify_callee(t.get("callee") or t.get("raw") or "")
        if k == "ERR:?" and t.get("args"):
            # `Err(X)?` : the residual is a literal Err(variant)
            try:
                e = self.expr_op(t["args"][0])
            except RecursionError:
                return k
            for x in walk(e):
                if x[0] == "agg" and x[1].endswith("result::Result::Err") and x[2]:
                    v = err_variant(x[2][0])
                    if v != "?":
                        return "ERR:" + v
        return k

    def is_error_block(self, b):
        """every path from the start of b to return ends with _0 = Err / from_residual"""
        s = self.status().get(b, set())
        return bool(s) and all(x.startswith("ERR") for x in s)

    def err_variants_from(self, b):
        return {x[4:] for x in self.status().get(b, set()) if x.startswith("ERR")}

    def diverges(self, b):
        """no path from b reaches a return (panic / unreachable)"""
        return not self.status().get(b, set())


def err_variant(e):
    """name of the EvalErr (or other error enum) variant an expression constructs"""
    e = strip(e)
    if e[0] == "agg":
        return e[1].split("::")[-1]
    if e[0] == "call":
        # From::from(x) / Into::into(x)
        if e[2]:
            inner = err_variant(e[2][0])
            if inner != "?":
                return inner
    if e[0] == "named":
        return err_variant(e[3])
    return "?"


def strip(e):
    """strip casts / named wrappers / refs-of-derefs that do not change the value"""
    while True:
        if e[0] == "named":
            e = e[3]
        elif e[0] == "cast" and e[1] in ("IntToInt", "PtrToPtr", "Transmute"):
            e = e[2]
        else:
            return e


def inline_pure(cr, e, depth=0):
    """replace calls of local pure-arithmetic helpers (integer in, integer out, no calls, one return expression) by their
    body with the arguments substituted, so that extracting arithmetic into a private helper leaves expressions equal"""
    if not isinstance(e, tuple) or not e:
        return e
    e = tuple(inline_pure(cr, x, depth) if isinstance(x, tuple) else x for x in e)
    if e[0] == "call" and depth < 4 and e[1] in cr.fns:
        g = cr.fns[e[1]]
        ints = ("u64", "usize", "u32", "u8", "bool", "i32", "i64", "u16")
        if g.nargs and g.local_ty(0) in ints and all(g.local_ty(i) in ints for i in range(1, g.nargs + 1)) \
                and not any(g.term(b)["k"] in ("call", "drop", "switch") for b in g.reachable_blocks()) and len(g.defs(0)) == 1 \
                and len(e[2]) == g.nargs:
            body = g.expr_rvalue(g.def_rvalue(g.defs(0)[0]))

            def subst(x):
                if not isinstance(x, tuple) or not x:
                    return x
                if x[0] == "named":
                    return subst(x[3])
                if x[0] == "var" and 1 <= x[2] <= g.nargs:
                    return e[2][x[2] - 1]
                return tuple(subst(y) if isinstance(y, tuple) else y for y in x)
            return inline_pure(cr, subst(body), depth + 1)
    return e


# ----------------------------------------------------------------------------- rendering
def show(e, short=True):
    k = e[0]
    if k == "var":
        return e[1]
    if k == "named":
        return e[1]
    if k == "const":
        if e[2]:
            return e[2].split("::")[-1] if short else e[2]
        return str(e[1])
    if k == "bytes":
        return "b'" + e[1] + "'"
    if k == "str":
        return json.dumps(e[1])
    if k == "fnref":
        return e[1]
    if k == "field":
        b = show(e[1], short)
        return f"{b}.{e[2]}"
    if k == "deref":
        inner = e[1]
        if inner[0] == "var":
            return show(inner, short)  # auto-deref style: self.x
        return "*" + show(inner, short)
    if k == "ref":
        return "&" + ("mut " if e[1] == "mut" else "") + show(e[2], short)
    if k == "downcast":
        return f"({show(e[1], short)} as {e[2]})"
    if k == "index":
        return f"{show(e[1], short)}[{show(e[2], short)}]"
    if k in ("bin", "chk", "overflow"):
        return f"({show(e[2], short)} {e[1]} {show(e[3], short)})"
    if k == "un":
        return f"{e[1]}({show(e[2], short)})"
    if k == "cast":
        return f"({show(e[2], short)} as {e[3]})"
    if k == "discr":
        return f"discr({show(e[1], short)})"
    if k == "len":
        return f"len({show(e[1], short)})"
    if k == "agg":
        return f"{e[1].split('::')[-1] if short else e[1]}(" + ", ".join(show(x, short) for x in e[2]) + ")"
    if k == "call":
        nm = e[1]
        if short:
            nm = re.sub(r"<[^<>]*>", "", nm)
            nm = "::".join(nm.split("::")[-2:])
        return f"{nm}(" + ", ".join(show(x, short) for x in e[2]) + ")"
    if k == "proj":
        return f"{show(e[1], short)}{e[2]}"
    if k == "repeat":
        return f"[{show(e[1], short)}; {e[2]}]"
    return "?"


def walk(e):
    """yield all sub-expressions"""
    yield e
    for x in e[1:]:
        if isinstance(x, tuple):
            if x and isinstance(x[0], str):
                yield from walk(x)
            else:
                for y in x:
                    if isinstance(y, tuple):
                        yield from walk(y)


def mentions_field(e, name):
    return any(x[0] == "field" and x[2] == name for x in walk(e))


def mentions_const(e, name_suffix):
    return any(x[0] == "const" and x[2] and x[2].endswith(name_suffix) for x in walk(e))


# ----------------------------------------------------------------------------- linear forms
LEN_CALLS = ("::len",)


def canon_atom(e):
    """canonical string for a non-linear sub-expression"""
    e = strip(e)
    if e[0] == "call" and e[1].endswith("::len") and len(e[2]) == 1:
        inner = strip(e[2][0])
        if inner[0] == "ref":
            inner = inner[2]
        # Vec::len(&self.u8_vec) / <[u8]>::len(v) -> len(x)
        while inner[0] == "call" and (inner[1].endswith("::deref") or inner[1].endswith("::as_slice") or inner[1].endswith("::as_ref")) and len(inner[2]) == 1:
            inner = strip(inner[2][0])
            if inner[0] == "ref":
                inner = inner[2]
        return "len(" + show(inner) + ")"
    if e[0] == "len":
        return "len(" + show(e[1]) + ")"
    if e[0] == "un" and e[1] == "PtrMetadata":
        # the length of a slice value: same canonical form as a .len() call on it
        inner = strip(e[2])
        while True:
            if inner[0] == "ref":
                inner = strip(inner[2])
            elif inner[0] == "deref":
                inner = strip(inner[1])
            elif inner[0] == "call" and (inner[1].endswith("::deref") or inner[1].endswith("::as_slice") or inner[1].endswith("::as_ref")) and len(inner[2]) == 1:
                inner = strip(inner[2][0])
            else:
                break
        return "len(" + show(inner) + ")"
    return show(e)


def linear(e):
    """e -> ({atom: coeff}, const) or None if not linear-integer"""
    e = strip(e)
    k = e[0]
    if k == "const" and isinstance(e[1], int) and not (e[3] or "").startswith(("f32", "f64")):
        if e[2]:
            # a named constant stays symbolic AND numeric: keep symbolic under its value
            return ({}, e[1])
        return ({}, e[1])
    if k in ("bin", "chk") and e[1] in ("Add", "Sub"):
        a, b = linear(e[2]), linear(e[3])
        if a is None or b is None:
            return None
        sgn = 1 if e[1] == "Add" else -1
        t = dict(a[0])
        for x, c in b[0].items():
            t[x] = t.get(x, 0) + sgn * c
        return ({x: c for x, c in t.items() if c != 0}, a[1] + sgn * b[1])
    if k in ("bin", "chk") and e[1] == "Mul":
        a, b = linear(e[2]), linear(e[3])
        if a is not None and b is not None:
            if not a[0]:
                return ({x: c * a[1] for x, c in b[0].items() if c * a[1] != 0}, a[1] * b[1])
            if not b[0]:
                return ({x: c * b[1] for x, c in a[0].items() if c * b[1] != 0}, a[1] * b[1])
    v = const_eval(e)
    if v is not None:
        return ({}, v)
    return ({canon_atom(e): 1}, 0)


def const_eval(e):
    """value of a constant integer expression (shifts, masks, arithmetic on literals) or None"""
    e = strip(e)
    if e[0] == "const":
        return e[1] if isinstance(e[1], int) else None
    if e[0] in ("bin", "chk"):
        a, b = const_eval(e[2]), const_eval(e[3])
        if a is None or b is None:
            return None
        op = e[1]
        try:
            if op == "Add":
                return a + b
            if op == "Sub":
                return a - b
            if op == "Mul":
                return a * b
            if op == "Div":
                return a // b
            if op == "Rem":
                return a % b
            if op == "Shl":
                return a << b
            if op == "Shr":
                return a >> b
            if op == "BitOr":
                return a | b
            if op == "BitAnd":
                return a & b
            if op == "BitXor":
                return a ^ b
        except (ZeroDivisionError, ValueError, OverflowError):
            return None
    if e[0] == "un" and e[1] == "Neg":
        a = const_eval(e[2])
        return -a if a is not None else None
    return None


def compare_norm(e):
    """boolean comparison expression -> (terms, const, rel) meaning  Σterms + const  rel  0
    with rel in {'>0', '==0', '!=0'}; integer semantics (a >= b  <=>  a - b + 1 > 0).
    Returns None if e is not a comparison."""
    e = strip(e)
    neg = False
    while e[0] == "un" and e[1] == "Not":
        neg = not neg
        e = strip(e[2])
    if e[0] != "bin" or e[1] not in ("Gt", "Ge", "Lt", "Le", "Eq", "Ne"):
        return None
    op = e[1]
    if neg:
        op = {"Gt": "Le", "Ge": "Lt", "Lt": "Ge", "Le": "Gt", "Eq": "Ne", "Ne": "Eq"}[op]
    a, b = linear(e[2]), linear(e[3])
    if a is None or b is None:
        return None

    def sub(x, y):
        t = dict(x[0])
        for k, c in y[0].items():
            t[k] = t.get(k, 0) - c
        return {k: c for k, c in t.items() if c != 0}, x[1] - y[1]

    if op == "Gt":
        t, c = sub(a, b)
        return (t, c, ">0")
    if op == "Ge":
        t, c = sub(a, b)
        return (t, c + 1, ">0")
    if op == "Lt":
        t, c = sub(b, a)
        return (t, c, ">0")
    if op == "Le":
        t, c = sub(b, a)
        return (t, c + 1, ">0")
    t, c = sub(a, b)
    # canonical sign for equalities: first key positive
    if t:
        k0 = sorted(t)[0]
        if t[k0] < 0:
            t = {k: -v for k, v in t.items()}
            c = -c
    return (t, c, "==0" if op == "Eq" else "!=0")


def show_norm(n):
    if n is None:
        return "?"
    t, c, rel = n
    parts = []
    for k in sorted(t):
        v = t[k]
        parts.append(("+" if v > 0 else "-") + ("" if abs(v) == 1 else str(abs(v)) + "*") + k)
    if c:
        parts.append(("+" if c > 0 else "-") + str(abs(c)))
    return " ".join(parts) + " " + rel


def vec_pushes(f, elem_ty):
    """pushes onto a Vec whose element type ends with elem_ty (the vector is found by TYPE, whatever it is called), in block
    order: [(block, value)].  A value that is field k of a matched node's Pair payload is rendered 'child<k>' - what it IS,
    not what the binding is called; other values are rendered deep."""
    import re as _re
    out = []
    for b, t in f.calls():
        if not (t.get("callee") or "").endswith("Vec::<T, A>::push") or len(t["args"]) < 2:
            continue
        pl = op_place(t["args"][0])
        if not pl:
            continue
        ty = f.local_ty(pl["l"])
        if pl["p"]:
            ty = show(f.expr_op(t["args"][0], deep=False)) + " : " + ty
        vt = f.local_ty(op_place(t["args"][1])["l"]) if op_place(t["args"][1]) and not op_place(t["args"][1])["p"] else None
        if not (("Vec<" + elem_ty + ">") in ty.replace("std::vec::", "") or ty.rstrip(">").endswith(elem_ty) or (vt or "").endswith(elem_ty)):
            continue
        v = show(f.expr_op(t["args"][1]))
        m = _re.match(r"^\(.* as Pair\)\.([01])$", v)
        m2 = _re.match(r"^(\w+)\(\(.* as Pair\)\.([01])\)$", v)
        out.append((b, "child" + m.group(1) if m else (f"{m2.group(1)}(child{m2.group(2)})" if m2 else v)))
    return sorted(out)


def vec_pops(f, elem_ty):
    """blocks of pops from a Vec whose element type ends with elem_ty"""
    out = []
    for b, t in f.calls():
        if not (t.get("callee") or "").endswith("Vec::<T, A>::pop"):
            continue
        dst = f.local_ty(t["dst"]["l"])
        if dst.rstrip(">").endswith(elem_ty):
            out.append(b)
    return sorted(out)
