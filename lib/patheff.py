"""T3: path-sensitive effect counting.

A forward dataflow over the lattice "set of states", a state being
(last-return-kind, counts...) with every count capped at CAP (2 = "two or more").
Effects inside a natural loop are *bulk*: they are recorded as a flag, not counted per
iteration (the rule that uses them must then tie the bulk total to a checked size).
"""
from collections import defaultdict

CAP = 2


def run(f, block_effects, ret_kind, classes, call_ret_kind=None, max_states=4000):
    """
    block_effects: {block: [(order, cls, delta)]}  order = stmt index or 10**6 for the terminator
    ret_kind(rv_or_term, b) -> str|None : classification when _0 is (re)defined
    classes: ordered list of effect class names
    returns {state} at function exit, state = (ret_kind, tuple(counts))  (counts per class; bulk classes
    are named 'bulk:<cls>' by the caller)
    """
    ci = {c: i for i, c in enumerate(classes)}
    reach = f.reachable_blocks()
    loops = f.loops()
    inloop = set()
    for body in loops.values():
        inloop |= body

    def transfer(b, state):
        kind, counts = state
        counts = list(counts)
        evs = list(block_effects.get(b, []))
        # _0 definitions
        for i, st in enumerate(f.stmts(b)):
            d = st.get("d")
            if d and d["l"] == 0:
                k = ret_kind(st["rv"], b, f) if not d["p"] else "OTHER"
                evs.append((i, "__ret__", k))
        t = f.term(b)
        if t["k"] == "call" and t["dst"]["l"] == 0 and not t["dst"]["p"]:
            k = (call_ret_kind or default_call_ret)(t, b, f)
            evs.append((10 ** 6 + 1, "__ret__", k))
        evs.sort(key=lambda x: x[0])
        for _, cls, delta in evs:
            if cls == "__ret__":
                if delta is not None:
                    kind = delta
                continue
            i = ci[cls]
            if cls.startswith("bulk:"):
                counts[i] = 1
            else:
                counts[i] = max(0, min(CAP, counts[i] + delta))
        return (kind, tuple(counts))

    init = ("NONE", tuple(0 for _ in classes))
    IN = defaultdict(set)
    IN[0].add(init)
    work = [0]
    exits = set()
    n = 0
    while work:
        b = work.pop()
        outs = {transfer(b, s) for s in IN[b]}
        t = f.term(b)
        if t["k"] == "return":
            exits |= outs
            continue
        for s in f.succ_blocks(b):
            if s not in reach:
                continue
            new = outs - IN[s]
            if new:
                IN[s] |= new
                n += len(new)
                if n > max_states:
                    raise RuntimeError(f"path-effect state explosion in {f.path}")
                if s not in work:
                    work.append(s)
    return exits


def default_call_ret(t, b, f):
    c = t.get("callee") or t.get("raw") or ""
    if c.endswith("::from_residual"):
        return "ERR"
    return "DELEGATED:" + c


def default_ret_kind(rv, b, f):
    k = f._classify_ret(rv, b)
    if k.startswith("ERR"):
        return "ERR"
    return k
