"""Obligation bookkeeping, evidence files, known findings, exit protocol."""
import json
import os
import sys
import time

VERIF = os.path.dirname(os.path.dirname(os.path.abspath(__file__)))


class Check:
    def __init__(self, pid, tier, level="other"):
        self.pid = pid
        self.tier = tier
        self.level = level
        self.t0 = time.time()
        self.obls = []  # dicts
        self.rules = {}  # rule id -> description
        self.floors = []  # (name, count, floor)
        self.fns = set()
        self.configs = set()
        self.assumptions = []
        self.infos = []
        self.extra = {}
        self.prefix = ""    # key prefix of the current analysis pass (e.g. a second build configuration)

    # ---- declaring rules
    def rule(self, rid, text):
        self.rules[rid] = text

    def analysed(self, *fns):
        for f in fns:
            self.fns.add(f if isinstance(f, str) else f.path)

    def assume(self, text):
        if text not in self.assumptions:
            self.assumptions.append(text)

    def info(self, text):
        self.infos.append(text)

    # ---- obligations
    def ob(self, rule, key, ok, what, site=None, detail=None, trivial=False):
        """One rule instance. key: stable identifier WITHOUT line numbers
        (function path + construct). what: one-line statement of the obligation.
        site: file:line for the reader. detail: dict/str explaining a failure (or the
        fact that discharged it)."""
        self.obls.append({
            "rule": rule, "key": self.prefix + key, "base_key": key, "ok": bool(ok), "what": what,
            "site": site, "detail": detail, "trivial": trivial,
        })
        return bool(ok)

    def floor(self, name, count, floor):
        """fail closed when a rule matches fewer instances than were confirmed by hand"""
        self.floors.append((name, count, floor))
        self.ob("FLOOR", f"floor|{name}", count >= floor,
                f"rule instance count for '{name}' is {count}, floor {floor}",
                detail={"count": count, "floor": floor} if count >= floor else
                "fewer instances than confirmed when the rule was frozen: an anchor moved or the "
                "construct is no longer recognised; the property is undecided (fail closed)",
                trivial=True)

    # ---- a second view of the same program
    def merge_view(self, other, self_aborted, other_aborted, known_keys=(), fn_paths=(), inline_info=None, direct_callers=None):
        """`other` holds the obligations of the same rules run on the inlined view (lib/inline_mir.py): the same program with
        its private helpers inlined into their callers, the helpers themselves no longer existing as functions.

        * An obligation that fails here and holds there under the same key is discharged: a structural clause shown on either
          view of the program holds for the program.
        * An obligation that fails here and concerns a function F (the longest function path occurring in its key): let the
          roots be F itself, or - if F is a helper that was dissolved into its callers - those callers.  If the other run
          completed and, under the same rule, has obligations about every root and none of them fails, the obligation is
          discharged: in that view the roots contain all of F's code, and the rule found nothing wrong with it there.
        * If this run stopped at a missing anchor and the other one completed, the other run's obligations are taken instead
          (a failing one is discharged when this run established the same key)."""
        inline_info = inline_info or {"dissolved": [], "helpers_of": {}}
        dissolved = set(inline_info.get("dissolved", []))
        callers = {}
        for root, hs in inline_info.get("helpers_of", {}).items():
            for h in hs:
                callers.setdefault(h, set()).add(root)
        paths = sorted(set(fn_paths), key=len, reverse=True)

        def attribute(key):
            for p_ in paths:
                if p_ in key:
                    return p_
            return None

        direct_callers = direct_callers or {}

        def roots_of(fn, rule):
            """the functions that, in the inlined view, contain fn's code and about which `rule` has obligations there: fn's direct
            callers; a caller the rule says nothing about (e.g. itself unreachable there because dissolved) is replaced by its own
            direct callers.  None if some chain ends without such a function."""
            out, seen = set(), set()
            work = list(direct_callers.get(fn, ()))
            if not work:
                return None
            while work:
                x = work.pop()
                if x in seen:
                    continue
                seen.add(x)
                if by_fn.get((rule, x)):
                    out.add(x)
                elif x in dissolved and direct_callers.get(x):
                    work.extend(direct_callers[x])
                else:
                    return None
            return out
        # several obligations may share a key (two sites of the same kind in one function): a key holds in a view only if
        # every obligation under it holds there, and the other view must have at least as many of them
        theirs, n_theirs, n_mine = {}, {}, {}
        for o in other.obls:
            k_ = (o["rule"], o["key"])
            n_theirs[k_] = n_theirs.get(k_, 0) + 1
            if k_ not in theirs or not o["ok"]:
                theirs[k_] = o if (k_ not in theirs or theirs[k_]["ok"]) else theirs[k_]
        for o in self.obls:
            k_ = (o["rule"], o["key"])
            n_mine[k_] = n_mine.get(k_, 0) + 1
        for k_ in list(theirs):
            if n_theirs[k_] < n_mine.get(k_, 0) and theirs[k_]["ok"]:
                theirs[k_] = dict(theirs[k_], ok=False)
        by_fn = {}
        for o in other.obls:
            by_fn.setdefault((o["rule"], attribute(o["key"])), []).append(o)
        mine = {}
        for o in self.obls:
            k_ = (o["rule"], o["key"])
            if k_ not in mine or not o["ok"]:
                mine[k_] = o if (k_ not in mine or mine[k_]["ok"]) else mine[k_]
        n = 0
        if self_aborted and not other_aborted:
            final = []
            for o in other.obls:
                m = mine.get((o["rule"], o["key"]))
                if not o["ok"] and m is not None and m["ok"]:
                    o = dict(m)
                elif o["ok"]:
                    o = dict(o, detail={"view": "inlined", "fact": o["detail"]})
                    n += 1
                final.append(o)
            self.obls = final
            for k, v in other.rules.items():
                self.rules.setdefault(k, v)
            self.fns |= other.fns
        else:
            for o in self.obls:
                if o["ok"] or (self.pid, f'{o["rule"]}|{o["base_key"]}') in known_keys:
                    continue
                fn = attribute(o["key"])
                t = theirs.get((o["rule"], o["key"]))
                if t is not None and not (fn in dissolved and not t["ok"]):
                    # (a failing obligation about a helper that is dead code in the inlined view says nothing there)
                    if t["ok"]:
                        o["ok"] = True
                        o["detail"] = {"view": "inlined", "fact": t["detail"], "plain view": o["detail"]}
                        n += 1
                    continue
                if fn is None or other_aborted:
                    continue
                if fn not in dissolved:
                    # the same function exists in both views and the key is simply absent (or fails) there: not established
                    continue
                roots = roots_of(fn, o["rule"])
                good = bool(roots)
                for r in roots or ():
                    obs = by_fn.get((o["rule"], r), [])
                    if not obs or any(not x["ok"] for x in obs):
                        good = False
                if good:
                    o["ok"] = True
                    o["detail"] = {"view": "inlined", "fact": f"{fn} is inlined into {sorted(roots)}; rule {o['rule']} holds for them in that view", "plain view": o["detail"]}
                    n += 1
        self.extra["discharged_on_inlined_view"] = n
        if n:
            self.info(f"{n} obligation(s) discharged on the inlined view (private helpers inlined into their callers)")

    # ---- finishing
    @staticmethod
    def evidence_dir():
        """evidence/ for runs against /repo itself; self-test runs (VERIF_REPO pointing at a scratch copy, or the name probe)
        write under .cache/ so that they can never overwrite the evidence of the real tree"""
        repo = os.path.abspath(os.environ.get("VERIF_REPO", "/repo"))
        if repo != "/repo" or os.environ.get("VERIF_RENAME_SUFFIX"):
            return os.path.join(VERIF, ".cache", "scratch-evidence", os.environ.get("VERIF_TGT_SLOT", "x"))
        return os.path.join(VERIF, "evidence")

    def finish(self):
        kf = load_known()
        known = {(f["property"], f["key"]): f for f in kf.get("findings", [])}
        viol, knownhits = [], []
        for o in self.obls:
            if o["ok"]:
                continue
            k = (self.pid, f'{o["rule"]}|{o["base_key"]}')
            if k in known:
                knownhits.append((o, known[k]))
            else:
                viol.append(o)
        EV = self.evidence_dir()
        rdir = os.path.join(EV, "replay")
        os.makedirs(rdir, exist_ok=True)
        for fn in os.listdir(rdir):
            if fn.startswith(self.pid + "-"):
                os.unlink(os.path.join(rdir, fn))
        if os.environ.get("VERIF_VERBOSE"):
            for o in self.obls:
                print(("ok  " if o["ok"] else "FAIL"), o["rule"], o["key"], "@", o["site"], "=>", str(o["detail"])[:220])
        for o, f in knownhits:
            print(f'KNOWN-FINDING: property={self.pid} {f["what"]} [{o["rule"]} {o["key"]}]')
        seen_keys = set()
        for i, o in enumerate(viol):
            rp = os.path.join(EV, "replay", f"{self.pid}-{i}.json")
            with open(rp, "w") as f:
                json.dump({"property": self.pid, **o, "rule_text": self.rules.get(o["rule"])}, f, indent=1, default=str)
            print(f"VIOLATION property={self.pid} replay={rp}")
            print(f'  rule      {o["rule"]}: {self.rules.get(o["rule"], "")}')
            print(f'  instance  {o["key"]}')
            if o["site"]:
                print(f'  site      {o["site"]}')
            print(f'  obligation {o["what"]}')
            if o["detail"]:
                d = o["detail"] if isinstance(o["detail"], str) else json.dumps(o["detail"], default=str)
                print(f"  detail    {d[:1500]}")
            seen_keys.add(o["key"])
        real = [o for o in self.obls if not o["trivial"]]
        distinct = len({(o["rule"], o["key"]) for o in real})
        samples = []
        per_rule = {}
        for o in real:
            per_rule.setdefault(o["rule"], []).append(o)
        for r, os_ in per_rule.items():
            for o in os_[:3]:
                samples.append({"rule": r, "instance": o["key"], "site": o["site"], "obligation": o["what"],
                                "ok": o["ok"], "fact": o["detail"] if o["ok"] else None})
        ev = {
            "property_id": self.pid,
            "tier": self.tier,
            "seed": int(os.environ.get("VERIF_SEED", "0") or 0),
            "level": self.level,
            "coverage": {
                "explanation": "static rules over type-checked MIR / constants / Python ASTs of the current tree: "
                               + "; ".join(f"{k}: {v}" for k, v in self.rules.items()),
                "evaluations": len(self.obls),
                "distinct_nontrivial": distinct,
                "rule": "one evaluation per rule instance (site, path class, table row or sibling pair); "
                        "non-trivial = the rule's precondition applied at that site and a real obligation was decided; "
                        "distinct = distinct (rule, function, construct) keys",
                "obligations": len(self.obls),
                "discharged": sum(1 for o in self.obls if o["ok"]),
                "known_findings": len(knownhits),
                "samples": samples[:40] or [{"note": "no instances"}],
                "rules": self.rules,
                "per_rule_instances": {r: len(v) for r, v in per_rule.items()},
                "functions_analysed": sorted(self.fns),
                "n_functions_analysed": len(self.fns),
                "configs": sorted(self.configs),
                "floors": [{"name": n, "count": c, "floor": fl} for n, c, fl in self.floors],
                "info": self.infos[:50],
                "exhaustive": True,
                **self.extra,
            },
            "assumptions": self.assumptions,
            "wall_s": round(time.time() - self.t0, 2),
            "violations": len(viol),
        }
        if self.level == "proof":
            ev["coverage"]["checker_cmd"] = f"./check {self.pid} --tier {self.tier}"
            ev["coverage"]["trusted_base"] = self.extra.get("trusted_base", [])
        with open(os.path.join(EV, f"{self.pid}.json"), "w") as f:
            json.dump(ev, f, indent=1, default=str)
        n_ok = sum(1 for o in self.obls if o["ok"])
        print(f"{self.pid}: {len(self.obls)} obligations, {n_ok} discharged, {len(knownhits)} known findings, "
              f"{len(viol)} violations; {len(self.fns)} functions analysed; {ev['wall_s']}s")
        return 1 if viol else 0


def load_known():
    p = os.path.join(VERIF, "known_findings.json")
    if os.path.isfile(p):
        with open(p) as f:
            return json.load(f)
    return {}
