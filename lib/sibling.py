"""T5: sibling agreement. Canonical serialisation of a (sub-)CFG so that two functions that are
the same program up to a stated renaming of callees/types serialise identically."""
import re


def _place(pl, ren):
    s = ren(pl["l"])
    for p in pl["p"]:
        if p == "*":
            s = f"(*{s})"
        elif "f" in p:
            s += f".{p['f']}"
        elif "dc" in p:
            s = f"({s} as {p['dc']})"
        elif "ix" in p:
            s += f"[{ren(p['ix'])}]"
        elif "cix" in p:
            s += f"[{p['cix']}{'e' if p.get('fe') else ''}]"
        elif "sub" in p:
            s += f"[{p['sub'][0]}..{p['sub'][1]}{'e' if p.get('fe') else ''}]"
        else:
            s += "?"
    return s


def _const(c, cmap, tmap):
    if "fn" in c:
        return "fn:" + cmap(c["fn"])
    if "variant" in c:
        return "enum:" + tmap(c["ty"]) + "::" + c["variant"]
    if "val" in c:
        return str(c["val"])
    if "str" in c:
        return repr(c["str"])
    if "bytes" in c:
        return "b:" + c["bytes"]
    if c.get("zst"):
        return "()"
    return "const:" + tmap(c.get("ty", "?"))


def _op(o, ren, cmap, tmap):
    if "cp" in o:
        return _place(o["cp"], ren)
    if "mv" in o:
        return _place(o["mv"], ren)
    if "c" in o:
        return _const(o["c"], cmap, tmap)
    return "?"


def _rv(rv, ren, cmap, tmap):
    O = lambda o: _op(o, ren, cmap, tmap)
    if "use" in rv:
        return O(rv["use"])
    if "bin" in rv:
        return f"{rv['bin'][0]}({O(rv['bin'][1])}, {O(rv['bin'][2])})"
    if "un" in rv:
        return f"{rv['un'][0]}({O(rv['un'][1])})"
    if "cast" in rv:
        return f"cast:{rv['cast'][0]}({O(rv['cast'][1])} as {tmap(rv['cast'][2])})"
    if "ref" in rv:
        return f"&{rv['ref'][0]} {_place(rv['ref'][1], ren)}"
    if "rawptr" in rv:
        return f"&raw {_place(rv['rawptr'][1], ren)}"
    if "discr" in rv:
        return f"discr({_place(rv['discr'], ren)})"
    if "len" in rv:
        return f"len({_place(rv['len'], ren)})"
    if "agg" in rv:
        k = rv["agg"][0]
        if isinstance(k, dict):
            if "adt" in k:
                k = tmap(k["adt"]) + "::" + k["variant"]
            elif "closure" in k:
                k = "closure"
            else:
                k = "coroutine"
        return f"{k}{{" + ", ".join(O(o) for o in rv["agg"][1]) + "}"
    if "repeat" in rv:
        return f"[{O(rv['repeat'][0])}; {rv['repeat'][1]}]"
    if "setdiscr" in rv:
        return f"setdiscr({rv['setdiscr']})"
    return "?"


def canonical(f, start=0, callee_map=None, type_map=None, keep_lines=False, skip_expansion=False):
    """list of canonical lines for the sub-CFG of f reachable from `start` (normal edges only).
    Also returns the parallel list of source lines (for reports)."""
    cmap = callee_map or (lambda c: c)
    tmap = type_map or (lambda t: t)
    order, seen = [], set()
    stack = [start]
    while stack:
        b = stack.pop()
        if b in seen:
            continue
        seen.add(b)
        order.append(b)
        for s, _ in reversed(f.succ(b)):
            if s not in seen:
                stack.append(s)
    bnum = {b: i for i, b in enumerate(order)}
    lren = {}

    def ren(l):
        if l == 0:
            return "RET"
        if l <= f.nargs:
            return f"ARG{l}"
        if l not in lren:
            lren[l] = f"L{len(lren)}"
        return lren[l]

    out, src = [], []
    for b in order:
        out.append(f"bb{bnum[b]}:")
        src.append(f.term(b)["ln"])
        for st in f.stmts(b):
            if "d" not in st:
                continue
            if skip_expansion and st.get("x"):
                continue
            # unit values of statement-expressions carry no information
            d = st["d"]
            if not d["p"] and f.local_ty(d["l"]) == "()" and d["l"] != 0:
                continue
            # drop-flag bookkeeping (compiler-generated: unnamed bool assigned only literals)
            if not d["p"] and _is_drop_flag(f, d["l"]):
                continue
            out.append(f"  {_place(st['d'], ren)} = {_rv(st['rv'], ren, cmap, tmap)}")
            src.append(st["ln"])
        t = f.term(b)
        k = t["k"]
        if k == "goto":
            line = f"  goto bb{bnum[t['target']]}"
        elif k == "switch":
            tg = ", ".join(f"{v}->bb{bnum[bb]}" for bb, v in f.succ(b))
            line = f"  switch {_op(t['on'], ren, cmap, tmap)} [{tg}]"
        elif k == "call":
            callee = cmap(t.get("callee") or "<indirect>")
            args = ", ".join(_op(a, ren, cmap, tmap) for a in t["args"])
            tgt = f"bb{bnum[t['target']]}" if t.get("target") is not None and t["target"] in bnum else "!"
            line = f"  {_place(t['dst'], ren)} = call {callee}({args}) -> {tgt}"
        elif k == "drop":
            line = f"  drop {_place(t['place'], ren)} -> bb{bnum[t['target']]}"
        elif k == "assert":
            line = f"  assert {t.get('kind')} -> bb{bnum[t['target']]}"
        else:
            line = f"  {k}"
        out.append(line)
        src.append(t["ln"])
    return out, src


def _is_drop_flag(f, l):
    cache = f.__dict__.setdefault("_dropflags", {})
    if l not in cache:
        ok = f.local_ty(l) == "bool" and not f.local_name(l) and l > f.nargs
        if ok:
            ds = f.defs(l)
            ok = bool(ds)
            for b, i in ds:
                if i == "T":
                    ok = False
                    break
                rv = f.stmts(b)[i]["rv"]
                if not ("use" in rv and "c" in rv["use"] and rv["use"]["c"].get("val") in (0, 1)):
                    ok = False
                    break
            # a drop flag is read only by switches
        cache[l] = ok
    return cache[l]


def first_diff(a, b):
    for i, (x, y) in enumerate(zip(a, b)):
        if x != y:
            return i
    if len(a) != len(b):
        return min(len(a), len(b))
    return None


def generic_strip(path):
    """drop generic argument lists from a def path:  Foo::<T>::bar -> Foo::bar"""
    prev = None
    while prev != path:
        prev = path
        path = re.sub(r"::<[^<>]*>", "", path)
    return path
