"""T1: extract threshold tables from chains of comparisons / integer matches in MIR.

threshold_paths(f, ...) enumerates the acyclic paths of a (loop-free) function, tracking the
interval that comparisons `var <op> CONST` impose on one integer quantity `var`, and returns for
every path that reaches a leaf the pair (interval, leaf-characteristic)."""
from collections import Counter
from lib import mir
from lib.mir import compare_norm, strip

U64 = (0, 2 ** 64 - 1)


def single_atom_tests(f):
    """{block: (atom, coeff, const, rel)} for switch conditions that compare one quantity with a constant"""
    out = {}
    for b in f.reachable_blocks():
        if f.term(b)["k"] != "switch":
            continue
        n = compare_norm(f.switch_cond(b))
        if n and len(n[0]) == 1:
            (atom, coeff), = n[0].items()
            if abs(coeff) == 1:
                out[b] = (atom, coeff, n[1], n[2])
    return out


def dominant_atom(f):
    tests = single_atom_tests(f)
    c = Counter(a for a, _, _, _ in tests.values())
    return c.most_common(1)[0][0] if c else None


def narrow(iv, coeff, const, rel, taken_true):
    """interval of x after (coeff*x + const  rel  0) evaluated to taken_true"""
    lo, hi = iv
    if rel == ">0":
        if coeff == 1:  # x > -const
            if taken_true:
                lo = max(lo, -const + 1)
            else:
                hi = min(hi, -const)
        else:  # -x + const > 0  <=> x < const
            if taken_true:
                hi = min(hi, const - 1)
            else:
                lo = max(lo, const)
    elif rel in ("==0", "!=0"):
        v = -const if coeff == 1 else const
        eq = taken_true if rel == "==0" else not taken_true
        if eq:
            lo, hi = max(lo, v), min(hi, v)
        else:
            if lo == v:
                lo += 1
            elif hi == v:
                hi -= 1
    return (lo, hi)


def threshold_paths(f, atom=None, domain=U64, max_paths=5000, stop=None):
    """returns list of (interval, [blocks on path]) for every acyclic entry->exit path, with the
    interval of `atom` implied by the comparisons on the path. Infeasible (empty interval) paths
    are dropped. `stop(b)` may cut a path early (leaf)."""
    atom = atom or dominant_atom(f)
    tests = {b: t for b, t in single_atom_tests(f).items() if t[0] == atom}
    out = []
    stack = [(0, domain, [0])]
    n = 0
    while stack:
        b, iv, path = stack.pop()
        n += 1
        if n > max_paths * 20:
            raise RuntimeError(f"path explosion in {f.path}")
        succ = f.succ(b)
        if not succ or (stop and stop(b)):
            out.append((iv, path))
            continue
        if b in tests:
            _, coeff, const, rel = tests[b]
            tt, ft = f.bool_edges(b)
            for tgt, taken in ((tt, True), (ft, False)):
                iv2 = narrow(iv, coeff, const, rel, taken)
                if iv2[0] <= iv2[1] and tgt not in path:
                    stack.append((tgt, iv2, path + [tgt]))
            continue
        # integer match directly on the quantity:  switchInt(x) [v -> bb]
        t = f.term(b)
        if t["k"] == "switch" and t.get("ty") != "bool":
            e = strip(f.expr_op(t["on"]))
            if mir.canon_atom(e) == atom:
                vals = []
                for tgt, v in succ:
                    if v == "otherwise":
                        continue
                    vals.append(v)
                    if iv[0] <= v <= iv[1] and tgt not in path:
                        stack.append((tgt, (v, v), path + [tgt]))
                for tgt, v in succ:
                    if v == "otherwise" and tgt not in path:
                        stack.append((tgt, ("not", tuple(sorted(vals)), iv), path + [tgt]))
                continue
        for tgt, _ in succ:
            if tgt not in path:
                stack.append((tgt, iv, path + [tgt]))
    return atom, out


def merge_rows(rows):
    """[(interval, leaf)] -> sorted, adjacent intervals with equal leaves merged"""
    rows = sorted(set((iv, leaf) for iv, leaf in rows if isinstance(iv[0], int)), key=lambda r: r[0])
    out = []
    for iv, leaf in rows:
        if out and out[-1][1] == leaf and out[-1][0][1] + 1 == iv[0]:
            out[-1] = ((out[-1][0][0], iv[1]), leaf)
        else:
            out.append((iv, leaf))
    return out
