// mirfacts: a rustc_private driver that dumps type-checked MIR facts as JSON.
//
// Used as RUSTC_WORKSPACE_WRAPPER under `cargo +nightly check`. For every crate
// whose name is listed in $MIRFACTS_CRATES (comma separated) it writes
// $MIRFACTS_OUT/<crate>.json in ONE write after analysis. All other crates are
// compiled normally. No clvm_rs code is ever run: the facts are the compiler's
// own view (resolved callees, evaluated constants, field names, elaborated
// drops) of the current source tree.
#![feature(rustc_private)]
#![allow(clippy::all)]

extern crate rustc_abi;
extern crate rustc_driver;
extern crate rustc_hir;
extern crate rustc_interface;
extern crate rustc_middle;
extern crate rustc_span;

use rustc_driver::Compilation;
use rustc_hir::def::DefKind;
use rustc_hir::def_id::{DefId, LOCAL_CRATE};
use rustc_middle::mir::interpret::{AllocRange, GlobalAlloc, Scalar};
use rustc_middle::mir::{
    self, AggregateKind, BasicBlockData, Body, Const, ConstValue, Operand, Place, ProjectionElem,
    Rvalue, StatementKind, TerminatorKind,
};
use rustc_middle::ty::print::with_no_trimmed_paths;
use rustc_middle::ty::{self, Instance, Ty, TyCtxt, TypingEnv};
use rustc_span::Span;
use std::fmt::Write as _;

// ---------------------------------------------------------------- tiny JSON
enum J {
    Null,
    Bool(bool),
    Int(i128),
    Str(String),
    Arr(Vec<J>),
    Obj(Vec<(&'static str, J)>),
}

fn esc(s: &str, out: &mut String) {
    out.push('"');
    for c in s.chars() {
        match c {
            '"' => out.push_str("\\\""),
            '\\' => out.push_str("\\\\"),
            '\n' => out.push_str("\\n"),
            '\r' => out.push_str("\\r"),
            '\t' => out.push_str("\\t"),
            c if (c as u32) < 0x20 => {
                let _ = write!(out, "\\u{:04x}", c as u32);
            }
            c => out.push(c),
        }
    }
    out.push('"');
}

impl J {
    fn write(&self, out: &mut String) {
        match self {
            J::Null => out.push_str("null"),
            J::Bool(b) => out.push_str(if *b { "true" } else { "false" }),
            J::Int(i) => {
                let _ = write!(out, "{}", i);
            }
            J::Str(s) => esc(s, out),
            J::Arr(v) => {
                out.push('[');
                for (i, x) in v.iter().enumerate() {
                    if i > 0 {
                        out.push(',');
                    }
                    x.write(out);
                }
                out.push(']');
            }
            J::Obj(v) => {
                out.push('{');
                for (i, (k, x)) in v.iter().enumerate() {
                    if i > 0 {
                        out.push(',');
                    }
                    esc(k, out);
                    out.push(':');
                    x.write(out);
                }
                out.push('}');
            }
        }
    }
}

fn s<T: Into<String>>(x: T) -> J {
    J::Str(x.into())
}
fn hex(b: &[u8]) -> String {
    let mut o = String::with_capacity(b.len() * 2);
    for x in b {
        let _ = write!(o, "{:02x}", x);
    }
    o
}

// ---------------------------------------------------------------- dumper
struct Cx<'tcx> {
    tcx: TyCtxt<'tcx>,
}

impl<'tcx> Cx<'tcx> {
    fn path(&self, d: DefId) -> String {
        with_no_trimmed_paths!(self.tcx.def_path_str(d))
    }
    fn ty(&self, t: Ty<'tcx>) -> String {
        with_no_trimmed_paths!(format!("{}", t))
    }
    fn loc(&self, sp: Span) -> (String, i128, bool) {
        let exp = sp.from_expansion();
        let sp2 = sp.source_callsite();
        let sm = self.tcx.sess.source_map();
        let lo = sm.lookup_char_pos(sp2.lo());
        let f = match &lo.file.name {
            rustc_span::FileName::Real(r) => match r.local_path() {
                Some(p) => p.to_string_lossy().to_string(),
                None => format!("{:?}", lo.file.name),
            },
            o => format!("{:?}", o),
        };
        (f, lo.line as i128, exp)
    }
    fn line(&self, sp: Span) -> (i128, bool) {
        let (_, l, e) = self.loc(sp);
        (l, e)
    }

    fn place(&self, body: &Body<'tcx>, p: &Place<'tcx>) -> J {
        let mut proj = Vec::new();
        for (base, elem) in p.iter_projections() {
            let bty = base.ty(&body.local_decls, self.tcx);
            let j = match elem {
                ProjectionElem::Deref => s("*"),
                ProjectionElem::Field(f, _) => {
                    let mut name = format!("{}", f.index());
                    if let ty::Adt(adt, _) = bty.ty.kind() {
                        let v = match bty.variant_index {
                            Some(vi) => Some(adt.variant(vi)),
                            None if adt.is_struct() || adt.is_union() => {
                                Some(adt.non_enum_variant())
                            }
                            None => None,
                        };
                        if let Some(v) = v {
                            if f.index() < v.fields.len() {
                                name = v.fields[f].name.to_string();
                            }
                        }
                    }
                    J::Obj(vec![("f", s(name)), ("i", J::Int(f.index() as i128))])
                }
                ProjectionElem::Index(l) => J::Obj(vec![("ix", J::Int(l.index() as i128))]),
                ProjectionElem::ConstantIndex { offset, from_end, .. } => J::Obj(vec![
                    ("cix", J::Int(offset as i128)),
                    ("fe", J::Bool(from_end)),
                ]),
                ProjectionElem::Subslice { from, to, from_end } => J::Obj(vec![
                    ("sub", J::Arr(vec![J::Int(from as i128), J::Int(to as i128)])),
                    ("fe", J::Bool(from_end)),
                ]),
                ProjectionElem::Downcast(sym, vi) => {
                    let name = match sym {
                        Some(x) => x.to_string(),
                        None => match bty.ty.kind() {
                            ty::Adt(adt, _) => adt.variant(vi).name.to_string(),
                            _ => format!("{}", vi.index()),
                        },
                    };
                    J::Obj(vec![("dc", s(name)), ("vi", J::Int(vi.index() as i128))])
                }
                ProjectionElem::OpaqueCast(t) => J::Obj(vec![("oc", s(self.ty(t)))]),
                ProjectionElem::UnwrapUnsafeBinder(t) => J::Obj(vec![("ub", s(self.ty(t)))]),
            };
            proj.push(j);
        }
        J::Obj(vec![("l", J::Int(p.local.index() as i128)), ("p", J::Arr(proj))])
    }

    fn alloc_bytes(&self, alloc_id: rustc_middle::mir::interpret::AllocId, off: u64, len: u64) -> Option<Vec<u8>> {
        match self.tcx.try_get_global_alloc(alloc_id)? {
            GlobalAlloc::Memory(a) => {
                let a = a.inner();
                if (off + len) as usize > a.len() {
                    return None;
                }
                if !a.provenance().range_empty(
                    AllocRange { start: rustc_abi::Size::from_bytes(off), size: rustc_abi::Size::from_bytes(len) },
                    &self.tcx,
                ) {
                    return None;
                }
                Some(
                    a.inspect_with_uninit_and_ptr_outside_interpreter(off as usize..(off + len) as usize)
                        .to_vec(),
                )
            }
            GlobalAlloc::Static(_) => None,
            _ => None,
        }
    }

    fn type_size(&self, t: Ty<'tcx>) -> Option<u64> {
        let env = TypingEnv::fully_monomorphized();
        self.tcx.layout_of(env.as_query_input(t)).ok().map(|l| l.size.bytes())
    }

    // Value description of an evaluated constant.
    fn constval(&self, v: ConstValue, t: Ty<'tcx>, out: &mut Vec<(&'static str, J)>) {
        match v {
            ConstValue::Scalar(Scalar::Int(i)) => {
                let bits = i.to_bits_unchecked();
                let size = i.size().bytes();
                let signed = matches!(t.kind(), ty::Int(_));
                let val: i128 = if signed && size > 0 && size < 16 {
                    let sh = 128 - size * 8;
                    ((bits << sh) as i128) >> sh
                } else {
                    bits as i128
                };
                if let ty::Adt(adt, _) = t.kind() {
                    if adt.is_enum() {
                        for (vi, d) in adt.discriminants(self.tcx) {
                            if d.val == bits {
                                out.push(("variant", s(adt.variant(vi).name.to_string())));
                            }
                        }
                    }
                }
                if size == 16 && !signed && bits > i128::MAX as u128 {
                    out.push(("val_s", s(format!("{}", bits))));
                } else {
                    out.push(("val", J::Int(val)));
                }
            }
            ConstValue::Scalar(Scalar::Ptr(ptr, _)) => {
                let (prov, off) = ptr.into_raw_parts();
                let alloc_id = prov.alloc_id();
                // &[T; N] / &T with plain-data pointee: dump the bytes
                if let ty::Ref(_, inner, _) = t.kind() {
                    if let Some(sz) = self.type_size(*inner) {
                        if sz <= (1 << 20) {
                            if let Some(b) = self.alloc_bytes(alloc_id, off.bytes(), sz) {
                                if let ty::Adt(adt, _) = inner.kind() {
                                    if adt.is_enum() && b.len() <= 8 {
                                        let mut v: u128 = 0;
                                        for (i, x) in b.iter().enumerate() {
                                            v |= (*x as u128) << (8 * i);
                                        }
                                        for (vi, d) in adt.discriminants(self.tcx) {
                                            if d.val == v {
                                                out.push(("variant", s(adt.variant(vi).name.to_string())));
                                            }
                                        }
                                    }
                                }
                                out.push(("bytes", s(hex(&b))));
                            }
                        }
                    }
                }
                if let Some(GlobalAlloc::Static(d)) = self.tcx.try_get_global_alloc(alloc_id) {
                    out.push(("static", s(self.path(d))));
                }
                if let Some(GlobalAlloc::Function { instance }) = self.tcx.try_get_global_alloc(alloc_id) {
                    out.push(("fn", s(self.path(instance.def_id()))));
                }
            }
            ConstValue::ZeroSized => {
                if let ty::FnDef(d, _) = t.kind() {
                    out.push(("fn", s(self.path(*d))));
                } else {
                    out.push(("zst", J::Bool(true)));
                }
            }
            ConstValue::Slice { alloc_id, meta } => {
                // &str / &[u8]
                let elem = match t.kind() {
                    ty::Ref(_, inner, _) => match inner.kind() {
                        ty::Str => Some(1u64),
                        ty::Slice(e) => self.type_size(*e),
                        _ => None,
                    },
                    _ => None,
                };
                if let Some(es) = elem {
                    if let Some(b) = self.alloc_bytes(alloc_id, 0, es * meta) {
                        if let ty::Ref(_, inner, _) = t.kind() {
                            if matches!(inner.kind(), ty::Str) {
                                out.push(("str", s(String::from_utf8_lossy(&b).to_string())));
                            } else {
                                out.push(("bytes", s(hex(&b))));
                            }
                        }
                    }
                }
            }
            ConstValue::Indirect { alloc_id, offset } => {
                if let Some(sz) = self.type_size(t) {
                    if sz <= (1 << 20) {
                        if let Some(b) = self.alloc_bytes(alloc_id, offset.bytes(), sz) {
                            out.push(("bytes", s(hex(&b))));
                        }
                    }
                }
            }
        }
    }

    fn constant(&self, body_def: DefId, c: &Const<'tcx>) -> J {
        let mut o: Vec<(&'static str, J)> = Vec::new();
        let t = c.ty();
        o.push(("ty", s(self.ty(t))));
        if let Const::Unevaluated(u, _) = c {
            o.push(("name", s(self.path(u.def))));
            if u.promoted.is_some() {
                o.push(("promoted", J::Bool(true)));
            }
        }
        let env = TypingEnv::post_analysis(self.tcx, body_def);
        match c {
            Const::Val(v, t) => self.constval(*v, *t, &mut o),
            Const::Unevaluated(..) | Const::Ty(..) => {
                if let Ok(v) = c.eval(self.tcx, env, rustc_span::DUMMY_SP) {
                    self.constval(v, t, &mut o);
                }
            }
        }
        if !o.iter().any(|(k, _)| *k == "fn") {
            if let ty::FnDef(d, _) = t.kind() {
                o.push(("fn", s(self.path(*d))));
            }
        }
        J::Obj(vec![("c", J::Obj(o))])
    }

    fn operand(&self, body_def: DefId, body: &Body<'tcx>, op: &Operand<'tcx>) -> J {
        match op {
            Operand::Copy(p) => J::Obj(vec![("cp", self.place(body, p))]),
            Operand::Move(p) => J::Obj(vec![("mv", self.place(body, p))]),
            Operand::Constant(c) => self.constant(body_def, &c.const_),
            #[allow(unreachable_patterns)]
            _ => J::Obj(vec![("other", J::Bool(true))]),
        }
    }

    fn rvalue(&self, body_def: DefId, body: &Body<'tcx>, rv: &Rvalue<'tcx>) -> J {
        let op = |o: &Operand<'tcx>| self.operand(body_def, body, o);
        match rv {
            Rvalue::Use(o, ..) => J::Obj(vec![("use", op(o))]),
            Rvalue::Repeat(o, n) => J::Obj(vec![("repeat", J::Arr(vec![op(o), s(format!("{}", n))]))]),
            Rvalue::Ref(_, bk, p) => {
                let m = match bk {
                    mir::BorrowKind::Mut { .. } => "mut",
                    mir::BorrowKind::Shared => "shr",
                    mir::BorrowKind::Fake(_) => "fake",
                };
                J::Obj(vec![("ref", J::Arr(vec![s(m), self.place(body, p)]))])
            }
            Rvalue::RawPtr(k, p) => {
                J::Obj(vec![("rawptr", J::Arr(vec![s(format!("{:?}", k)), self.place(body, p)]))])
            }
            Rvalue::Cast(k, o, t) => {
                let ks = format!("{:?}", k);
                let ks = ks.split('(').next().unwrap_or("").to_string();
                J::Obj(vec![("cast", J::Arr(vec![s(ks), op(o), s(self.ty(*t))]))])
            }
            Rvalue::BinaryOp(b, ops) => {
                J::Obj(vec![("bin", J::Arr(vec![s(format!("{:?}", b)), op(&ops.0), op(&ops.1)]))])
            }
            Rvalue::UnaryOp(u, o) => J::Obj(vec![("un", J::Arr(vec![s(format!("{:?}", u)), op(o)]))]),
            Rvalue::Discriminant(p) => {
                let mut o = vec![("discr", self.place(body, p))];
                let pty = p.ty(&body.local_decls, self.tcx).ty;
                if let ty::Adt(adt, _) = pty.kind() {
                    if adt.is_enum() && adt.variants().len() <= 80 {
                        let mut vs = Vec::new();
                        for (vi, d) in adt.discriminants(self.tcx) {
                            vs.push(J::Arr(vec![J::Str(format!("{}", d.val)), s(adt.variant(vi).name.to_string())]));
                        }
                        o.push(("variants", J::Arr(vs)));
                        o.push(("enum", s(self.path(adt.did()))));
                    }
                }
                J::Obj(o)
            }
            Rvalue::CopyForDeref(p) => J::Obj(vec![("use", J::Obj(vec![("cp", self.place(body, p))]))]),
            Rvalue::Aggregate(k, ops) => {
                let kind = match &**k {
                    AggregateKind::Array(_) => s("array"),
                    AggregateKind::Tuple => s("tuple"),
                    AggregateKind::Adt(d, vi, _, _, _) => {
                        let adt = self.tcx.adt_def(*d);
                        let v = adt.variant(*vi);
                        let fields: Vec<J> = v.fields.iter().map(|f| s(f.name.to_string())).collect();
                        J::Obj(vec![
                            ("adt", s(self.path(*d))),
                            ("variant", s(v.name.to_string())),
                            ("fields", J::Arr(fields)),
                        ])
                    }
                    AggregateKind::Closure(d, _) => J::Obj(vec![("closure", s(self.path(*d)))]),
                    AggregateKind::Coroutine(d, _) => J::Obj(vec![("coroutine", s(self.path(*d)))]),
                    AggregateKind::CoroutineClosure(d, _) => J::Obj(vec![("coroutine", s(self.path(*d)))]),
                    AggregateKind::RawPtr(..) => s("rawptr"),
                };
                J::Obj(vec![("agg", J::Arr(vec![kind, J::Arr(ops.iter().map(|o| op(o)).collect())]))])
            }
            Rvalue::ThreadLocalRef(d) => J::Obj(vec![("tls", s(self.path(*d)))]),
            Rvalue::WrapUnsafeBinder(o, _) => J::Obj(vec![("use", op(o))]),
        }
    }

    fn callee(&self, body_def: DefId, body: &Body<'tcx>, func: &Operand<'tcx>, o: &mut Vec<(&'static str, J)>) {
        if let Operand::Constant(c) = func {
            if let ty::FnDef(d, args) = c.const_.ty().kind() {
                let raw = self.path(*d);
                o.push(("raw", s(raw.clone())));
                let ga: Vec<J> = args.iter().filter_map(|a| a.as_type()).map(|t| s(self.ty(t))).collect();
                o.push(("ga", J::Arr(ga)));
                let env = TypingEnv::post_analysis(self.tcx, body_def);
                let mut resolved = false;
                let mut callee = raw;
                // try_resolve can ICE on args that still need normalisation in
                // polymorphic bodies; it is robust for the crates analysed here.
                if let Ok(Some(inst)) = Instance::try_resolve(self.tcx, env, *d, args) {
                    match inst.def {
                        ty::InstanceKind::Item(id) => {
                            callee = self.path(id);
                            resolved = true;
                        }
                        ty::InstanceKind::Virtual(..) => {}
                        other => {
                            callee = self.path(other.def_id());
                            resolved = true;
                            o.push(("shim", s(format!("{:?}", other).split('(').next().unwrap_or("").to_string())));
                        }
                    }
                }
                o.push(("callee", s(callee)));
                o.push(("resolved", J::Bool(resolved)));
                // trait of the raw method, if any
                if let Some(tr) = self.tcx.trait_of_assoc(*d) {
                    o.push(("trait", s(self.path(tr))));
                }
                return;
            }
        }
        o.push(("callee", J::Null));
        o.push(("fptr", self.operand(body_def, body, func)));
    }

    fn block(&self, body_def: DefId, body: &Body<'tcx>, bb: &BasicBlockData<'tcx>) -> J {
        let mut stmts = Vec::new();
        for st in &bb.statements {
            let (ln, exp) = self.line(st.source_info.span);
            match &st.kind {
                StatementKind::Assign(b) => {
                    let (p, rv) = &**b;
                    stmts.push(J::Obj(vec![
                        ("d", self.place(body, p)),
                        ("rv", self.rvalue(body_def, body, rv)),
                        ("ln", J::Int(ln)),
                        ("x", J::Bool(exp)),
                    ]));
                }
                StatementKind::SetDiscriminant { place, variant_index } => {
                    stmts.push(J::Obj(vec![
                        ("d", self.place(body, place)),
                        ("rv", J::Obj(vec![("setdiscr", J::Int(variant_index.index() as i128))])),
                        ("ln", J::Int(ln)),
                        ("x", J::Bool(exp)),
                    ]));
                }
                StatementKind::Intrinsic(i) => {
                    stmts.push(J::Obj(vec![
                        ("intrinsic", s(format!("{:?}", i).split('(').next().unwrap_or("").to_string())),
                        ("ln", J::Int(ln)),
                        ("x", J::Bool(exp)),
                    ]));
                }
                _ => {}
            }
        }
        let term = bb.terminator();
        let (ln, exp) = self.line(term.source_info.span);
        let mut t: Vec<(&'static str, J)> = Vec::new();
        let bbj = |b: mir::BasicBlock| J::Int(b.index() as i128);
        let unw = |u: &mir::UnwindAction| match u {
            mir::UnwindAction::Cleanup(b) => J::Int(b.index() as i128),
            _ => J::Null,
        };
        match &term.kind {
            TerminatorKind::Goto { target } => {
                t.push(("k", s("goto")));
                t.push(("target", bbj(*target)));
            }
            TerminatorKind::SwitchInt { discr, targets } => {
                t.push(("k", s("switch")));
                t.push(("on", self.operand(body_def, body, discr)));
                let mut tv = Vec::new();
                for (v, b) in targets.iter() {
                    tv.push(J::Arr(vec![J::Int(v as i128), bbj(b)]));
                }
                t.push(("targets", J::Arr(tv)));
                t.push(("otherwise", bbj(targets.otherwise())));
                // type of the discriminant, for sign interpretation
                t.push(("ty", s(self.ty(discr.ty(&body.local_decls, self.tcx)))));
            }
            TerminatorKind::Return => t.push(("k", s("return"))),
            TerminatorKind::Unreachable => t.push(("k", s("unreachable"))),
            TerminatorKind::UnwindResume => t.push(("k", s("resume"))),
            TerminatorKind::UnwindTerminate(_) => t.push(("k", s("abort"))),
            TerminatorKind::Drop { place, target, unwind, .. } => {
                t.push(("k", s("drop")));
                t.push(("place", self.place(body, place)));
                t.push(("target", bbj(*target)));
                t.push(("unwind", unw(unwind)));
            }
            TerminatorKind::Call { func, args, destination, target, unwind, fn_span, .. } => {
                t.push(("k", s("call")));
                self.callee(body_def, body, func, &mut t);
                t.push(("args", J::Arr(args.iter().map(|a| self.operand(body_def, body, &a.node)).collect())));
                t.push(("dst", self.place(body, destination)));
                t.push(("target", match target { Some(b) => bbj(*b), None => J::Null }));
                t.push(("unwind", unw(unwind)));
                let (fl, _) = self.line(*fn_span);
                t.push(("fln", J::Int(fl)));
            }
            TerminatorKind::TailCall { func, args, .. } => {
                t.push(("k", s("tailcall")));
                self.callee(body_def, body, func, &mut t);
                t.push(("args", J::Arr(args.iter().map(|a| self.operand(body_def, body, &a.node)).collect())));
            }
            TerminatorKind::Assert { cond, expected, msg, target, unwind } => {
                t.push(("k", s("assert")));
                t.push(("cond", self.operand(body_def, body, cond)));
                t.push(("expected", J::Bool(*expected)));
                let m = format!("{:?}", msg);
                t.push(("kind", s(m.split(|c| c == '(' || c == ' ' || c == '{').next().unwrap_or("").to_string())));
                t.push(("target", bbj(*target)));
                t.push(("unwind", unw(unwind)));
            }
            TerminatorKind::FalseEdge { real_target, .. } => {
                t.push(("k", s("goto")));
                t.push(("target", bbj(*real_target)));
            }
            TerminatorKind::FalseUnwind { real_target, .. } => {
                t.push(("k", s("goto")));
                t.push(("target", bbj(*real_target)));
            }
            other => {
                t.push(("k", s("other")));
                t.push(("dbg", s(format!("{:?}", other).chars().take(80).collect::<String>())));
            }
        }
        t.push(("ln", J::Int(ln)));
        t.push(("x", J::Bool(exp)));
        J::Obj(vec![("cleanup", J::Bool(bb.is_cleanup)), ("stmts", J::Arr(stmts)), ("term", J::Obj(t))])
    }

    fn function(&self, did: DefId) -> Option<J> {
        let tcx = self.tcx;
        let kind = tcx.def_kind(did);
        let kname = match kind {
            DefKind::Fn => "Fn",
            DefKind::AssocFn => "AssocFn",
            DefKind::Closure => "Closure",
            _ => return None,
        };
        if !tcx.is_mir_available(did) {
            return None;
        }
        let body = tcx.optimized_mir(did);
        let (file, lo, exp) = self.loc(body.span);
        let sm = tcx.sess.source_map();
        let hi = sm.lookup_char_pos(body.span.source_callsite().hi()).line as i128;
        let mut o: Vec<(&'static str, J)> = Vec::new();
        o.push(("path", s(self.path(did))));
        o.push(("kind", s(kname)));
        let parent = if kind == DefKind::Closure { Some(tcx.typeck_root_def_id(did)) } else { None };
        o.push(("parent", match parent { Some(p) => s(self.path(p)), None => J::Null }));
        o.push(("file", s(file)));
        o.push(("lo", J::Int(lo)));
        o.push(("hi", J::Int(hi)));
        o.push(("exp", J::Bool(exp)));
        let vis = if matches!(kind, DefKind::Fn | DefKind::AssocFn) {
            if tcx.visibility(did).is_public() { "pub" } else { "priv" }
        } else {
            "priv"
        };
        o.push(("vis", s(vis)));
        o.push(("generic", J::Bool(tcx.generics_of(did).requires_monomorphization(tcx))));
        o.push(("nargs", J::Int(body.arg_count as i128)));
        // impl-of info
        if kind == DefKind::AssocFn {
            if let Some(imp) = tcx.impl_of_assoc(did) {
                let self_ty = tcx.type_of(imp).instantiate_identity().skip_norm_wip();
                o.push(("impl_for", s(self.ty(self_ty))));
                if let Some(tr) = tcx.impl_opt_trait_ref(imp) {
                    o.push(("impl_trait", s(self.path(tr.skip_binder().def_id))));
                }
            }
        }
        // attributes of interest: #[test] fns are not compiled in check (no cfg(test))
        let mut names: Vec<Option<String>> = vec![None; body.local_decls.len()];
        for vdi in &body.var_debug_info {
            if let mir::VarDebugInfoContents::Place(p) = &vdi.value {
                if p.projection.is_empty() {
                    names[p.local.index()] = Some(vdi.name.to_string());
                }
            }
        }
        let mut locals = Vec::new();
        for (i, ld) in body.local_decls.iter_enumerated() {
            let mut l: Vec<(&'static str, J)> = vec![("ty", s(self.ty(ld.ty)))];
            if let Some(n) = &names[i.index()] {
                l.push(("name", s(n.clone())));
            }
            if ld.mutability.is_mut() {
                l.push(("mut", J::Bool(true)));
            }
            locals.push(J::Obj(l));
        }
        o.push(("locals", J::Arr(locals)));
        // upvar debug names for closures (place = _1.field)
        let mut upv = Vec::new();
        for vdi in &body.var_debug_info {
            if let mir::VarDebugInfoContents::Place(p) = &vdi.value {
                if !p.projection.is_empty() {
                    upv.push(J::Obj(vec![("name", s(vdi.name.to_string())), ("place", self.place(body, p))]));
                }
            }
        }
        o.push(("dbg_places", J::Arr(upv)));
        let mut blocks = Vec::new();
        for bb in body.basic_blocks.iter() {
            blocks.push(self.block(did, body, bb));
        }
        o.push(("blocks", J::Arr(blocks)));
        Some(J::Obj(o))
    }

    fn const_item(&self, did: DefId) -> Option<J> {
        let tcx = self.tcx;
        let kind = tcx.def_kind(did);
        let is_static = matches!(kind, DefKind::Static { .. });
        if !matches!(kind, DefKind::Const { .. } | DefKind::AssocConst { .. }) && !is_static {
            return None;
        }
        if tcx.generics_of(did).requires_monomorphization(tcx) {
            return None;
        }
        let t = tcx.type_of(did).instantiate_identity().skip_norm_wip();
        let mut o: Vec<(&'static str, J)> = Vec::new();
        o.push(("path", s(self.path(did))));
        o.push(("ty", s(self.ty(t))));
        let (file, lo, _) = self.loc(tcx.def_span(did));
        o.push(("file", s(file)));
        o.push(("line", J::Int(lo)));
        o.push(("static", J::Bool(is_static)));
        if is_static {
            if let Ok(alloc) = tcx.eval_static_initializer(did) {
                let a = alloc.inner();
                if a.provenance().ptrs().is_empty() && a.len() <= (1 << 20) {
                    o.push(("bytes", s(hex(a.inspect_with_uninit_and_ptr_outside_interpreter(0..a.len())))));
                }
            }
        } else if let Ok(v) = tcx.const_eval_poly(did) {
            self.constval(v, t, &mut o);
        }
        Some(J::Obj(o))
    }

    fn adt(&self, did: DefId) -> Option<J> {
        let tcx = self.tcx;
        let kind = tcx.def_kind(did);
        if !matches!(kind, DefKind::Struct | DefKind::Enum | DefKind::Union) {
            return None;
        }
        let adt = tcx.adt_def(did);
        let mut vars = Vec::new();
        for (vi, v) in adt.variants().iter_enumerated() {
            let discr = if adt.is_enum() {
                J::Str(format!("{}", adt.discriminant_for_variant(tcx, vi).val))
            } else {
                J::Null
            };
            let fields: Vec<J> = v
                .fields
                .iter()
                .map(|f| {
                    let ft = tcx.type_of(f.did).instantiate_identity().skip_norm_wip();
                    J::Obj(vec![
                        ("name", s(f.name.to_string())),
                        ("ty", s(self.ty(ft))),
                        ("pub", J::Bool(f.vis.is_public())),
                    ])
                })
                .collect();
            vars.push(J::Obj(vec![("name", s(v.name.to_string())), ("discr", discr), ("fields", J::Arr(fields))]));
        }
        let (file, lo, _) = self.loc(tcx.def_span(did));
        Some(J::Obj(vec![
            ("path", s(self.path(did))),
            ("kind", s(format!("{:?}", kind))),
            ("pub", J::Bool(tcx.visibility(did).is_public())),
            ("file", s(file)),
            ("line", J::Int(lo)),
            ("variants", J::Arr(vars)),
        ]))
    }

    fn impl_item(&self, did: DefId) -> Option<J> {
        let tcx = self.tcx;
        if !matches!(tcx.def_kind(did), DefKind::Impl { .. }) {
            return None;
        }
        let self_ty = tcx.type_of(did).instantiate_identity().skip_norm_wip();
        let tr = tcx.impl_opt_trait_ref(did).map(|t| self.path(t.skip_binder().def_id));
        let mut methods = Vec::new();
        for item in tcx.associated_items(did).in_definition_order() {
            if matches!(item.kind, ty::AssocKind::Fn { .. }) {
                methods.push(J::Obj(vec![("name", s(item.name().to_string())), ("path", s(self.path(item.def_id)))]));
            }
        }
        let (file, lo, exp) = self.loc(tcx.def_span(did));
        Some(J::Obj(vec![
            ("trait", match tr { Some(t) => s(t), None => J::Null }),
            ("for", s(self.ty(self_ty))),
            ("methods", J::Arr(methods)),
            ("file", s(file)),
            ("line", J::Int(lo)),
            ("exp", J::Bool(exp)),
        ]))
    }
}

struct Cb;

impl rustc_driver::Callbacks for Cb {
    fn after_analysis<'tcx>(&mut self, _c: &rustc_interface::interface::Compiler, tcx: TyCtxt<'tcx>) -> Compilation {
        let krate = tcx.crate_name(LOCAL_CRATE).to_string();
        let wanted = std::env::var("MIRFACTS_CRATES").unwrap_or_default();
        if !wanted.split(',').any(|w| w == krate) {
            return Compilation::Continue;
        }
        let outdir = match std::env::var("MIRFACTS_OUT") {
            Ok(o) => o,
            Err(_) => return Compilation::Continue,
        };
        let cx = Cx { tcx };
        let mut fns = Vec::new();
        let mut consts = Vec::new();
        let mut adts = Vec::new();
        let mut impls = Vec::new();
        let items = tcx.hir_crate_items(());
        for ld in items.definitions() {
            let did = ld.to_def_id();
            match tcx.def_kind(did) {
                DefKind::Fn | DefKind::AssocFn | DefKind::Closure => {
                    if tcx.hir_maybe_body_owned_by(ld).is_some() {
                        if let Some(j) = cx.function(did) {
                            fns.push(j);
                        }
                    }
                }
                DefKind::Const { .. } | DefKind::AssocConst { .. } | DefKind::Static { .. } => {
                    if let Some(j) = cx.const_item(did) {
                        consts.push(j);
                    }
                }
                DefKind::Struct | DefKind::Enum | DefKind::Union => {
                    if let Some(j) = cx.adt(did) {
                        adts.push(j);
                    }
                }
                DefKind::Impl { .. } => {
                    if let Some(j) = cx.impl_item(did) {
                        impls.push(j);
                    }
                }
                _ => {}
            }
        }
        // closures (and inline consts) are nested bodies, not item-likes
        for ld in items.nested_bodies() {
            let did = ld.to_def_id();
            if matches!(tcx.def_kind(did), DefKind::Closure) {
                if let Some(j) = cx.function(did) {
                    fns.push(j);
                }
            }
        }
        let nf = fns.len();
        let top = J::Obj(vec![
            ("crate", s(krate.clone())),
            ("toolchain", s(option_env!("CFG_VERSION").unwrap_or("nightly").to_string())),
            ("nfns", J::Int(nf as i128)),
            ("consts", J::Arr(consts)),
            ("adts", J::Arr(adts)),
            ("impls", J::Arr(impls)),
            ("fns", J::Arr(fns)),
        ]);
        let mut out = String::new();
        top.write(&mut out);
        let path = format!("{}/{}.json", outdir, krate);
        let tmp = format!("{}.tmp{}", path, std::process::id());
        std::fs::write(&tmp, out).expect("mirfacts: write");
        std::fs::rename(&tmp, &path).expect("mirfacts: rename");
        eprintln!("mirfacts: wrote {} ({} fns)", path, nf);
        Compilation::Continue
    }
}

fn main() {
    let mut args: Vec<String> = std::env::args().collect();
    // RUSTC_WORKSPACE_WRAPPER: argv[1] is the real rustc path
    if args.len() > 1 && (args[1].ends_with("rustc") || args[1].contains("/rustc")) {
        args.remove(1);
    }
    rustc_driver::run_compiler(&args, &mut Cb);
}
