"""Shared recognition of allocator storage effects (used by C04, C12, C13, C14)."""
from lib import mir
from lib.mir import strip, show, canon_atom

VEC_OF = {"u8_vec": "heap", "atom_vec": "atoms", "pair_vec": "pairs"}
GHOST_OF = {"ghost_heap": "heap", "ghost_atoms": "atoms", "ghost_pairs": "pairs"}
GROW_METHODS = {
    "push", "extend_from_slice", "extend_from_within", "extend", "append", "insert", "resize",
    "resize_with", "push_within_capacity", "extend_one", "splice", "set_len",
}
SHRINK_METHODS = {"truncate", "pop", "clear", "drain", "remove", "swap_remove", "split_off", "retain"}
NEUTRAL_METHODS = {"reserve", "reserve_exact", "len", "is_empty", "capacity", "as_slice", "as_ptr", "iter",
                   "index", "deref", "get", "first", "last", "shrink_to_fit", "try_reserve"}
ERR_OF = {"heap": "OutOfMemory", "atoms": "TooManyAtoms", "pairs": "TooManyPairs"}


def method_name(callee):
    return (callee or "").split("::")[-1]


def storage_field_of_arg(f, op):
    """if operand is &mut self.<storage vec> (through deref_mut etc.) return field name"""
    e = strip(f.expr_op(op))
    for x in mir.walk(e):
        if x[0] == "field" and x[2] in VEC_OF:
            return x[2]
    return None


def self_field(e):
    """expression is a read of self.<field> -> field name"""
    e = strip(e)
    if e[0] == "field":
        return e[2]
    return None


class Effect:
    def __init__(self, fn, b, idx, kind, resource, field, amount, amount_s, line, sign=1, what=""):
        self.fn, self.b, self.idx = fn, b, idx
        self.kind = kind  # 'vec-grow' | 'ghost-add' | 'ghost-sub' | 'vec-shrink' | 'ghost-set'
        self.resource = resource
        self.field = field
        self.amount = amount  # expression or None
        self.amount_s = amount_s  # canonical string
        self.line = line
        self.what = what

    @property
    def site(self):
        return f"{self.fn.file}:{self.line}"

    def key(self):
        return f"{self.fn.path}|{self.what}"


def spliceable(g):
    """a PRIVATE method of Allocator whose effects on counted storage are ghost-counter updates on its success path only
    (no loop, no effect in an error block): its callers account for it (effects() places its effects at the call)"""
    if g is None or g.d.get("vis") != "priv" or g.d.get("impl_for") != "allocator::Allocator":
        return False
    sub = effects(g, 3)
    if not sub:
        return False
    g.status()
    inl = set()
    for body in g.loops().values():
        inl |= body
    return all(not g.is_error_block(e.b) and e.b not in inl and e.kind in ("ghost-add", "ghost-sub", "ghost-set") for e in sub)


def effects(f, _depth=0):
    """all effects of function f on counted allocator storage.  A call of a PRIVATE method of Allocator whose own
    effects all lie on its success path (none in an error block, none in a loop) is replaced by those effects, placed at
    the call: extracting a few accounting lines into a private helper must not change any verdict."""
    out = []
    for b in sorted(f.idom().keys()):
        for i, st in enumerate(f.stmts(b)):
            d = st.get("d")
            if not d:
                continue
            fl = mir.place_fields(d)
            if fl and fl[-1] in GHOST_OF and len(fl) == 1:
                field = fl[-1]
                e = strip(f.expr_rvalue(st["rv"]))
                res = GHOST_OF[field]
                if e[0] in ("bin", "chk") and e[1] in ("Add", "Sub") and self_field(e[2]) == field:
                    kind = "ghost-add" if e[1] == "Add" else "ghost-sub"
                    out.append(Effect(f, b, i, kind, res, field, e[3], canon_atom(e[3]), st["ln"],
                                      what=f"self.{field} {'+=' if e[1]=='Add' else '-='} {canon_atom(e[3])}"))
                else:
                    out.append(Effect(f, b, i, "ghost-set", res, field, e, show(e), st["ln"],
                                      what=f"self.{field} = {show(e)}"))
            elif fl and fl[-1] in VEC_OF and len(fl) == 1 and not any(p == "*" for p in d["p"][1:]):
                # direct assignment of the vector field (constructor / replacement)
                out.append(Effect(f, b, i, "vec-set", VEC_OF[fl[-1]], fl[-1], None, "?", st["ln"],
                                  what=f"self.{fl[-1]} = .."))
        t = f.term(b)
        if t["k"] == "call" and _depth < 3:
            g = f.crate.fns.get(t.get("callee")) if getattr(f, "crate", None) is not None else None
            if g is not None and g is not f and g.d.get("vis") == "priv" and g.d.get("impl_for") == "allocator::Allocator":
                sub = effects(g, _depth + 1)
                if sub:
                    g.status()
                    inl = set()
                    for body in g.loops().values():
                        inl |= body
                    if all(not g.is_error_block(e.b) and e.b not in inl and e.kind in ("ghost-add", "ghost-sub", "ghost-set") for e in sub):
                        for e in sub:
                            out.append(Effect(f, b, "T", e.kind, e.resource, e.field, e.amount, e.amount_s, t["ln"],
                                              what=e.what + f" [in {g.path.split('::')[-1]}]"))
        if t["k"] == "call" and t.get("args"):
            m = method_name(t.get("callee") or t.get("raw"))
            fld = None
            a0 = strip(f.expr_op(t["args"][0]))
            if a0[0] == "ref" and a0[1] == "mut":
                inner = strip(a0[2])
                if inner[0] == "field" and inner[2] in VEC_OF:
                    fld = inner[2]
            if fld:
                res = VEC_OF[fld]
                if m in GROW_METHODS:
                    amt, amt_s = grow_amount(f, m, t)
                    out.append(Effect(f, b, "T", "vec-grow", res, fld, amt, amt_s, t["ln"],
                                      what=f"self.{fld}.{m}(..)"))
                elif m in SHRINK_METHODS:
                    a = f.expr_op(t["args"][1]) if len(t["args"]) > 1 else None
                    out.append(Effect(f, b, "T", "vec-shrink", res, fld, a, canon_atom(a) if a else "?", t["ln"],
                                      what=f"self.{fld}.{m}(..)"))
                elif m in NEUTRAL_METHODS:
                    pass
                else:
                    out.append(Effect(f, b, "T", "vec-other", res, fld, None, m, t["ln"],
                                      what=f"self.{fld}.{m}(..) [unaudited &mut method]"))
    return out


def grow_amount(f, m, t):
    if m == "push":
        return (("const", 1, None, "usize"), "1")
    if m == "extend_from_slice" and len(t["args"]) > 1:
        a = strip(f.expr_op(t["args"][1]))
        if a[0] == "ref":
            a = a[2]
        return (a, "len(" + show(strip(a)) + ")")
    return (None, "?")


def all_effect_fns(crate):
    """functions (any module) that touch counted allocator storage"""
    res = {}
    for f in crate.fns.values():
        if "allocator::Allocator" not in " ".join(l["ty"] for l in f.locals[: f.nargs + 1]):
            continue
        ef = effects(f)
        if ef:
            res[f.path] = ef
    return res
