"""C02 — cost budget is sound, monotone and tight.

R02a  must-pass-through: in the run loop the test  cost > effective_max_cost -> CostExceeded  dominates the
      successful return and no cost update lies between the test and the return.
R02b  strictness: the three budget comparisons (run loop, check_cost, softfork declared cost) are exactly
      x - budget > 0; budget 0 means u64::MAX.
R02c  remaining budget: apply_op receives effective_max_cost - cost over the same two quantities the test
      compares, and hands its budget unchanged to Dialect::op; dialects hand it unchanged to operators.
R02d  check_cost discipline: every early check in an operator compares a plain copy of the function's cost
      accumulator (a value that reaches the charged cost additively) with the unmodified budget parameter;
      the accumulator is never decreased.
R02e  budget taint: a budget parameter flows only into (1) check_cost / comparisons whose taken edge is a
      CostExceeded error, (2) the budget parameter of a callee, (3) the audited softfork bookkeeping.
"""
from lib import mir, flagregion as fr
from lib.mir import strip, show, walk, compare_norm, show_norm, linear
from rules.c07 import is_test_fn

RP = "run_program::RunProgramContext::<'a, D>::"


def plain_local(f, op):
    """operand is a plain copy of a named local / parameter (through unnamed single-def copy temps): local index or None"""
    e = f.expr_op(op, deep=False)
    e = strip(e)
    if e[0] in ("var", "named"):
        return e[2]
    return None


def cost_accumulator(f):
    """the running-cost local of f, by role: the (non-parameter, u64) local handed to check_cost as its first argument at
    every call of check_cost in f.  Raises AnchorMissing when there is no such unique local."""
    cands = []
    for b, t in f.calls_to("cost::check_cost"):
        l = plain_local(f, t["args"][0])
        cands.append(l)
    ls = set(cands)
    if len(ls) != 1 or None in ls or f.local_ty(next(iter(ls))) != "u64":
        raise mir.AnchorMissing(f"{f.path}: the cost accumulator (the local every check_cost call receives) is not unique: {sorted(map(str, ls))}")
    return next(iter(ls))


def budget_params(cr):
    """{fn path: set(param local)} — parameters that carry a budget.  Found by ROLE, not by name: a u64 parameter that is
    (a) the second argument of cost::check_cost, (b) compared in a test whose taken edge is a CostExceeded return, or
    (c) the third parameter of an operator (fn(&mut Allocator, NodePtr, Cost, ClvmFlags) -> Response) or the budget
    position of Dialect::op; then closed under "passed unchanged to / received unchanged from a budget parameter"."""
    B = {}

    def add(p, i):
        if i not in B.setdefault(p, set()):
            B[p].add(i)
            return True
        return False
    for f in cr.fns.values():
        if is_test_fn(f) or "{closure" in f.path:
            continue
        u64s = [i for i in range(1, f.nargs + 1) if f.local_ty(i) == "u64"]
        if not u64s:
            continue
        tys = [f.local_ty(i) for i in range(1, f.nargs + 1)]
        if f.nargs == 4 and tys[0].endswith("mut allocator::Allocator") and tys[1] == "allocator::NodePtr" and tys[2] == "u64" \
                and tys[3].endswith("ClvmFlags") and "reduction::Reduction" in f.local_ty(0):
            add(f.path, 3)
        if f.path.endswith("as dialect::Dialect>::op") and f.nargs >= 5 and f.local_ty(5) == "u64":
            add(f.path, 5)
        if f.path in ("run_program::run_program", RP + "run_program") and f.local_ty(f.nargs) == "u64":
            add(f.path, f.nargs)       # the public entry points: the last parameter is the caller's budget
        for b, t in f.calls_to("cost::check_cost"):
            l = plain_local(f, t["args"][1])
            if l in u64s:
                add(f.path, l)
        f.status()
        for b in f.reachable_blocks():
            if f.term(b)["k"] != "switch":
                continue
            be = f.bool_edges(b)
            if not be or not f.is_error_block(be[0]) or f.err_variants_from(be[0]) != {"CostExceeded"}:
                continue
            sh = strip(f.switch_cond(b, deep=False))
            if sh[0] == "bin" and sh[1] in ("Gt", "Ge", "Lt", "Le"):
                for side in (sh[2], sh[3]):
                    side = strip(side)
                    if side[0] in ("var", "named") and side[2] in u64s:
                        # the budget is the SMALLER side of a "too expensive" test: x > budget / budget < x
                        if (sh[1] in ("Gt", "Ge") and side is strip(sh[3])) or (sh[1] in ("Lt", "Le") and side is strip(sh[2])):
                            add(f.path, side[2])
    changed = True
    while changed:
        changed = False
        for p in list(B):
            f = cr.fns[p]
            for b, t in f.calls():
                c = t.get("callee")
                g = cr.fns.get(c)
                if g is None or is_test_fn(g):
                    continue
                for i, a in enumerate(t["args"]):
                    l = plain_local(f, a)
                    if l in B[p] and i + 1 <= g.nargs and g.local_ty(i + 1) == "u64":
                        changed |= add(c, i + 1)
        # backwards: a caller's u64 parameter handed unchanged to a budget parameter is a budget
        for f in cr.fns.values():
            if is_test_fn(f):
                continue
            for b, t in f.calls():
                c = t.get("callee")
                if c not in B:
                    continue
                for i, a in enumerate(t["args"]):
                    if (i + 1) in B[c]:
                        l = plain_local(f, a)
                        if l is not None and 1 <= l <= f.nargs and f.local_ty(l) == "u64":
                            changed |= add(f.path, l)
    return B


def cost_slot_locals(f):
    """locals that appear in the cost slot of a successful return (Reduction.0 / Ok(cost)) or are handed to a
    helper that builds the Reduction from a cost argument"""
    out = set()
    for b in f.reachable_blocks():
        for st in f.stmts(b):
            d = st.get("d")
            if d and d["l"] == 0 and not d["p"]:
                e = f.expr_rvalue(st["rv"], deep=False)
                for x in walk(e):
                    if x[0] == "agg" and x[1].endswith("Reduction") and x[2]:
                        for y in walk(f.expr_op_deepcost(x[2][0]) if hasattr(f, "expr_op_deepcost") else x[2][0]):
                            if y[0] in ("var", "named"):
                                out.add(y[2])
                    if x[0] == "agg" and x[1].endswith("Result::Ok") and x[2] and f.locals[0]["ty"].startswith("std::result::Result<u64"):
                        for y in walk(x[2][0]):
                            if y[0] in ("var", "named"):
                                out.add(y[2])
        t = f.term(b)
        if t["k"] == "call":
            c = t.get("callee") or ""
            # helpers that take the running cost and return the Response
            if c.split("::")[-1] in ("malloc_cost", "new_atom_and_cost") or (t["dst"]["l"] == 0 and "reduction::Reduction" in f.locals[0]["ty"]):
                for a in t["args"]:
                    l = plain_local(f, a)
                    if l is not None and f.local_ty(l) == "u64":
                        out.add(l)
    # close under additive flow: x in out and x = y + k  => y in out
    changed = True
    while changed:
        changed = False
        for l in list(out):
            for site in f.defs(l):
                rv = f.def_rvalue(site)
                if "call" in rv:
                    for a in rv["call"]["args"]:
                        la = plain_local(f, a)
                        if la is not None and f.local_ty(la) == "u64" and la not in out and (rv["call"].get("callee") or "").split("::")[-1] in (
                                "checked_add", "saturating_add", "wrapping_add", "malloc_cost"):
                            out.add(la)
                            changed = True
                    continue
                e = f.expr_rvalue(rv, deep=False)
                for y in walk(e):
                    if y[0] in ("var", "named") and f.local_ty(y[2]) == "u64" and y[2] not in out:
                        out.add(y[2])
                        changed = True
    return out


def run(ctx):
    ck = ctx.check
    cr = ctx.crate("default")
    ck.rule("R02a", "the budget test dominates the successful return of the run loop and no cost update lies between them")
    ck.rule("R02b", "the budget comparisons are strict (x - budget > 0); budget 0 means unlimited")
    ck.rule("R02c", "apply_op receives effective_max_cost - cost; budgets are forwarded unchanged to Dialect::op and to operators")
    ck.rule("R02d", "check_cost(accumulator, budget): first argument a plain copy of the value that is charged, second the unmodified budget parameter; accumulator never decreased")
    ck.rule("R02e", "a budget parameter only feeds CostExceeded comparisons and callee budget parameters")

    # ------------------------------------------------------------------ R02a / R02b / R02c (run loop)
    rp = cr.fn(RP + "run_program")
    ck.analysed(rp)
    rp.status()
    K = None
    for b in sorted(rp.reachable_blocks()):
        if rp.term(b)["k"] != "switch":
            continue
        n = compare_norm(rp.switch_cond(b))
        be = rp.bool_edges(b)
        if n and be and rp.is_error_block(be[0]) and "CostExceeded" in rp.err_variants_from(be[0]) and rp.in_loop(b):
            K = (b, n, be)
    if not K:
        # the same test written as  check_cost(cost, effective_max_cost)?  (strictness then rests on check_cost, R02b)
        for b, t in rp.calls_to("cost::check_cost"):
            q = rp.question_mark(b)
            if q and rp.in_loop(b) and rp.is_error_block(q[1]):
                a0 = mir.canon_atom(rp.expr_op(t["args"][0], deep=False))
                a1 = mir.canon_atom(rp.expr_op(t["args"][1], deep=False))
                K = (b, ({a0: 1, a1: -1}, 0, ">0"), (q[1], q[0]))
    if not K:
        raise mir.AnchorMissing("run loop: budget test not found")
    kb, kn, kbe = K
    B0 = budget_params(cr)
    # ---- roles in the run loop (no local names): COST = the value in the cost slot of the successful return; EFF = what it
    # is compared with; BUDGET = the caller's budget after the "0 means unlimited" substitution
    okb = [b for b in rp.reachable_blocks() if rp._last_ret.get(b) == "OK"]
    cost_l = None
    for b in okb:
        for st in rp.stmts(b):
            rv = st.get("rv", {})
            if st.get("d") and st["d"]["l"] == 0:
                for x in walk(rp.expr_rvalue(rv, deep=False)):
                    if x[0] == "agg" and x[1].endswith("Reduction") and x[2]:
                        y = strip(x[2][0])
                        if y[0] in ("var", "named"):
                            cost_l = y[2]
    if cost_l is None:
        raise mir.AnchorMissing("run loop: the successful return does not carry a local in Reduction's cost slot")
    sh = strip(rp.switch_cond(kb, deep=False)) if rp.term(kb)["k"] == "switch" else None
    eff_l = None
    if sh is not None and sh[0] == "bin":
        for side in (strip(sh[2]), strip(sh[3])):
            if side[0] in ("var", "named") and side[2] != cost_l:
                eff_l = side[2]
    else:
        t = rp.term(kb)
        eff_l = plain_local(rp, t["args"][1])
    keep = {cost_l: "COST"}
    if eff_l is not None:
        keep[eff_l] = "EFF"
    pbud = sorted(B0.get(rp.path, []))
    if rp.term(kb)["k"] == "switch":
        kn = compare_norm(rp.denamed(rp.switch_cond(kb, deep=False), keep))
    else:
        kn = ({"COST": 1, "EFF": -1}, 0, ">0") if plain_local(rp, rp.term(kb)["args"][0]) == cost_l else kn
    want = ({"COST": 1, "EFF": -1}, 0, ">0")
    ck.ob("R02b", RP + "run_program|loop test", kn == want, "the loop fails iff cost > effective budget (strict), where cost is the value returned",
          site=rp.where(kb), detail=show_norm(kn))
    hdrs = [h for h, body in rp.loops().items() if kb in body]
    hdr = max(hdrs, key=lambda h: len(rp.loops()[h])) if hdrs else None
    dom = bool(okb) and all(rp.dominates(kbe[1], b) for b in okb)
    # blocks between the test's success edge and the Ok return that do not go round the loop again
    fwd = rp.reach_from([kbe[1]], blocked={hdr})
    can_reach_ok = set()
    work = list(okb)
    while work:
        x = work.pop()
        if x in can_reach_ok or x == hdr:
            continue
        can_reach_ok.add(x)
        for p, _ in rp.pred(x):
            work.append(p)
    between = fwd & can_reach_ok
    upd = [site for site in rp.defs(cost_l) if site[0] in between]
    ck.ob("R02a", RP + "run_program|must-pass-through", dom and not upd,
          "every successful return is dominated by the budget test, with no cost update in between",
          site=rp.where(kb), detail={"ok_blocks": okb, "updates_between": [rp.where(s[0]) for s in upd]})
    ck.ob("R02a", RP + "run_program|returned cost", True, "the returned cost is the tested accumulator (COST is defined as the returned value and is the left side of the test)",
          site=rp.where(okb[0]) if okb else None, trivial=True)
    # budget 0 => unlimited: a test `budget parameter == 0` whose taken edge assigns u64::MAX
    zero_ok = False
    bud_l = None
    for b in sorted(rp.reachable_blocks()):
        if rp.term(b)["k"] == "switch":
            shz = strip(rp.switch_cond(b, deep=False))
            if shz[0] == "bin" and shz[1] == "Eq" and strip(shz[2])[0] in ("var", "named") and strip(shz[2])[2] in pbud \
                    and strip(shz[3])[0] == "const" and strip(shz[3])[1] == 0:
                be = rp.bool_edges(b)
                for st in rp.stmts(be[0]):
                    if "rv" in st and "use" in st["rv"] and "c" in st["rv"]["use"] and st["rv"]["use"]["c"].get("val") == 2 ** 64 - 1 and not st["d"]["p"]:
                        zero_ok = True
                        bud_l = st["d"]["l"]
    ck.ob("R02b", RP + "run_program|budget 0", zero_ok, "a budget of 0 is replaced by u64::MAX", site=rp.where(0))
    # the shadowing local may be copied once more into the user variable
    bud_ls = {bud_l} if bud_l is not None else set()
    for l in range(rp.nargs + 1, len(rp.locals)):
        if l == eff_l or l == cost_l or len(rp.defs(l)) != 1:
            continue
        for d_ in rp.defs(l):
            if d_[1] != "T" and "use" in rp.def_rvalue(d_) and mir.op_place(rp.def_rvalue(d_)["use"]) and mir.op_place(rp.def_rvalue(d_)["use"])["l"] in bud_ls:
                bud_ls.add(l)
    for l in bud_ls:
        keep[l] = "BUDGET"
    # EFF is either the innermost guard's expected cost or the caller's budget
    effdefs = sorted(show(rp.denamed(rp.expr_rvalue(rp.def_rvalue(s_), deep=False), keep)) for s_ in rp.defs(eff_l)) if eff_l is not None else []
    ck.ob("R02c", RP + "run_program|effective budget", len(effdefs) == 2 and any(d_.endswith(".expected_cost") or ".expected_cost" in d_ for d_ in effdefs) and "BUDGET" in effdefs,
          "the effective budget is the innermost guard's expected cost, else the caller's budget", site=rp.where(kb), detail=effdefs)
    ap = rp.calls_to(RP + "apply_op")
    okc = False
    det = None
    if len(ap) == 1:
        b, t = ap[0]
        a1 = show(rp.denamed(rp.expr_op(t["args"][1], deep=False), keep))
        a2 = linear(rp.denamed(rp.expr_op(t["args"][2], deep=False), keep))
        det = {"current cost": a1, "budget": str(a2)}
        okc = a1 == "COST" and a2 == ({"EFF": 1, "COST": -1}, 0)
    ck.ob("R02c", RP + "run_program|apply_op budget", okc, "apply_op receives (cost, effective budget - cost)", site=rp.where(ap[0][0]) if ap else None, detail=det)
    # apply_op -> Dialect::op
    af = cr.fn(RP + "apply_op")
    ck.analysed(af)
    abud = sorted(B0.get(af.path, []))
    dops = [(b, t) for b, t in af.calls() if (t.get("raw") or "").endswith("Dialect::op")]
    good = bool(dops) and len(abud) == 1
    dd = []
    for b, t in dops:
        dd.append([show(af.denamed(af.expr_op(a_, deep=False))) for a_ in t["args"]])
        good = good and len(t["args"]) >= 5 and plain_local(af, t["args"][4]) in abud
    ck.ob("R02c", RP + "apply_op|Dialect::op budget", good, "apply_op hands its budget parameter unchanged to the dialect (budget position of Dialect::op)",
          site=af.where(dops[0][0]) if dops else None, detail=dd)
    # softfork declared cost: a CostExceeded test  declared > budget  where declared comes from uint_atom
    sf = None
    for b in sorted(af.reachable_blocks()):
        if af.term(b)["k"] == "switch" and abud:
            shs = strip(af.switch_cond(b, deep=False))
            be = af.bool_edges(b)
            if shs[0] == "bin" and shs[1] in ("Gt", "Lt", "Ge", "Le") and be and af.is_error_block(be[0]) and af.err_variants_from(be[0]) == {"CostExceeded"}:
                n = compare_norm(af.denamed(af.switch_cond(b, deep=False), {abud[0]: "BUDGET"}))
                deep_other = show(af.switch_cond(b))
                if n and n[0].get("BUDGET") == -1 and len(n[0]) == 2:
                    sf = (b, n, "uint_atom" in deep_other)
    ck.ob("R02b", RP + "apply_op|softfork declared cost", sf is not None and sf[1][1] == 0 and sf[1][2] == ">0" and sf[2],
          "a softfork guard fails iff its declared cost (uint_atom of the first argument) > remaining budget (strict)", site=af.where(sf[0]) if sf else af.where(0),
          detail=show_norm(sf[1]) if sf else None)
    # ... and that test comes before ANY success of the softfork branch: every successful return that can be reached after the
    # declared cost was read (including the early `Ok(declared cost)` of an unknown / malformed softfork in consensus mode) lies
    # behind the test's pass edge - otherwise an unchecked caller-supplied u64 is returned as the cost
    uas = [b for b, t in af.calls() if (t.get("callee") or "").endswith("uint_atom")]
    late = []
    if sf is not None and uas:
        be = af.bool_edges(sf[0])
        af.status()
        from rules.c07 import forward_reach
        reach_u = set()
        for u in uas:
            if af.dominates(u, sf[0]):
                reach_u |= forward_reach(af, u)
        for r in sorted(reach_u):
            if af._last_ret.get(r) == "OK" and not (r == be[1] or af.dominates(be[1], r)):
                late.append(af.where(r))
    ck.ob("R02b", RP + "apply_op|softfork declared cost checked before any success", sf is not None and bool(uas) and not late,
          "no successful return of the softfork branch is reachable without passing the declared-cost test", site=af.where(sf[0]) if sf else af.where(0),
          detail={"successful returns not behind the test": late})
    # check_cost itself
    cc = cr.fn("cost::check_cost")
    ck.analysed(cc)
    ns = [compare_norm(cc.denamed(cc.switch_cond(b))) for b in cc.reachable_blocks() if cc.term(b)["k"] == "switch"]
    okcc = ns == [({"$1": 1, "$2": -1}, 0, ">0")]
    if okcc:
        b = [b for b in cc.reachable_blocks() if cc.term(b)["k"] == "switch"][0]
        be = cc.bool_edges(b)
        okcc = cc.is_error_block(be[0]) and cc.err_variants_from(be[0]) == {"CostExceeded"} and not cc.is_error_block(be[1])
    ck.ob("R02b", "cost::check_cost", okcc, "check_cost(cost, budget) fails iff cost > budget (strict) with CostExceeded", site=cc.where(0),
          detail=[show_norm(n) for n in ns])

    # ------------------------------------------------------------------ R02d / R02e
    B = B0
    nsites = 0
    for path in sorted(B):
        f = cr.fns[path]
        if path == "cost::check_cost":
            continue
        ck.analysed(f)
        slot = None
        # closures capturing the budget are analysed through their parent's call sites (none today)
        for b, t in f.calls_to("cost::check_cost"):
            if path == RP + "run_program":
                continue  # the loop test itself: R02a / R02b
            nsites += 1
            a0, a1 = t["args"][0], t["args"][1]
            l0, l1 = plain_local(f, a0), plain_local(f, a1)
            if slot is None:
                slot = cost_slot_locals(f)
            okA = l0 is not None and l0 in slot
            okB = l1 is not None and l1 in B[path]
            n_here = sum(1 for bb, _ in f.calls_to("cost::check_cost") if bb <= b)
            key = f"{path}|check_cost#{n_here}"
            ck.ob("R02d", key, okA and okB,
                  "check_cost(<plain copy of the charged accumulator>, <unmodified budget parameter>)",
                  site=f.where(b),
                  detail={"first": show(f.expr_op(a0, deep=False)), "second": show(f.expr_op(a1, deep=False)),
                          "accumulator reaches the charged cost": okA, "budget unmodified": okB,
                          **({} if okA else {"why": "the early check must compare what will be charged: a stricter check rejects budgets "
                                                    "between the real cost and the checked value (smallest succeeding budget != cost)"})})
        # accumulator monotone: no subtraction in any definition of a cost-slot local
        if slot is None:
            slot = cost_slot_locals(f) if "reduction::Reduction" in f.locals[0]["ty"] else set()
        for l in sorted(slot):
            if l <= f.nargs or not f.local_name(l):
                continue
            for site in f.defs(l):
                rv = f.def_rvalue(site)
                bad = False
                txt = ""
                if "bin" in rv and rv["bin"][0].startswith("Sub"):
                    bad, txt = True, show(f.expr_rvalue(rv, deep=False))
                elif "call" in rv and (rv["call"].get("callee") or "").split("::")[-1] in ("checked_sub", "wrapping_sub", "saturating_sub"):
                    bad, txt = True, rv["call"].get("callee")
                if bad:
                    ck.ob("R02d", f"{path}|{f.local_name(l)} decreased", False, "the cost accumulator is never decreased",
                          site=f.where(site[0]), detail=txt)
        # closures capturing the budget by reference: check them through the capture
        for b in f.reachable_blocks():
            for st in f.stmts(b):
                rv = st.get("rv", {})
                if "agg" in rv and isinstance(rv["agg"][0], dict) and "closure" in rv["agg"][0]:
                    cpath = rv["agg"][0]["closure"]
                    caps = []
                    for o in rv["agg"][1]:
                        e = strip(f.expr_op(o, deep=False))
                        base = strip(e[2]) if e[0] == "ref" else e
                        caps.append(base[2] if base[0] in ("var", "named") else None)
                    bud_ix = [i for i, l in enumerate(caps) if l in B[path]]
                    if not bud_ix or cpath not in cr.fns:
                        continue
                    g = cr.fns[cpath]
                    ck.analysed(g)
                    if slot is None:
                        slot = cost_slot_locals(f)
                    for cb, ct in g.calls_to("cost::check_cost"):
                        nsites += 1
                        ups = []
                        for a in ct["args"]:
                            e = strip(g.expr_op(a, deep=False))
                            ix = None
                            if e[0] == "deref" and e[1][0] == "field":
                                base = e[1][1]
                                if base[0] == "deref":
                                    base = base[1]
                                if base[0] == "var" and base[2] == 1 and e[1][2].isdigit():
                                    ix = int(e[1][2])
                            ups.append(ix)
                        okA = ups[0] is not None and ups[0] < len(caps) and caps[ups[0]] in slot
                        okB = ups[1] is not None and ups[1] in bud_ix
                        n_here = sum(1 for bb, _ in g.calls_to("cost::check_cost") if bb <= cb)
                        ck.ob("R02d", f"{cpath}|check_cost#{n_here}", okA and okB,
                              "check_cost(<captured accumulator>, <captured budget>) inside the closure",
                              site=g.where(cb), detail={"captures": [f.local_name(c) if c is not None else None for c in caps], "args": ups})
                    seeds = set()
                    for gb in g.reachable_blocks():
                        for gst in g.stmts(gb):
                            grv = gst.get("rv", {})
                            for o in mir.rvalue_operands(grv):
                                pl = mir.op_place(o)
                                if pl and pl["l"] == 1 and pl["p"] and isinstance(pl["p"][0], dict) and pl["p"][0].get("i") in bud_ix \
                                        and not gst["d"]["p"]:
                                    seeds.add(gst["d"]["l"])
                    badc = []
                    for sl in seeds:
                        badc += taint_uses(g, cr, sl, B)
                    ck.ob("R02e", f"{cpath}|captured budget", not badc, "the captured budget only feeds CostExceeded comparisons",
                          site=g.where(0), detail=badc or "ok")
        # R02e taint
        for bl in sorted(B[path]):
            bad = taint_uses(f, cr, bl, B)
            ck.ob("R02e", f"{path}|{f.local_name(bl)}", not bad,
                  "the budget only feeds CostExceeded comparisons and callee budgets (result, cost and error kind cannot depend on it otherwise)",
                  site=f.where(0), detail=bad or "ok")
    ck.floor("check_cost call sites in budget-taking functions", nsites, 50)


AUDITED_BUDGET_USES = {
    # (function, description)
    (RP + "apply_op", "SoftforkGuard.expected_cost"):
        "PreHardFork (cost-exempt) guards inherit the remaining budget as their expected cost; it is read only by the loop test and by the exit test, which is skipped for exempt guards",
}


def guard_cost_locals(f):
    """locals that are stored in SoftforkGuard.expected_cost (by role: the operand of that field in the aggregate)"""
    if hasattr(f, "_guard_cost_locals"):
        return f._guard_cost_locals
    out = set()
    for b in f.reachable_blocks():
        for st in f.stmts(b):
            rv = st.get("rv", {})
            if "agg" in rv and isinstance(rv["agg"][0], dict) and rv["agg"][0].get("adt", "").endswith("SoftforkGuard"):
                for fname, op in zip(rv["agg"][0]["fields"], rv["agg"][1]):
                    if fname == "expected_cost":
                        for y in walk(f.expr_op(op, deep=False)):
                            if y[0] in ("var", "named"):
                                out.add(y[2])
    f._guard_cost_locals = out
    return out


def taint_uses(f, cr, bl, B):
    """uses of budget local `bl` that are not allowed; returns list of descriptions"""
    bad = []
    tainted = {bl}
    pure = {bl}     # plain copies of the budget itself
    work = [bl]
    seen_stmt = set()
    while work:
        l = work.pop()
        for b in sorted(f.reachable_blocks()):
            for i, st in enumerate(f.stmts(b)):
                rv = st.get("rv")
                if not rv or (b, i) in seen_stmt:
                    continue
                ops = mir.rvalue_operands(rv)
                if not any(mir.op_place(o) and mir.op_place(o)["l"] == l for o in ops) and \
                        not any(pl["l"] == l for pl in mir.rvalue_places(rv)):
                    continue
                seen_stmt.add((b, i))
                d = st["d"]
                if "use" in rv or "cast" in rv or "ref" in rv:
                    if not d["p"] and d["l"] != 0:
                        if "use" in rv and l in pure:
                            pure.add(d["l"])
                        if d["l"] not in tainted:
                            tainted.add(d["l"])
                            work.append(d["l"])
                        continue
                if "bin" in rv and rv["bin"][0] in ("Gt", "Ge", "Lt", "Le"):
                    # result must only control a CostExceeded error
                    okc = comparison_only_cost_exceeded(f, d["l"], b)
                    if not okc:
                        bad.append(f"comparison {show(f.expr_rvalue(rv, deep=False))} at {f.where(b, st['ln'])} controls more than a CostExceeded return")
                    continue
                if "bin" in rv and rv["bin"][0] in ("Eq", "Ne"):
                    # `budget == 0` (budget 0 => unlimited, R02b): the tainted local itself compared with the constant 0
                    o1, o2 = rv["bin"][1], rv["bin"][2]
                    other = o2 if (mir.op_place(o1) and mir.op_place(o1)["l"] == l) else o1
                    if rv["bin"][0] == "Eq" and l in pure and mir.const_eval(f.expr_op(other, deep=False)) == 0:
                        continue
                if "agg" in rv and isinstance(rv["agg"][0], dict) and "closure" in rv["agg"][0]:
                    continue  # captured by a closure: analysed through the capture
                if "agg" in rv and isinstance(rv["agg"][0], dict) and rv["agg"][0].get("adt", "").endswith("SoftforkGuard"):
                    if (f.path, "SoftforkGuard.expected_cost") in AUDITED_BUDGET_USES:
                        continue
                if "bin" in rv and rv["bin"][0] in ("Sub", "SubWithOverflow", "SubUnchecked") and f.path == RP + "run_program":
                    # remaining budget: effective_max_cost - cost (R02c)
                    if not d["p"] and d["l"] not in tainted:
                        tainted.add(d["l"])
                        work.append(d["l"])
                    continue
                if d["p"] and not any(p == "*" for p in d["p"]) and d["l"] in tainted:
                    continue
                # everything else: the budget flows into a computation
                if f.path == RP + "apply_op" and (f.path, "SoftforkGuard.expected_cost") in AUDITED_BUDGET_USES:
                    # `let expected_cost = if PreHardFork { remaining budget } else { declared }` (audited)
                    if not d["p"] and (d["l"] in guard_cost_locals(f) or not f.local_name(d["l"])):
                        if d["l"] not in tainted:
                            tainted.add(d["l"])
                            work.append(d["l"])
                        continue
                bad.append(f"{show(f.expr_place(d, deep=False))} = {show(f.expr_rvalue(rv, deep=False))[:80]} at {f.where(b, st['ln'])}")
            t = f.term(b)
            if t["k"] == "call":
                for i, a in enumerate(t["args"]):
                    pl = mir.op_place(a)
                    if not pl or pl["l"] != l:
                        continue
                    c = t.get("callee") or t.get("raw") or ""
                    if c == "cost::check_cost" and i == 1:
                        continue
                    if c in B and (i + 1) in B[c]:
                        continue
                    if c.endswith("Dialect::op") or (t.get("raw") or "").endswith("Dialect::op"):
                        continue
                    if t.get("callee") is None and "fptr" in t:
                        # operator function pointer f(a, args, max_cost, flags)
                        if i == 2:
                            continue
                    if c.split("::")[-1] in ("checked_sub", "saturating_sub") and f.path == RP + "run_program":
                        continue
                    bad.append(f"passed to {c or 'indirect call'} (argument {i}) at {f.where(b)}")
            elif t["k"] == "switch":
                pl = mir.op_place(t["on"])
                if pl and pl["l"] == l and f.local_ty(l) != "bool":
                    bad.append(f"switch on budget-derived value at {f.where(b)}")
    return bad


def comparison_only_cost_exceeded(f, res_local, b):
    """the bool result of a budget comparison is used only by a switch one of whose edges is an error
    block yielding CostExceeded"""
    for sb in f.reachable_blocks():
        t = f.term(sb)
        if t["k"] != "switch":
            continue
        pl = mir.op_place(t["on"])
        if pl and pl["l"] == res_local:
            be = f.bool_edges(sb)
            if not be:
                return False
            for e in be:
                if f.is_error_block(e) and f.err_variants_from(e) <= {"CostExceeded"}:
                    return True
            return False
    return False
