"""C03 — evaluation is independent of heap history and atom representation (structural clauses).

R03a  the validated-BLS-point caches only ever hold valid encodings: every insertion inserts bytes that are
      the output of G?Element::to_bytes, or bytes whose G?Element::from_bytes succeeded on that path; the
      unconditional insert API (add_validated_g?) is called only by the negate operators, after a
      successful validate_g? of the same buffer (same `strict` condition) with only the sign-bit flip in
      between. (A cache that holds only valid encodings cannot change an outcome, whatever earlier —
      even failed — runs left in it.)
R03b  atoms compare and hash by their bytes (Atom's Hash / PartialEq / Borrow / Deref go through as_ref).
R03c  representation inventory: the functions that branch on HOW an atom is stored (inline small integer
      vs heap bytes) are exactly the audited ones; in each, the inline arm can only fail in ways the heap
      arm can fail.
R03d  randomness inventory: the callers of random sources are exactly the audited ones.
"""
from lib import mir
from lib.mir import strip, show, walk
from rules.c07 import is_test_fn, forward_reach
from rules.c27 import reach_assuming

A = "allocator::Allocator::"

REPR_AUDIT = {
    # accessor layer: this IS the representation abstraction
    "<allocator::ObjectType as std::fmt::Debug>::fmt": "derived Debug",
    A + "atom": "returns the same bytes for both forms (inline value re-encoded with len_for_value)",
    A + "atom_eq": "same-kind by bytes/value, mixed through bytes_eq_int (C14/R14e)",
    A + "atom_len": "len_for_value for the inline form",
    A + "checkpoint_node_status": "GC classification (C04/R04b)",
    A + "g1": "inline atoms are at most 4 bytes: never a 48-byte point",
    A + "g2": "inline atoms are at most 4 bytes: never a 96-byte point",
    A + "number": "value of both forms",
    A + "malachite_number": "value of both forms",
    A + "maybe_restore_with_node": "GC (C04/R04b)",
    A + "new_concat": "copies the bytes of either form",
    A + "new_substr": "slices either form (C12 finding: accounting differs)",
    A + "node": "the visitor that exposes the representation",
    A + "sexp": "atom/pair only",
    A + "small_number": "inline value, or fits_in_small_atom of the heap bytes: representation independent",
    "allocator::NodePtr::is_atom": "both atom forms are atoms",
    "allocator::NodePtr::is_pair": "both atom forms are atoms",
    "allocator::NodePtr::object_type": "decodes the tag",
    # fast paths (agreement with the generic path is C05)
    "more_ops::op_add": "u64 fast path / bignum slow path (C05/R05b)",
    "more_ops::op_add::{closure#0}": "fast path bails out on a heap atom",
    "more_ops::op_subtract": "fast path (C05/R05b)",
    "more_ops::op_subtract::{closure#0}": "fast path bails out on a heap atom",
    "more_ops::op_multiply": "fast path (C05/R05b)",
    "more_ops::op_gr": "fast path (C05/R05b)",
    "more_ops::op_sha256": "precomputed hashes for small inline values (C05/R05d)",
    "op_utils::i32_atom": "inline value vs i32_from_u8 of the bytes",
    "op_utils::int_atom": "inline value vs number_from_u8",
    "op_utils::malachite_int_atom": "inline value vs malachite_number_from_u8",
    "op_utils::uint_atom": "inline values are canonical non-negative; heap bytes are checked",
    "run_program::RunProgramContext::<'a, D>::eval_pair": "traverse_path_fast for inline paths (C05/R05b)",
    "<chia_dialect::ChiaDialect as dialect::Dialect>::gc_candidate": "GC candidates are one-byte opcodes (C04: the list is not a safety condition)",
    "serde::ser::node_to_stream": "serializes the same bytes for both forms",
    "treehash::tree_hash_costed": "hashes the same bytes; precomputed table for small inline values (C05/R05d)",
    "treehash::tree_hash": "hashes the same bytes",
    "serde::object_cache::treehash": "hashes the same bytes",
    "serde::object_cache::serialized_length": "same length for both forms",
}
RAND_AUDIT = {
    "more_ops::op_add": "index into the two split accumulators only (both are summed)",
    "more_ops::op_subtract": "index into the two split accumulators only (both are summed)",
    "serde::tree_cache::TreeCache::new": "hash salt (C19/R19b: never reaches output)",
    "<serde::identity_hash::RandomState as std::default::Default>::default": "hasher seed",
    "<serde::identity_hash::RandomState as std::hash::BuildHasher>::build_hasher": "hasher seed",
}
RAND_CALLEES = ("rand::rng", "rand::Rng::random_range", "rand::Rng::random", "rand::random", "rand::Rng::r#gen", "rand::Rng::gen_range",
                "std::hash::RandomState::new", "<std::hash::RandomState as std::default::Default>::default", "rand::thread_rng")


def run(ctx):
    ck = ctx.check
    cr = ctx.crate("default")
    ck.rule("R03a", "the validated-point caches only receive valid encodings, on every path")
    ck.rule("R03b", "Atom equality and hashing go through the bytes")
    ck.rule("R03c", "only audited functions branch on the storage form of an atom; the inline arm fails only as the heap arm can")
    ck.rule("R03d", "only audited functions draw random numbers")
    ck.assume("negating a valid compressed point (flipping the sign bit 0x20 of byte 0) yields a valid encoding; neither run hits an allocator limit")

    # ---------------------------------------------------------------- R03a
    n_ins = 0
    for f in sorted(cr.fns.values(), key=lambda x: x.path):
        if is_test_fn(f):
            continue
        for b, t in f.calls():
            c = t.get("callee") or ""
            if not (c.endswith("HashSet::<T, S, A>::insert") or c.endswith("HashSet::<T, S>::insert")) or not t.get("args"):
                continue
            tgt = show(f.expr_op(t["args"][0], deep=False))
            which = "g1" if "validated_g1_points" in tgt else ("g2" if "validated_g2_points" in tgt else None)
            if not which:
                continue
            n_ins += 1
            ck.analysed(f)
            val = f.expr_op(t["args"][1])
            vtxt = show(val, short=False)
            key = f"{f.path}|validated_{which}_points.insert"
            # chia_bls: G1Element = PublicKey, G2Element = Signature
            GS = ("G1Element", "PublicKey") if which == "g1" else ("G2Element", "Signature")
            G = GS[1]
            if any(x[0] == "call" and any(x[1].endswith(f"{g_}::to_bytes") for g_ in GS) for x in walk(val)):
                ck.ob("R03a", key, True, "inserted bytes are the encoding of a point object", site=f.where(b), detail="to_bytes(point)")
                continue
            # validated on this path?
            vshort = show(f.expr_op(t["args"][1], deep=False))
            okv = False
            for vb, vt in f.calls():
                vc = vt.get("callee") or ""
                if any(vc.endswith(f"{g_}::from_bytes") for g_ in GS) and vt.get("args"):
                    arg = show(f.expr_op(vt["args"][0], deep=False)).lstrip("&")
                    if arg != vshort:
                        continue
                    # result -> map_err -> ? : find the Continue edge
                    nb = vt["target"]
                    q = None
                    for x in [nb] + sorted(f.reach_from([nb])):
                        if f.term(x)["k"] == "call" and f.question_mark(x):
                            q = f.question_mark(x)
                            break
                        if len(f.succ_blocks(x)) != 1:
                            break
                    if q and f.is_error_block(q[1]) and f.dominates(q[0], b):
                        okv = True
            if okv:
                ck.ob("R03a", key, True, "insertion is dominated by a successful from_bytes of the same bytes", site=f.where(b), detail=f"{G}::from_bytes({vshort})? precedes")
                continue
            # parameter passed straight in: check every caller
            pl = mir.op_place(t["args"][1])
            e = strip(f.expr_op(t["args"][1], deep=False))
            if e[0] == "var" and e[2] <= f.nargs and e[2] >= 1:
                callers = [(g, cb) for g, cb in cr.callers_of(f.path) if not is_test_fn(g)]
                allok = bool(callers)
                det = []
                for g, cb in callers:
                    ck.analysed(g)
                    okc, why = caller_validated(cr, g, cb, which, e[2] - 1)
                    det.append(f"{g.path}@{g.where(cb)}: {why}")
                    allok = allok and okc
                ck.ob("R03a", key, allok, "every caller hands in a buffer it validated (same condition), modified only by the sign-bit flip",
                      site=f.where(b), detail=det)
                continue
            ck.ob("R03a", key, False, "inserted bytes are validated on this path", site=f.where(b),
                  detail={"value": vshort, "why": "an invalid encoding left in the cache (e.g. by a failed run) makes a later strict negate accept it"})
    ck.floor("validated-point cache insertions", n_ins, 6)
    # readers of the caches: contains only in validate_*
    readers = set()
    for f in cr.fns.values():
        if is_test_fn(f):
            continue
        for b, t in f.calls():
            if t.get("args") and "validated_g" in show(f.expr_op(t["args"][0], deep=False)):
                readers.add((f.path, (t.get("callee") or "").split("::")[-1]))
    ck.ob("R03a", "cache users", {m for _, m in readers} <= {"insert", "contains", "clear"},
          "the caches are only inserted into, queried and cleared", detail=sorted(readers))

    # ---------------------------------------------------------------- R03b
    for trait, method in (("std::hash::Hash", "hash"), ("std::cmp::PartialEq", "eq"), ("std::borrow::Borrow", "borrow"), ("std::ops::Deref", "deref")):
        h = None
        for im in cr.impls:
            if im["trait"] == trait and im["for"].startswith("allocator::Atom<"):
                for m in im["methods"]:
                    if m["name"] == method:
                        h = cr.fn(m["path"])
        if h is None:
            raise mir.AnchorMissing(f"impl {trait} for Atom not found")
        ck.analysed(h)
        callees = sorted((t.get("callee") or "?") for _, t in h.calls())
        ok = any(c.endswith("AsRef<[u8]>>::as_ref") for c in callees) and all(
            c.endswith("AsRef<[u8]>>::as_ref") or "[T]" in c or "[A]" in c or "[u8]" in c or c.startswith("core::slice") for c in callees)
        ck.ob("R03b", h.path, ok, f"Atom::{method} uses as_ref() and the slice implementation only", site=h.where(0), detail=callees)

    # ---------------------------------------------------------------- R03c
    n_sites = 0
    for f in sorted(cr.fns.values(), key=lambda x: x.path):
        if is_test_fn(f):
            continue
        sites = []
        for b in sorted(f.reachable_blocks()):
            dv = f.discr_variants(b)
            if not dv:
                continue
            vs = set(dv.values())
            if vs >= {"U32", "Buffer"} or vs >= {"SmallAtom", "Bytes"} or (vs & {"U32", "Buffer", "SmallAtom", "Bytes"} and
                                                                         f.discr_enum(b) in ("allocator::NodeVisitor", "allocator::ObjectType")):
                sites.append((b, dv))
        if not sites:
            continue
        n_sites += len(sites)
        ck.analysed(f)
        ck.ob("R03c", f.path, f.path in REPR_AUDIT,
              "branches on the storage form of an atom only in audited places", site=f.where(sites[0][0]),
              detail=REPR_AUDIT.get(f.path) or {
                  "why": "an unaudited match on NodeVisitor::U32/Buffer or ObjectType::SmallAtom/Bytes: the outcome may now depend on "
                         "whether an atom is stored inline, on the heap or as a substring view",
                  "audit needed": "show that both atom arms compute the same value, cost and errors, then add the function to REPR_AUDIT"})
        if f.path in REPR_AUDIT:
            f.status()
            for b, dv in sites:
                succ = f.succ(b)
                arms = {}
                for tgt, v in succ:
                    if v == "otherwise":
                        continue
                    others = set()
                    for t2, v2 in succ:
                        if t2 != tgt:
                            others |= forward_reach(f, t2)
                    reg = forward_reach(f, tgt) - others
                    errs = set()
                    for x in reg:
                        if f.is_error_block(x):
                            errs |= f.err_variants_from(x)
                    arms[dv[v]] = errs
                small = arms.get("U32", arms.get("SmallAtom"))
                heap = arms.get("Buffer", arms.get("Bytes"))
                if small is None or heap is None:
                    continue
                # allocator limits are outside the property ("as long as neither run hits an allocator count or heap limit")
                extra = {e for e in small if e not in heap and e not in ("CostExceeded", "?", "OutOfMemory", "TooManyAtoms", "TooManyPairs")}
                if f.path in (A + "g1", A + "g2"):
                    extra = set()  # inline atoms are never point-sized: they fail where only badly-sized heap atoms fail
                ck.ob("R03c", f"{f.path}|arms", not extra, "the inline-integer arm fails only with errors the heap arm can also produce",
                      site=f.where(b), detail={"inline": sorted(small), "heap": sorted(heap)})
    ck.floor("representation matches", n_sites, 22)

    # ---------------------------------------------------------------- R03d
    users = {}
    for f in cr.fns.values():
        if is_test_fn(f):
            continue
        for b, t in f.calls():
            c = t.get("callee") or t.get("raw") or ""
            r = t.get("raw") or ""
            if c in RAND_CALLEES or r in RAND_CALLEES or c.startswith("rand::") or r.startswith("rand::"):
                users.setdefault(f.path, set()).add(c)
    for p, cs in sorted(users.items()):
        ck.ob("R03d", p, p in RAND_AUDIT, "a random source is used only in audited places", site=cr.fns[p].where(0),
              detail=RAND_AUDIT.get(p) or {"callees": sorted(cs), "audit needed": "the drawn value must not influence result, cost or error"})
    ck.floor("random-source users", len(users), 3)
    # the drawn value in op_add / op_subtract is used only as an array index
    for p in ("more_ops::op_add", "more_ops::op_subtract"):
        f = cr.fn(p)
        okix = True
        uses = []
        for b, t in f.calls():
            if (t.get("raw") or "").endswith("Rng::random_range"):
                dl = t["dst"]["l"]
                for b2 in f.reachable_blocks():
                    for st in f.stmts(b2):
                        if not st.get("d"):
                            continue
                        if any(isinstance(pp, dict) and pp.get("ix") == dl for pp in st["d"]["p"]):
                            uses.append("index(dst)")
                        rv = st.get("rv", {})
                        for pl in mir.rvalue_places(rv) + [mir.op_place(o) for o in mir.rvalue_operands(rv)]:
                            if pl and pl["l"] == dl:
                                uses.append("value")
                            if pl and any(isinstance(pp, dict) and pp.get("ix") == dl for pp in pl["p"]):
                                uses.append("index")
                    tt = f.term(b2)
                    if tt["k"] == "call":
                        for a in tt["args"]:
                            pl = mir.op_place(a)
                            if pl and pl["l"] == dl:
                                uses.append("arg:" + (tt.get("callee") or "").split("::")[-1])
        bad = [u for u in uses if not (u.startswith("index") or u in ("arg:index_mut", "arg:index", "value"))]
        ck.ob("R03d", p + "|random index", bool(uses) and not [u for u in uses if u.startswith("arg:") and u not in ("arg:index_mut", "arg:index")],
              "the random number only selects one of the split accumulators", site=f.where(0), detail=sorted(set(uses)))


def caller_validated(cr, g, cb, which, argi):
    """call site cb in g of add_validated_<which>(buf): was `buf` validated under the same condition?"""
    t = g.term(cb)
    e = strip(g.expr_op(t["args"][argi + 1] if len(t["args"]) > argi + 1 else t["args"][-1], deep=False))
    if e[0] not in ("var", "named"):
        return False, "argument is not a plain buffer local"
    buf = e[2]
    vals = [(b, vt) for b, vt in g.calls_to(A + "validate_" + which)]
    if not vals:
        return False, "no validate_" + which + " call in the caller"
    ok = False
    why = "validation does not precede the insertion under the same condition"
    for vb, vt in vals:
        va = strip(g.expr_op(vt["args"][2], deep=False))
        if va[0] not in ("var", "named") or va[2] != buf:
            continue
        q = g.question_mark(vb)
        if not q:
            continue
        # under the assumption that every never-reassigned bool guarding the insertion holds, the insertion
        # must be unreachable once the validation's success edge is removed
        assume = {}
        for k in g.dominators(cb):
            tk = g.term(k)
            if tk["k"] == "switch" and tk.get("ty") == "bool":
                ee = strip(g.expr_op(tk["on"], deep=False))
                neg = False
                while ee[0] == "un" and ee[1] == "Not":
                    neg = not neg
                    ee = strip(ee[2])
                if ee[0] in ("var", "named") and len(g.defs(ee[2])) == 1:
                    be = g.bool_edges(k)
                    taken_true = g.dominates(be[0], cb) and be[0] != be[1]
                    assume[ee[2]] = (taken_true != neg)
        r = reach_assuming(g, 0, {q[0]}, assume)
        if cb not in r:
            ok = True
            why = f"validate_{which}({show(va)})? dominates (assuming {[g.local_name(l) for l in assume]})"
    if not ok:
        return False, why
    # writes to the buffer between validation and insertion: only  buf[0] ^= 0x20
    writes = []
    for b in g.reachable_blocks():
        for st in g.stmts(b):
            d = st.get("d")
            if d and d["l"] == buf and d["p"]:
                writes.append(show(g.expr_place(d, deep=False)) + " = " + show(g.expr_rvalue(st["rv"], deep=False)))
    okw = all(w.replace(" ", "") in (f"{g.local_name(buf)}[0]=({g.local_name(buf)}[0]BitXor32)",) for w in writes)
    return okw, why + ("; only the sign-bit flip modifies the buffer" if okw else f"; unexpected writes to the buffer: {writes}")
