"""C04 — heap reclamation (ENABLE_GC) is unobservable.

The gc-candidate list is not a safety condition (maybe_restore_with_node is value-safe for any
operator: a preserved pair created after the checkpoint aborts the restore), so the rules target
the restore and its accounting.

R04a  transparent restore is count-neutral: each vector's truncated amount moves into the matching
      ghost counter exactly once (shared with C12/R12b).
R04b  value-preserving restore, per verdict (T3): Aborted = nothing changed; NoReplace = one
      restore; Replace = one restore, ghost atoms -1 and exactly one re-created atom, heap
      compensated by the re-created length; node classification compares each kind with the
      checkpoint count of the same kind.
R04c  the interpreter consumes the verdict: the RestoreAllocator step pops exactly one checkpoint,
      passes it with the value-stack top, replaces the top iff the verdict is Replace (with the
      node the verdict carries), and charges 0; every checkpoint push is paired with one
      RestoreAllocator push placed below the operator's Apply.
R04d  ENABLE_GC is consulted only by gc_candidate, and a false answer means no checkpoint at all.
"""
from lib import mir
from lib.mir import strip, show, walk
from rules import c12, restore_common

RP = "run_program::RunProgramContext::<'a, D>::"


def pushes(f, field):
    """calls Vec::push / Vec::pop on self.<field>: list of (block, method, [arg exprs])"""
    out = []
    for b, t in f.calls():
        c = t.get("callee") or ""
        m = c.split("::")[-1]
        if "Vec::<T, A>::" not in c or not t["args"]:
            continue
        a0 = strip(f.expr_op(t["args"][0], deep=False))
        if any(x[0] == "field" and x[2] == field for x in walk(a0)):
            out.append((b, m, [f.expr_op(a) for a in t["args"][1:]]))
    return out


def run(ctx):
    ck = ctx.check
    cr = ctx.crate("default")
    ck.rule("R04a", "transparent restore is count-neutral and checkpoints cover every counter, matched by field")
    ck.rule("R12c", "reporters: count == vector length + ghost counter (shared with C12)")
    ck.rule("R04b", "value-preserving restore: per-verdict accounting; node classification by same-kind counts")
    ck.rule("R04c", "the interpreter pairs every checkpoint with one RestoreAllocator step and replaces the value-stack top iff the verdict is Replace")
    ck.rule("R04d", "ENABLE_GC is read only by gc_candidate; no checkpoint is taken unless it answers true")
    ck.assume("a restore never invalidates a node still referenced from the interpreter stacks other than the value-stack top (heap-shape invariant, not decided)")

    c12.check_restores(ck, cr, "R04a")
    restore_common.check_maybe_restore(ck, cr, "R04b")
    restore_common.check_node_status(ck, cr, "R04b")

    # ---- R04c (producer side): eval_op_atom
    ev = cr.fn(RP + "eval_op_atom")
    ck.analysed(ev)
    cps = pushes(ev, "allocator_stack")
    ops = pushes(ev, "op_stack")
    restores = [(b, a) for b, m, a in ops if m == "push" and a and "RestoreAllocator" in show(a[0])]
    applies = [(b, a) for b, m, a in ops if m == "push" and a and show(a[0]).startswith("Apply")]
    good = len(cps) == 1 and len(restores) == 1 and len(applies) == 1
    det = {"checkpoint_pushes": len(cps), "restore_pushes": len(restores), "apply_pushes": len(applies)}
    if good:
        cb, rb, ab = cps[0][0], restores[0][0], applies[0][0]
        arg = show(cps[0][2][0])
        det["checkpoint_value"] = arg
        good = ("transparent_checkpoint" in arg and ev.dominates(cb, rb) and ev.postdominates(rb, cb)
                and ab in ev.reach_from([rb]) and rb not in ev.reach_from([ab]))
        # the checkpoint is taken under gc_candidate == true only
        gate = None
        for k in ev.dominators(cb):
            if ev.term(k)["k"] == "switch":
                e = ev.switch_cond(k)
                if any(x[0] == "call" and x[1].endswith("gc_candidate") for x in walk(e)):
                    be = ev.bool_edges(k)
                    if be and ev.dominates(be[0], cb):
                        gate = k
        det["gated_by_gc_candidate"] = gate is not None
        good = good and gate is not None
    ck.ob("R04c", RP + "eval_op_atom|checkpoint+RestoreAllocator", good,
          "one transparent checkpoint push, immediately paired with one RestoreAllocator push placed below the Apply step, only when gc_candidate() is true",
          site=ev.where(cps[0][0]) if cps else ev.where(0), detail=det)

    # ---- R04c (consumer side): the run loop
    rp = cr.fn(RP + "run_program")
    ck.analysed(rp)
    mr = rp.calls_to("allocator::Allocator::maybe_restore_with_node")
    if len(mr) != 1:
        raise mir.AnchorMissing("run loop: call of maybe_restore_with_node not found exactly once")
    mb, mt = mr[0]
    a_cp = show(rp.expr_op(mt["args"][1]))
    a_top = show(rp.expr_op(mt["args"][2]))
    pops = [(b, m) for b, m, a in pushes(rp, "allocator_stack") if m == "pop"]
    ok = len(pops) == 1 and rp.dominates(pops[0][0], mb) and "pop(&mut self.allocator_stack)" in a_cp.replace("::pop", "pop") \
        and "last(" in a_top and "val_stack" in a_top
    ck.ob("R04c", RP + "run_program|arguments", ok,
          "the restore is asked with the popped checkpoint and the current value-stack top", site=rp.where(mb),
          detail={"checkpoint": a_cp[:160], "node": a_top[:160]})
    # the verdict switch
    sw = None
    for b in rp.reach_from([mb]):
        dv = rp.discr_variants(b)
        if dv and set(dv.values()) == {"NoReplace", "Replace", "Aborted"}:
            sw = (b, dv)
            break
    if not sw:
        raise mir.AnchorMissing("run loop: match on MaybeRestore not found")
    sb, dv = sw
    join = rp.ipdom().get(sb)
    for tgt, v in rp.succ(sb):
        if v == "otherwise":
            continue
        name = dv[v]
        region = rp.reach_from([tgt], blocked={join} if join is not None else ())
        vs = [(b, m, a) for b, m, a in pushes(rp, "val_stack") if b in region]
        ms = [m for _, m, _ in vs]
        if name == "Replace":
            pushed = [show(a[0]) for _, m, a in vs if m == "push"]
            ok = sorted(ms) == ["pop", "push"] and len(pushed) == 1 and "as Replace" in pushed[0] and \
                [m for _, m, _ in sorted(vs, key=lambda x: x[0] if rp.dominates(x[0], x[0]) else 0)] is not None
            # pop precedes push
            pb = [b for b, m, _ in vs if m == "pop"][0] if "pop" in ms else None
            qb = [b for b, m, _ in vs if m == "push"][0] if "push" in ms else None
            ok = ok and pb is not None and qb is not None and rp.dominates(pb, qb)
            ck.ob("R04c", RP + "run_program|Replace", ok,
                  "Replace(n): the value-stack top is popped and n (the node carried by the verdict) is pushed", site=rp.where(tgt),
                  detail={"val_stack_ops": ms, "pushed": pushed})
        else:
            others = []
            for b in region:
                t = rp.term(b)
                if t["k"] == "call" and "&mut" in " ".join(show(rp.expr_op(a, deep=False)) for a in t["args"][:1]):
                    others.append(t.get("callee"))
            ck.ob("R04c", RP + f"run_program|{name}", not vs and not others,
                  f"{name}: the stacks are left untouched", site=rp.where(tgt), detail={"val_stack_ops": ms, "mutating_calls": others})
    # the step charges 0: the value flowing to `cost +=` from this arm is the literal 0
    zero = False
    b = join
    for _ in range(24):
        if b is None or zero:
            break
        for st in rp.stmts(b):
            rv_ = st.get("rv", {})
            if "use" in rv_ and "c" in rv_["use"] and rv_["use"]["c"].get("val") == 0 and rv_["use"]["c"].get("ty") == "u64":
                zero = True
            # ... or `Ok(0)` that a `?` unwraps (the arm's work moved into a helper returning Result<Cost>)
            if "agg" in rv_ and isinstance(rv_["agg"][0], dict) and rv_["agg"][0].get("variant") == "Ok" and rv_["agg"][1] \
                    and "c" in rv_["agg"][1][0] and rv_["agg"][1][0]["c"].get("val") == 0 and rv_["agg"][1][0]["c"].get("ty") == "u64":
                zero = True
        nxt = rp.succ_blocks(b)
        if len(nxt) == 1:
            b = nxt[0]
        else:
            # the success arm of a `?`
            dv = rp.discr_variants(b) or {}
            cont = [tgt for tgt, v in rp.succ(b) if dv.get(v) == "Continue"]
            b = cont[0] if len(cont) == 1 else None
    ck.ob("R04c", RP + "run_program|cost", zero, "the RestoreAllocator step contributes 0 to the cost", site=rp.where(join) if join else None)

    # ---- R04d
    users = []
    for h in cr.fns.values():
        for b, t in h.calls():
            for a in t.get("args", []):
                if isinstance(a, dict) and "c" in a and (a["c"].get("name") or "").endswith("ClvmFlags::ENABLE_GC"):
                    users.append(h.path)
    users = sorted(set(u for u in users if "test" not in u))
    ck.ob("R04d", "ENABLE_GC readers", users == ["<chia_dialect::ChiaDialect as dialect::Dialect>::gc_candidate"],
          "ENABLE_GC is read by gc_candidate only", detail=users)
    g = cr.fn("<chia_dialect::ChiaDialect as dialect::Dialect>::gc_candidate")
    ck.analysed(g)
    # flag clear => false
    okg = False
    for b in sorted(g.reachable_blocks()):
        if g.term(b)["k"] == "switch":
            e = g.switch_cond(b)
            if any(x[0] == "const" and (x[2] or "").endswith("ENABLE_GC") for x in walk(e)):
                be = g.bool_edges(b)
                neg = strip(e)[0] == "un"
                clear_edge = be[0] if neg else be[1]
                vals = set()
                for bb in g.reach_from([clear_edge]):
                    for st in g.stmts(bb):
                        d = st.get("d")
                        if d and d["l"] == 0 and "use" in st["rv"] and "c" in st["rv"]["use"]:
                            vals.add(st["rv"]["use"]["c"].get("val"))
                okg = vals == {0}
            break
    ck.ob("R04d", g.path + "|flag clear", okg, "without ENABLE_GC gc_candidate() is false (no checkpoint, no restore)", site=g.where(0))
    rt = cr.fn("<runtime_dialect::RuntimeDialect as dialect::Dialect>::gc_candidate")
    vals = set()
    for bb in rt.reachable_blocks():
        for st in rt.stmts(bb):
            d = st.get("d")
            if d and d["l"] == 0 and "use" in st["rv"] and "c" in st["rv"]["use"]:
                vals.add(st["rv"]["use"]["c"].get("val"))
    ck.ob("R04d", rt.path, vals == {0}, "RuntimeDialect never takes checkpoints", site=rt.where(0), detail=sorted(vals))
