"""C05 — fast paths and diagnostic build features are unobservable (structural clauses).

R05a  gate inventory: the functions that contain `no-fastpath` cfg gates are exactly the audited ones.
R05b  fast/slow agreement (weak + strong where the code is parallel):
      * the inline-path lookup (traverse_path_fast) adds the zero-byte cost exactly for the bit counts at
        which a canonical positive integer needs a leading zero byte (num_bits + 1 a multiple of 8), and
        both lookups read the same three constants;
      * the u64 fast paths of op_add / op_subtract are the same program up to add<->sub, and in each the
        accumulator magnitude (limbs) is measured BEFORE the accumulator is updated (as in the generic
        loop);
      * op_gr's fast comparison is `>` on (arg0, arg1) in that order.
R05c  diagnostics are effect-confined: in the counters+pre-eval build, code on cfg-gated lines calls only
      accounting helpers / the user callbacks and writes only counter fields; everything on ungated lines
      is identical (same calls, same order) to the default build.
R05d  the table of precomputed hashes equals sha256(1 || minimal-encoding(n)) for every row, and both users
      index it under `val < len`.
R05e  the no-fastpath build differs from the default build only on cfg-gated lines.
"""
import hashlib
import os
import re
from lib import mir, sibling
from lib.mir import strip, show, walk, compare_norm, show_norm
from rules.c07 import is_test_fn

FASTPATH_AUDIT = {
    "run_program::RunProgramContext::<'a, D>::eval_pair": "inline path lookup (traverse_path_fast) for small-integer paths",
    "more_ops::op_sha256": "precomputed hashes of (1 || n)",
    "more_ops::op_add": "u64 fast path",
    "more_ops::op_subtract": "i64/u64 fast path",
    "more_ops::op_multiply": "u64 fast path per step",
    "more_ops::op_gr": "integer comparison of two inline atoms",
}
DIAG_ALLOWED_CALLEES = ("account_val_push", "account_env_push", "account_op_push", "update_max_counts", "::max", "::len", "Counters::new",
                        "::push", "::pop", "::unwrap", "::last", "::copied", "call_once", "call_mut", "::call", "::take", "::is_some",
                        "Vec::<T>::new", "::default", "::as_ref", "::deref", "::deref_mut", "Try>::branch", "::from_residual", "::clone", "::into", "::is_none",
                        "Option::<T>::map", "::expect")


def gate_ranges(ctx, feature_pat):
    """{file: [(lo, hi, attr)]} line ranges of items/statements/fields gated by cfg(feature_pat)"""
    out = {}
    srcdir = ctx.path("src")
    for root, dirs, files in os.walk(srcdir):
        for fn in files:
            if not fn.endswith(".rs"):
                continue
            p = os.path.join(root, fn)
            rel = os.path.relpath(p, ctx.repo)
            lines = open(p).read().split("\n")
            i = 0
            while i < len(lines):
                m = re.match(r"\s*#\[cfg\((.*)\)\]\s*$", lines[i])
                if m and re.search(feature_pat, m.group(1)):
                    # gated thing starts at the next non-attribute line; ends where brackets balance and a `;`, `,` or `}` closes it
                    j = i + 1
                    while j < len(lines) and re.match(r"\s*#\[", lines[j]):
                        j += 1
                    depth = 0
                    k = j
                    started = False
                    while k < len(lines):
                        code = re.sub(r'"(\\.|[^"\\])*"', '""', lines[k])
                        code = re.sub(r"//.*", "", code)
                        for ch in code:
                            if ch in "({[":
                                depth += 1
                                if ch == "{":
                                    started = True
                            elif ch in ")}]":
                                depth -= 1
                        stripped = code.strip()
                        # the gated thing ends at `;` / `,` at depth 0, or when a brace block it opened closes
                        if depth <= 0 and (stripped.endswith(";") or stripped.endswith(",") or (started and stripped.endswith("}"))
                                           or stripped.endswith("};")):
                            break
                        k += 1
                    out.setdefault(rel, []).append((i + 1, k + 1, m.group(1)))
                    i = j
                    continue
                i += 1
    return out


def in_ranges(ranges, file, line):
    for lo, hi, _ in ranges.get(file, ()):
        if lo <= line <= hi:
            return True
    return False


def call_seq(f, ranges, drop_gated=True):
    """sequence of (callee) of f's call terminators in block order, excluding gated lines"""
    out = []
    for b in sorted(f.reachable_blocks()):
        t = f.term(b)
        if t["k"] == "call":
            if drop_gated and in_ranges(ranges, f.file, t["ln"]):
                continue
            out.append(sibling.generic_strip(t.get("callee") or "<indirect>"))
    return out


def run(ctx):
    ck = ctx.check
    ck.rule("R05a", "only audited functions contain no-fastpath gates")
    ck.rule("R05b", "fast paths agree with the generic paths on the structural points that decide cost")
    ck.rule("R05c", "counters / pre-eval code only accounts and calls the callbacks; ungated code is identical to the default build")
    ck.rule("R05d", "PRECOMPUTED_HASHES[n] == sha256(1 || minimal(n)); indexed under val < len")
    ck.rule("R05e", "the no-fastpath build differs from the default build only on cfg-gated lines")
    ck.rule("R05f", "flag-guarded rejection thresholds are the same multiset in the default and the no-fastpath build of every function")
    ck.assume("arithmetic equality of u64/i64 fast sums with bignum sums is not decided")
    ctx.prefetch(["default", "nofast", "diag"])
    cr = ctx.crate("default")
    nf = ctx.crate("nofast")
    dg = ctx.crate("diag")

    # ---------------------------------------------------------------- R05a
    fp = gate_ranges(ctx, r'feature\s*=\s*"no-fastpath"')
    gated_fns = {}
    n_g = 0
    for file, rs in fp.items():
        for lo, hi, attr in rs:
            n_g += 1
            owner = None
            for cfg in (cr, nf):
                for f in cfg.fns.values():
                    if f.file == file and f.lo <= lo <= f.hi and f.d["kind"] != "Closure":
                        if owner is None or (f.hi - f.lo) < (owner.hi - owner.lo):
                            owner = f
            if owner is None:
                continue  # use/import level gate
            gated_fns.setdefault(owner.path, []).append(lo)
    def audited_owner(p, seen=()):
        """p itself, or - for a private helper - every function that calls it (transitively) is an audited fast-path site:
        moving the gated lines of an audited function into a private helper of that function does not create a new fast path"""
        if p in FASTPATH_AUDIT:
            return True
        g = cr.fns.get(p) or nf.fns.get(p)
        if g is None or g.d.get("vis") != "priv" or p in seen:
            return False
        cs = {q.path for cfg in (cr, nf) for q, _ in cfg.callers_of(p)} if (cr.has_fn(p) or nf.has_fn(p)) else set()
        return bool(cs) and all(audited_owner(c, seen + (p,)) for c in cs)
    for p, ls in sorted(gated_fns.items()):
        if is_test_fn(cr.fns.get(p) or nf.fns.get(p)):
            continue
        ck.ob("R05a", p, audited_owner(p), "a fast path exists only where its agreement with the generic path has been audited",
              site=f"{(cr.fns.get(p) or nf.fns.get(p)).file}:{ls[0]}", detail=FASTPATH_AUDIT.get(p) or
              "unaudited no-fastpath gate: which generic computation does it replace, and do cost, value and errors agree?")
    ck.floor("no-fastpath gates", n_g, 9)

    # ---------------------------------------------------------------- R05b
    tf = cr.fn("traverse_path::traverse_path_fast")
    tp = cr.fn("traverse_path::traverse_path")
    ck.analysed(tf, tp)
    # the bit counter is the local multiplied by TRAVERSE_COST_PER_BIT in the cost terms (found by role, not by name)
    import re as _re
    bitctr = None
    for b in tf.reachable_blocks():
        for st in tf.stmts(b):
            if "rv" in st:
                m = _re.search(r"\((?:\()?(%[^ )]+)(?: as u64\))? Mul TRAVERSE_COST_PER_BIT\)", show(tf.denamed(tf.expr_rvalue(st["rv"], deep=False))))
                if m:
                    bitctr = m.group(1)
    if bitctr is None:
        raise mir.AnchorMissing("traverse_path_fast: no `<bits> * TRAVERSE_COST_PER_BIT` term found")
    consts = []
    for b in sorted(tf.reachable_blocks()):
        if tf.term(b)["k"] == "switch":
            n = compare_norm(tf.denamed(tf.switch_cond(b)))
            if n and list(n[0]) == [bitctr] and n[2] == "==0":
                consts.append(-n[1])
    want = [c for c in consts if (c + 1) % 8 == 0]
    ck.ob("R05b", "traverse_path::traverse_path_fast|leading zero byte", sorted(consts) == sorted(want) and {7, 15, 23} <= set(consts),
          "the zero-byte surcharge applies exactly when the path's bit length (num_bits + 1) is a multiple of 8 (7, 15, 23[, 31])",
          site=tf.where(0), detail={"constants compared with num_bits": sorted(consts)})
    # the surcharge is TRAVERSE_COST_PER_ZERO_BYTE and the per-bit term is num_bits * PER_BIT
    def cost_terms(g):
        """the updates of the cost accumulator (the u64 local returned in Reduction(cost, ..)), names removed"""
        acc = None
        for b in g.reachable_blocks():
            for st in g.stmts(b):
                rv = st.get("rv", {})
                if "agg" in rv and isinstance(rv["agg"][0], dict) and rv["agg"][0].get("adt", "").endswith("Reduction"):
                    pl = mir.op_place(rv["agg"][1][0])
                    if pl and not pl["p"]:
                        l = pl["l"]
                        # follow a plain copy back to the accumulator
                        while len(g.defs(l)) == 1 and g.defs(l)[0][1] != "T" and "use" in g.def_rvalue(g.defs(l)[0]) and mir.op_place(g.def_rvalue(g.defs(l)[0])["use"]):
                            l = mir.op_place(g.def_rvalue(g.defs(l)[0])["use"])["l"]
                        acc = l
        if acc is None:
            raise mir.AnchorMissing(f"{g.path}: cost accumulator (first field of the returned Reduction) not found")
        return sorted(show(g.denamed(g.expr_rvalue(g.def_rvalue(d_)), keep={acc: "COST"})) for d_ in g.defs(acc) if d_[1] != "T")
    txt = cost_terms(tf)
    ck.ob("R05b", "traverse_path::traverse_path_fast|terms",
          txt == sorted(["(TRAVERSE_BASE_COST Add TRAVERSE_COST_PER_BIT)", f"(COST Add ({bitctr} Mul TRAVERSE_COST_PER_BIT))",
                         "(COST Add TRAVERSE_COST_PER_ZERO_BYTE)"]),
          "inline lookup charges base + per-bit + num_bits * per-bit (+ one zero-byte surcharge)", site=tf.where(0), detail=txt)
    txt2 = cost_terms(tp)
    ck.ob("R05b", "traverse_path::traverse_path|terms",
          txt2 == sorted(["((TRAVERSE_BASE_COST Add ((traverse_path::first_non_zero(&$2) as u64) Mul TRAVERSE_COST_PER_ZERO_BYTE)) Add TRAVERSE_COST_PER_BIT)",
                          "(COST Add TRAVERSE_COST_PER_BIT)"]),
          "generic lookup charges base + zero bytes * per-zero-byte + per-bit, then per-bit per step", site=tp.where(0), detail=txt2)
    # both choose `right` when the bit is set (decided from the expressions, independent of local names)
    for g in (tf, tp):
        sel = g.bit_direction()
        ck.ob("R05b", g.path + "|direction", sel == [("clear", "left"), ("set", "right")], "a set bit selects the right child, a clear bit the left",
              site=g.where(0), detail=sel)
    # add / subtract fast paths.  The fast body is found by role, not by being `{closure#0}`: the closure of / private function
    # called by the operator whose result type is Result<Option<integer>> (Ok(None) = "fall back to the generic loop")
    def fast_body(parent):
        f0 = cr.fn(parent)
        cands = [g for q, g in cr.fns.items() if q.startswith(parent + "::{closure") and "Option<" in g.locals[0]["ty"] and "Result<" in g.locals[0]["ty"]]
        for _, t in f0.calls():
            g = cr.fns.get(t.get("callee") or "")
            if g is not None and g.d.get("vis") == "priv" and "Option<" in g.locals[0]["ty"] and "Result<" in g.locals[0]["ty"] and g not in cands:
                cands.append(g)
        if len(cands) != 1:
            raise mir.AnchorMissing(f"{parent}: the u64 fast path (a closure or private function returning Result<Option<..>>) was not found uniquely: {[g.path for g in cands]}")
        return cands[0]
    ca, cs_ = fast_body("more_ops::op_add"), fast_body("more_ops::op_subtract")
    ck.analysed(ca, cs_)

    def cmap(c):
        c = sibling.generic_strip(c)
        return c.replace("checked_sub", "checked_ADDSUB").replace("checked_add", "checked_ADDSUB")

    def tmap(t):
        return t.replace("op_subtract", "op_X").replace("op_add", "op_X")
    A_, sa = sibling.canonical(ca, 0, cmap, tmap)
    B_, sb = sibling.canonical(cs_, 0, cmap, tmap)
    # the subtract closure starts with a different accumulator type (i64 vs u64): compare the shape from the loop on
    i = sibling.first_diff(A_, B_)
    same = i is None
    det = {"lines": [len(A_), len(B_)]}
    if not same:
        det["first difference"] = [f"{ca.file}:{sa[i] if i < len(sa) else '?'} {A_[i] if i < len(A_) else None}",
                                   f"{cs_.file}:{sb[i] if i < len(sb) else '?'} {B_[i] if i < len(B_) else None}"]
    ck.info("op_add / op_subtract fast closures: " + ("identical up to add<->sub" if same else "differ (expected: different first-argument handling); see R05b order rule"))
    for g in (ca, cs_):
        limbs = [b for b, t in g.calls() if (t.get("callee") or "").endswith("::limbs")]
        # the accumulator is whatever .limbs() is measured on (by local, not by name); its updates are the checked add/sub on it
        measured = set()
        for b, t in g.calls():
            if (t.get("callee") or "").endswith("::limbs"):
                measured |= {x[2] for x in walk(g.expr_op(t["args"][0], deep=False)) if x[0] in ("var", "named")}
        upd = [b for b, t in g.calls() if (t.get("callee") or "").split("::")[-1] in ("checked_add", "checked_sub")
               and any(x[0] in ("var", "named") and x[2] in measured for a in t["args"] for x in walk(g.expr_op(a, deep=False)))]
        from rules.c07 import forward_reach
        # within one iteration no measurement may come after the update
        ok = bool(limbs) and bool(upd) and not any(lb in forward_reach(g, ub) for ub in upd for lb in limbs) and \
            all(any(ub in forward_reach(g, lb) for lb in limbs) for ub in upd)
        ck.ob("R05b", g.path + "|magnitude before update", ok,
              "the per-argument cost measures the accumulator (limbs) before the accumulator is updated, as the generic loop does",
              site=g.where(upd[0]) if upd else g.where(0), detail={"limbs blocks": limbs, "update blocks": upd})
        ccs = [b for b, t in g.calls_to("cost::check_cost")]
        ok2 = bool(ccs) and all(any(g.dominates(cb, ub) for cb in ccs) for ub in upd)
        ck.ob("R05b", g.path + "|check before update", ok2, "check_cost precedes the accumulator update (same order as the generic loop)",
              site=g.where(0))
        # the fast path may fail (CostExceeded) only for an argument it has already accepted: in the generic loop every
        # check_cost sits inside an arm of the match on the argument's kind, so a pair argument fails with InvalidOpArg before
        # any budget test of that iteration.  Hence every fallible call in the fast loop must come after the small-integer arm
        # of the kind test of the same iteration (otherwise the two builds report different error kinds on a tight budget).
        kind = [(b, tgt) for b in g.reachable_blocks() if g.in_loop(b) and (g.discr_enum(b) or "").endswith("NodeVisitor")
                for tgt, v in g.succ(b) if v != "otherwise" and (g.discr_variants(b) or {}).get(v) == "U32"]
        early = []
        if len(kind) == 1:
            kb, ktgt = kind[0]
            for b in sorted(g.reachable_blocks()):
                if not g.in_loop(b) or not g.question_mark(b):
                    continue
                if not (b == ktgt or g.dominates(ktgt, b)):
                    early.append(g.where(b) + " " + (g.term(b).get("callee") or "?").split("::")[-1])
        ck.ob("R05b", g.path + "|fails only after the kind test", len(kind) == 1 and not early,
              "every fallible step of a fast-loop iteration comes after the argument was accepted as a small integer (the generic loop rejects a pair before testing the budget)",
              site=g.where(kind[0][0]) if kind else g.where(0), detail={"fallible before the kind test": early})
    # generic loops: limbs before += as well
    for p in ("more_ops::op_add", "more_ops::op_subtract"):
        g = cr.fn(p)
        limbs = [b for b, t in g.calls() if (t.get("callee") or "").endswith("::limbs")]
        upd = [b for b, t in g.calls() if (t.get("callee") or "").split("::")[-1] in ("add_assign", "sub_assign")]
        ok = bool(upd) and all(any(g.dominates(lb, ub) or not g.dominates(ub, lb) for lb in limbs) for ub in upd) and \
            not any(g.dominates(ub, lb) and not g.in_loop(ub) for ub in upd for lb in limbs)
        ck.ob("R05b", p + "|generic order", ok, "generic loop: cost (limbs) is computed before the accumulate", site=g.where(0))
    # op_gr fast comparison
    gr = cr.fn("more_ops::op_gr")
    ck.analysed(gr)
    cmps = []
    for b in sorted(gr.reachable_blocks()):
        for st in gr.stmts(b):
            rv = st.get("rv", {})
            if "bin" in rv and rv["bin"][0] in ("Gt", "Lt", "Ge", "Le"):
                cmps.append(show(gr.expr_rvalue(rv, deep=False)))
        t = gr.term(b)
        if t["k"] == "switch":
            n = gr.switch_cond(b)
            s_ = show(n, short=True)
            if any(x[0] == "bin" and x[1] in ("Gt", "Lt", "Ge", "Le") for x in walk(n)) and "small_number" in show(n, short=False):
                cmps.append(s_)
    fastc = [c for c in cmps if "Gt" in c and "Cost" not in c]
    ck.ob("R05b", "more_ops::op_gr|fast comparison", any(" Gt " in c for c in fastc) and not any(" Ge " in c or " Lt " in c or " Le " in c for c in fastc),
          "the fast path compares with `>` (strict), first argument on the left", site=gr.where(0), detail=cmps[:6])

    # ---------------------------------------------------------------- R05d
    tbl = cr.const("more_ops::PRECOMPUTED_HASHES")
    raw = bytes.fromhex(tbl.get("bytes", ""))
    rows = [raw[i:i + 32] for i in range(0, len(raw), 32)]
    bad = []
    for n, row in enumerate(rows):
        enc = b"" if n == 0 else bytes([n])
        if n >= 0x80:
            enc = b"\x00" + enc
        if hashlib.sha256(b"\x01" + enc).digest() != row:
            bad.append(n)
    ck.ob("R05d", "more_ops::PRECOMPUTED_HASHES", len(rows) >= 2 and not bad, f"all {len(rows)} rows equal sha256(01 || minimal encoding of the row index)",
          detail={"rows": len(rows), "wrong rows": bad})
    # the table is only indexed in bounds: decided by the in-bounds verifier (lib/bounds.py) on every indexing site of
    # the two users whose length is the table's (an access through .get() cannot be out of range)
    from lib.bounds import Prover
    for p in ("more_ops::op_sha256", "treehash::tree_hash_costed"):
        g = cr.fn(p)
        ck.analysed(g)
        pr = Prover(g, cr)
        sites = 0
        bad = []
        for bb, _ in pr.sites():
            for text, okk, lin, how in pr.check_site(bb)["goals"]:
                if text.endswith(f" < {len(rows)}"):
                    sites += 1
                    if not okk:
                        bad.append(text)
        gets = [bb for bb, t in g.calls() if (t.get("callee") or "").endswith("::get") and t["args"]
                and any(x[0] == "bytes" and x[1] == tbl.get("bytes") for x in walk(g.expr_op(t["args"][0])))]
        # the shortcut through the table must not skip the budget test the generic path performs before it allocates its
        # result: every use of the table is dominated by a passed check_cost (otherwise a failing run allocates in one build
        # and not in the other)
        use_blocks = [bb for bb, _ in pr.sites() if any(text.endswith(f" < {len(rows)}") for text, _, _, _ in pr.check_site(bb)["goals"])] + gets
        passed = [g.question_mark(cb)[0] for cb, _ in g.calls_to("cost::check_cost") if g.question_mark(cb)]
        unchecked = [g.where(ub) for ub in use_blocks if not any(pc == ub or g.dominates(pc, ub) for pc in passed)]
        ck.ob("R05d", p + "|budget tested before the table is used", bool(use_blocks) and not unchecked,
              "the precomputed-hash shortcut is taken only after check_cost has passed for the cost it charges", site=g.where(0),
              detail={"table uses without a dominating passed check_cost": unchecked})
        ck.ob("R05d", p + "|index guard", not bad and (sites + len(gets)) >= 1,
              f"every indexing of the table is proved to be below {len(rows)} (or goes through .get())", site=g.where(0),
              detail={"indexing sites": sites, "get() accesses": len(gets), "unproved": bad})

    # ---------------------------------------------------------------- R05c / R05e  (config differences)
    dgr = gate_ranges(ctx, r'feature\s*=\s*"(counters|pre-eval)"')
    n_cmp = 0
    for other, ranges, rule, label in ((dg, dgr, "R05c", "counters+pre-eval"), (nf, fp, "R05e", "no-fastpath")):
        for p, f in sorted(cr.fns.items()):
            if is_test_fn(f) or p not in other.fns:
                continue
            g = other.fns[p]
            a = call_seq(f, ranges if rule == "R05e" else {}, drop_gated=(rule == "R05e"))
            b = call_seq(g, ranges)
            if rule == "R05c":
                a = call_seq(f, {}, drop_gated=False)
            n_cmp += 1
            if a != b:
                i = sibling.first_diff(a, b)
                ck.ob(rule, f"{p}|ungated calls", False,
                      f"outside cfg-gated lines the {label} build makes the same calls in the same order as the default build",
                      site=f.where(0), detail={"first difference": [a[i] if i is not None and i < len(a) else None, b[i] if i is not None and i < len(b) else None]})
        ck.ob(rule, f"{label}|functions compared", True, f"call sequences of all common functions compared between default and {label} builds",
              detail=f"{n_cmp} functions", trivial=True)
    # functions that exist only in the diag build must be accounting helpers
    only = sorted(p for p in dg.fns if p not in cr.fns and not is_test_fn(dg.fns[p]))
    for p in only:
        g = dg.fns[p]
        okf = in_ranges(dgr, g.file, g.lo) or in_ranges(dgr, g.file, g.lo - 1) or any(lo <= g.lo <= hi for lo, hi, _ in dgr.get(g.file, ()))
        ck.ob("R05c", p, okf, "a function that exists only in the diagnostic build is cfg-gated", site=g.where(0))
    # gated code: allowed callees and writes
    n_gated = 0
    for p, g in sorted(dg.fns.items()):
        if is_test_fn(g):
            continue
        for b in sorted(g.reachable_blocks()):
            t = g.term(b)
            if t["k"] == "call" and in_ranges(dgr, g.file, t["ln"]) and p in cr.fns:
                n_gated += 1
                c = t.get("callee") or "<indirect>"
                ok = any(s in c for s in DIAG_ALLOWED_CALLEES) or c == "<indirect>"
                ck.ob("R05c", f"{p}|gated call {c.split('::')[-1]}", ok, "diagnostic code calls only accounting helpers and the observe-only callbacks",
                      site=g.where(b), detail=c)
            for st in g.stmts(b):
                d = st.get("d")
                if d and in_ranges(dgr, g.file, st["ln"]) and p in cr.fns and any(pp == "*" for pp in d["p"]):
                    flds = mir.place_fields(d)
                    ok = any(x in ("counters", "max_atom_count", "max_pair_count", "max_heap_size", "posteval_stack", "pre_eval") or x.startswith("max_") or x.endswith("_usage")
                             for x in flds)
                    n_gated += 1
                    ck.ob("R05c", f"{p}|gated store {'.'.join(flds)}", ok, "diagnostic code writes only counter fields", site=g.where(b, st["ln"]),
                          detail=show(g.expr_place(d, deep=False)))
    ck.floor("gated diagnostic calls/stores examined", n_gated, 10)


    # ---- R05f: thresholds tested under a restriction flag (LIMITS, DISABLE_OP, ...) must not differ between the two
    # copies of an operator body (the cfg-gated fast path and its no-fastpath replacement)
    from lib.flagregion import flag_tests as _ftests
    from rules.c07 import forward_reach as _freach, RESTRICT
    from rules.c07 import is_test_fn as _is_test
    from lib.mir import compare_norm as _cnorm

    def thresholds(f):
        out = []
        for t in _ftests(f):
            if t["flag"] not in RESTRICT:
                continue
            region = _freach(f, t["set_edge"]) - _freach(f, t["clear_edge"])
            for b in sorted(region | {t["set_edge"]}):
                if f.term(b)["k"] != "switch":
                    continue
                n = _cnorm(f.switch_cond(b))
                if not n or not n[0]:
                    continue
                shape = " ".join(("+" if c > 0 else "-") + (str(abs(c)) if abs(c) != 1 else "") + "x" for _, c in sorted(n[0].items(), key=lambda kv: kv[1]))
                out.append(f"{t['flag']}: {shape} {n[1]:+d} {n[2]}")
        return sorted(out)
    n_thr = 0
    for path in sorted(set(cr.fns) & set(nf.fns)):
        f1, f2 = cr.fns[path], nf.fns[path]
        if _is_test(f1):
            continue
        try:
            t1, t2 = thresholds(f1), thresholds(f2)
        except Exception:
            continue
        if not t1 and not t2:
            continue
        n_thr += 1
        # the no-fastpath body may drop a whole fast path (fewer tests) but each distinct threshold must exist in both
        ck.ob("R05f", path, set(t1) == set(t2), "the thresholds tested under restriction flags are the same in both builds",
              site=f1.where(0), detail={"default": t1, "no-fastpath": t2} if set(t1) != set(t2) else sorted(set(t1)))
    ck.floor("functions with flag-guarded thresholds", n_thr, 10)
