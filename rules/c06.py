"""C06 — the MALACHITE bignum back end is unobservable.

R06a (T5 strong)  For X in {div, divmod, mod, modpow}: the sub-CFG of op_X taken when MALACHITE is NOT
      set is the same program as op_X_malachite, up to the callee map
      {int_atom -> malachite_int_atom, new_number -> new_malachite_number, num-bigint/num-integer
      method -> malachite method of the same name} and the type map {num BigInt/Sign -> malachite
      BigInt/Sign}. This pins every threshold, flag test, message, cost formula and the ORDER
      cost check / limits / division-by-zero / negative-exponent in both siblings.
R06b  op_X's prologue tests exactly MALACHITE and forwards (allocator, input, max_cost, flags)
      unchanged to op_X_malachite, returning its result.
R06c  Allocator::new_number is the same program as Allocator::new_malachite_number.
R06d  no other function consults MALACHITE (the flag selects the back end and nothing else).
"""
import difflib
import re
from lib import mir, sibling
from lib.mir import strip, show, walk

PAIRS = [("more_ops::op_div", "more_ops::op_div_malachite"),
         ("more_ops::op_divmod", "more_ops::op_divmod_malachite"),
         ("more_ops::op_mod", "more_ops::op_mod_malachite"),
         ("more_ops::op_modpow", "more_ops::op_modpow_malachite")]


def cmap(c):
    c = sibling.generic_strip(c)
    c = c.replace("malachite_int_atom", "int_atom").replace("new_malachite_number", "new_number")
    c = c.replace("number_from_u8_malachite", "number_from_u8").replace("malachite_number", "number")
    # library method -> method of the same name: keep trait/method names, erase the crate
    if re.search(r"\b(malachite_bigint|num_bigint|num_integer|num_traits|malachite_base|malachite_nz)::", c):
        # a bignum-library method: the two back ends are matched by METHOD NAME
        return "BIG::" + c.split("::")[-1]
    return c


def tmap(t):
    t = re.sub(r"\b(malachite_bigint|num_bigint)::(\w+::)*", "BIG::", t)
    t = t.replace("number::Malachite", "BIG::BigInt").replace("number::Number", "BIG::BigInt")
    return t


def malachite_switch(f):
    """block whose switch tests flags.contains(MALACHITE); returns (block, set_target, unset_target)"""
    for b in sorted(f.reachable_blocks()):
        if f.term(b)["k"] != "switch":
            continue
        e = f.switch_cond(b)
        if any(x[0] == "const" and (x[2] or "").endswith("ClvmFlags::MALACHITE") for x in walk(e)) and \
                any(x[0] == "call" and x[1].endswith("::contains") for x in walk(e)):
            be = f.bool_edges(b)
            if be:
                return b, be[0], be[1]
    return None


def run(ctx):
    ck = ctx.check
    cr = ctx.crate("default")
    ck.rule("R06a", "the non-MALACHITE body of op_X is the same program as op_X_malachite up to the stated callee/type renaming (canonical CFG comparison)")
    ck.rule("R06b", "op_X tests exactly MALACHITE first and forwards its four parameters unchanged to op_X_malachite")
    ck.rule("R06c", "Allocator::new_number is the same program as Allocator::new_malachite_number")
    ck.rule("R06d", "MALACHITE is consulted only by the four dispatch prologues")
    ck.assume("the two bignum libraries agree on the methods of the same name (div_floor, mod_floor, modpow, sign, to_signed_bytes_be, ...): library semantics are not decided")

    def compare(rule, key, f, fstart, g, what):
        A, sa = sibling.canonical(f, fstart, cmap, tmap)
        B, sb = sibling.canonical(g, 0, cmap, tmap)
        i = sibling.first_diff(A, B)
        detail = {"canonical_lines": [len(A), len(B)]}
        if i is not None:
            d = list(difflib.unified_diff(A, B, lineterm="", n=1, fromfile=f.path, tofile=g.path))
            detail["first_difference"] = {
                f.path: f"{f.file}:{sa[i] if i < len(sa) else '?'}  {A[i].strip() if i < len(A) else '<end>'}",
                g.path: f"{g.file}:{sb[i] if i < len(sb) else '?'}  {B[i].strip() if i < len(B) else '<end>'}",
            }
            detail["diff"] = d[:24]
        ck.ob(rule, key, i is None, what, site=f"{f.file}:{sa[i]}" if i is not None and i < len(sa) else f.where(0), detail=detail)
        return len(A)

    total = 0
    users = set()
    for fx, gx in PAIRS:
        f, g = cr.fn(fx), cr.fn(gx)
        ck.analysed(f, g)
        ms = malachite_switch(f)
        if not ms:
            raise mir.AnchorMissing(f"{fx}: MALACHITE dispatch test not found")
        users.add(fx)
        b, set_t, unset_t = ms
        total += compare("R06a", f"{fx} ~ {gx}", f, unset_t, g,
                         f"{fx.split('::')[-1]} without MALACHITE and {gx.split('::')[-1]} are the same program (thresholds, order of checks, costs, messages)")
        # R06b
        ok = b == 0 or all(f.term(x)["k"] in ("call", "goto") for x in f.dominators(b) if x != b)
        first_test = f.dominators(b)
        # nothing but the contains() call before the test
        pre = [x for x in f.dominators(b) if x != b]
        pre_calls = [f.term(x).get("callee") for x in pre if f.term(x)["k"] == "call"]
        only_contains = all((c or "").endswith("::contains") for c in pre_calls)
        fw = [(bb, t) for bb, t in f.calls_to(gx) if bb in f.reach_from([set_t])]
        good = False
        det = {"calls_before_test": pre_calls}
        if len(fw) == 1:
            bb, t = fw[0]
            args = [strip(f.expr_op(a, deep=False)) for a in t["args"]]
            det["forwarded"] = [show(a) for a in args]
            params_ok = len(args) == f.nargs and all(a[0] == "var" and a[2] == i + 1 for i, a in enumerate(args)) or \
                [show(a) for a in args] == [f.local_name(i + 1) if i else show(args[0]) for i in range(len(args))]
            # first argument is a reborrow &mut *a
            names = [show(a).replace("&mut ", "").replace("*", "") for a in args]
            params_ok = names == [f.local_name(i + 1) for i in range(f.nargs)]
            ret_direct = t["dst"]["l"] == 0 and not t["dst"]["p"]
            good = params_ok and ret_direct and only_contains
            det["returns_callee_result_directly"] = ret_direct
        ck.ob("R06b", fx, good, "MALACHITE set: forwards (a, input, max_cost, flags) unchanged and returns the sibling's result; nothing precedes the test",
              site=f.where(b), detail=det)
    ck.floor("canonical lines compared", total, 900)

    f, g = cr.fn("allocator::Allocator::new_number"), cr.fn("allocator::Allocator::new_malachite_number")
    ck.analysed(f, g)
    compare("R06c", "allocator::Allocator::new_number ~ new_malachite_number", f, 0, g,
            "the two canonical-integer encoders are the same program")

    # R06d
    for h in cr.fns.values():
        if h.path in users or ".rs" not in h.file or "test" in h.file:
            continue
        for b in h.reachable_blocks():
            for st in h.stmts(b):
                pass
        uses = False
        for b, t in h.calls():
            for a in t.get("args", []):
                if isinstance(a, dict) and "c" in a and (a["c"].get("name") or "").endswith("ClvmFlags::MALACHITE"):
                    uses = True
        if uses:
            ck.ob("R06d", h.path, False, "MALACHITE must only select the bignum back end in the four dispatch prologues",
                  site=h.where(0), detail="unaudited use of the MALACHITE flag: does it change anything but the back end?")
    ck.ob("R06d", "inventory", len(users) == 4, "exactly the four operators dispatch on MALACHITE", detail=sorted(users))
