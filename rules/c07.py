"""C07 — restriction flags only remove successes.

R07a (T6)  for F in {NO_UNKNOWN_OPS, CANONICAL_INTS, DISABLE_OP, LIMIT_SOFTFORK, LIMITS}: the code that runs
      ONLY when F is set (reachable from the 'set' edge of a test of F and not from its 'clear' edge)
      consists of pure condition blocks and error blocks: it may reject, it may not compute. One
      audited exception: uint_atom / CANONICAL_INTS.
R07b  RELAXED_BLS: the code that runs only when it is CLEAR may validate (fail) and cache validated
      points, nothing else; nothing runs only when it is SET.
R07c  MEMPOOL_MODE consists of restriction flags only; ChiaDialect::new only removes a restriction flag.
R07d  an error that may originate in a restriction-flag region must not be turned into a success by a
      caller (error swallowing makes "reject" observable as a different success).
"""
from lib import mir, flagregion as fr
from lib.mir import strip, show, walk

RESTRICT = ["NO_UNKNOWN_OPS", "CANONICAL_INTS", "DISABLE_OP", "LIMIT_SOFTFORK", "LIMITS"]
MASK_FLAGS = RESTRICT + ["LIMIT_HEAP"]
AUDITED = {
    ("op_utils::uint_atom", "CANONICAL_INTS"):
        "under CANONICAL_INTS every input on which the lenient path would strip more than one leading zero has "
        "already been rejected; the remaining strip of at most one sign-guard zero yields the same value",
}


def forward_reach(f, start, blocked=()):
    """reachability ignoring back edges (so that a test inside a loop has distinct set/clear regions)"""
    seen = set()
    work = [start]
    blocked = set(blocked)
    while work:
        b = work.pop()
        if b in seen or b in blocked:
            continue
        seen.add(b)
        for s in f.succ_blocks(b):
            if f.dominates(s, b):
                continue  # back edge
            if s not in seen:
                work.append(s)
    return seen


def exclusive_region(f, t, which):
    a = forward_reach(f, t["set_edge"], {t["block"]})
    c = forward_reach(f, t["clear_edge"], {t["block"]})
    return (a - c) if which == "set" else (c - a)


def is_test_fn(f):
    return "::tests::" in f.path or f.path.startswith("tests::") or "test_" in f.path.split("::")[-1] or "/test" in f.file \
        or f.file.endswith("tests.rs") or f.file.endswith("test_ops.rs")


def run(ctx):
    ck = ctx.check
    cr = ctx.crate("default")
    ck.rule("R07a", "code that runs only when a restriction flag is set is reject-only (pure conditions + error blocks)")
    ck.rule("R07b", "code that runs only when RELAXED_BLS is clear may only validate and cache; nothing runs only when it is set")
    ck.rule("R07c", "MEMPOOL_MODE is made of restriction flags only; ChiaDialect::new only removes LIMITS")
    ck.rule("R07d", "no caller converts an error that may come from a restriction-flag region into a success")
    ck.assume("LIMIT_HEAP is an allocator parameter chosen by callers (see C26); a smaller heap limit only removes successes by C13")

    n_tests = 0
    restricted_fns = set()
    for f in sorted(cr.fns.values(), key=lambda x: x.path):
        if is_test_fn(f):
            continue
        tests = fr.flag_tests(f)
        if not tests:
            continue
        ck.analysed(f)
        seen_keys = {}
        for t in tests:
            flag = t["flag"]
            if flag in RESTRICT:
                n_tests += 1
                restricted_fns.add(f.path)
                region = exclusive_region(f, t, "set")
                eff = fr.region_effects(f, region)
                k = f"{f.path}|{flag}"
                seen_keys[k] = seen_keys.get(k, 0) + 1
                key = k if seen_keys[k] == 1 else f"{k}#{seen_keys[k]}"
                if (f.path, flag) in AUDITED:
                    ck.ob("R07a", key, True, f"audited exception: {AUDITED[(f.path, flag)]}", site=f"{f.file}:{t['line']}",
                          detail={"effects": [e[1] for e in eff]})
                    continue
                ck.ob("R07a", key, not eff,
                      f"the code executed only when {flag} is set rejects or does nothing",
                      site=f"{f.file}:{t['line']}",
                      detail=({"region_blocks": len(region), "kind": "pure conditions and error returns only"} if not eff else
                              {"non-error effects under the flag": [f"{k}: {d} ({f.where(b)})" for k, d, b in eff][:8],
                               "why": "a restriction flag may turn a success into a failure, never into a different success"}))
            elif flag == "RELAXED_BLS":
                n_tests += 1
                region_clear = exclusive_region(f, t, "clear")
                region_set = exclusive_region(f, t, "set")
                allow = {"allocator::Allocator::validate_g1", "allocator::Allocator::validate_g2",
                         "allocator::Allocator::add_validated_g1", "allocator::Allocator::add_validated_g2"}
                eff_c = [e for e in fr.region_effects(f, region_clear, allow_calls=allow)]
                eff_s = fr.region_effects(f, region_set)
                ck.ob("R07b", f"{f.path}|RELAXED_BLS", not eff_c and not eff_s,
                      "strict-only code validates (may fail) and caches validated points; relaxed-only code does not exist",
                      site=f"{f.file}:{t['line']}",
                      detail={"strict-only effects": [e[1] for e in eff_c], "relaxed-only effects": [e[1] for e in eff_s]})
    ck.floor("restriction / relaxation flag tests", n_tests, 24)

    # ---- R07c
    bits = {}
    for name in ["NO_UNKNOWN_OPS", "CANONICAL_INTS", "DISABLE_OP", "LIMIT_SOFTFORK", "LIMITS", "LIMIT_HEAP", "RELAXED_BLS", "ENABLE_GC",
                 "ENABLE_KECCAK_OPS_OUTSIDE_GUARD", "ENABLE_SHA256_TREE", "ENABLE_SECP_OPS", "MALACHITE", "NEW_COST_MODEL"]:
        bits[name] = cr.const_val("chia_dialect::ClvmFlags::" + name)
    mask = 0
    for n in MASK_FLAGS:
        mask |= bits[n]
    mm = cr.const_val("chia_dialect::MEMPOOL_MODE")
    extra = [n for n, v in bits.items() if mm & v and n not in MASK_FLAGS]
    ck.ob("R07c", "chia_dialect::MEMPOOL_MODE", (mm & ~mask) == 0,
          "MEMPOOL_MODE contains restriction flags only (so that whatever it accepts, consensus mode accepts identically)",
          detail={"MEMPOOL_MODE": hex(mm), "non-restriction flags in it": extra})
    distinct = len(set(bits.values())) == len(bits) and all(v and (v & (v - 1)) == 0 for v in bits.values())
    ck.ob("R07c", "chia_dialect::ClvmFlags|distinct bits", distinct, "every flag is a distinct single bit", detail={k: hex(v) for k, v in bits.items()})
    nf = cr.fn("chia_dialect::ChiaDialect::new")
    ck.analysed(nf)
    muts = []
    for b, t in nf.calls():
        c = t.get("callee") or ""
        if "ClvmFlags>::" in c and not c.endswith("::contains"):
            muts.append((c.split("::")[-1], show(nf.expr_op(t["args"][1])) if len(t["args"]) > 1 else ""))
    ck.ob("R07c", "chia_dialect::ChiaDialect::new", muts == [("remove", "LIMITS")] or muts == [],
          "the constructor only ever removes the restriction flag LIMITS (which can only add successes back)", site=nf.where(0), detail=muts)

    # ---- R07d: error swallowing
    # functions whose Err may come from a restriction region: closure over callers
    may = set(restricted_fns)
    cg = cr.callgraph()
    changed = True
    while changed:
        changed = False
        for p, callees in cg.items():
            if p not in may and p in cr.fns and not is_test_fn(cr.fns[p]) and (callees & may):
                if "error::EvalErr" in cr.fns[p].locals[0]["ty"]:
                    may.add(p)
                    changed = True
    n_sw = 0
    for f in sorted(cr.fns.values(), key=lambda x: x.path):
        if is_test_fn(f):
            continue
        for b, t in f.calls():
            c = t.get("callee") or t.get("raw") or ""
            if c not in may or f.question_mark(b):
                continue
            if "Result<" not in f.local_ty(t["dst"]["l"]):
                continue
            if t["dst"]["l"] == 0:
                continue  # returned as is
            # find a discriminant switch on the result
            dst = t["dst"]["l"]
            for sb in f.reach_from([t["target"]] if t.get("target") is not None else []):
                dv = f.discr_variants(sb)
                if not dv or set(dv.values()) != {"Ok", "Err"}:
                    continue
                on = f.expr_op(f.term(sb)["on"], deep=False)
                if not any(x[0] in ("var", "named") and x[2] == dst for x in walk(on)) and \
                        not any(x[0] == "discr" for x in walk(on)):
                    continue
                src = strip(on)
                if not (src[0] == "discr" and any(x[0] in ("var", "named") and x[2] == dst for x in walk(src))):
                    # discr of this very local?
                    pl = mir.op_place(f.term(sb)["on"])
                    ds = f.defs(pl["l"]) if pl else []
                    if not ds or ds[0][1] == "T":
                        continue
                    rv = f.stmts(ds[0][0])[ds[0][1]]["rv"]
                    if not ("discr" in rv and rv["discr"]["l"] == dst):
                        continue
                err_edge = [bb for bb, v in f.succ(sb) if v != "otherwise" and dv.get(v) == "Err"]
                if not err_edge:
                    continue
                n_sw += 1
                # can a successful return be reached from the Err arm without re-raising?
                region = f.reach_from(err_edge)
                oks = [x for x in region if f._last_ret.get(x) == "OK"] if f.status() else []
                # which flag guards the swallow, if any
                guards = []
                for x in f.dominators(oks[0]) if oks else []:
                    if x in region and f.term(x)["k"] == "switch":
                        fl = fr.flag_of(f.switch_cond(x))
                        if fl:
                            guards.append(fl[0] + ("" if fl[1] else " (negated)"))
                ck.ob("R07d", f"{f.path}|Err({c.split('::')[-1]}) -> Ok", not oks,
                      f"errors of {c.split('::')[-1]} (which can be caused by a restriction flag) are not converted into a success",
                      site=f.where(sb),
                      detail=("propagated" if not oks else
                              {"swallowed_at": f.where(oks[0]), "condition": guards,
                               "why": "with the restriction flag set the callee rejects, the caller then SUCCEEDS (treating the construct as unknown): "
                                      "adding the flag turns a failure (or a different result) into this success"}))
                break
    ck.info(f"{len(may)} functions may return an error caused by a restriction flag; {n_sw} explicit matches on such results examined")
