"""C08 — soft-fork safety: nodes unaware of an extension accept what aware nodes accept.

R08a  for each 4-byte opcode K that ChiaDialect::op routes to a native operator f: the cost f charges is
      the cost the unknown-operator rule assigns to K, (K >> 8) + 1, K's cost-function bits are 0
      (constant), and K is not reserved (ffff prefix).
R08b  those operators return (cost, nil) on every successful path and never mutate the allocator
      (an unaware node evaluates the same opcode to nil without allocating).
R08c  the softfork arm of apply_op: when the guard's arguments / extension are not understood and unknown
      operators are allowed, it pushes nil and returns exactly the declared cost, taking no checkpoint
      and entering no guard (with C31: an understood guard also yields nil, charges the declared cost and
      leaves the counts as at entry).
"""
from lib import mir, flagregion as fr
from lib.mir import strip, show, walk, const_eval

D = "<chia_dialect::ChiaDialect as dialect::Dialect>::op"
RP = "run_program::RunProgramContext::<'a, D>::"


def mutates_allocator(cr, g):
    out = []
    for b, t in g.calls():
        c = t.get("callee")
        h = cr.fns.get(c)
        if h is not None and h.nargs >= 1 and "&mut allocator::Allocator" in h.locals[1]["ty"]:
            out.append(c)
        elif t.get("args"):
            e = strip(g.expr_op(t["args"][0], deep=False))
            if e[0] == "ref" and e[1] == "mut" and any(x[0] in ("var", "named") and "allocator::Allocator" in g.local_ty(x[2]) for x in walk(e)):
                if c and c.startswith("allocator::Allocator::"):
                    out.append(c)
    return out


def run(ctx):
    ck = ctx.check
    cr = ctx.crate("default")
    ck.rule("R08a", "a 4-byte opcode with a native implementation charges exactly what the unknown-operator rule charges for that opcode")
    ck.rule("R08b", "such an operator yields (cost, nil) and never mutates the allocator")
    ck.rule("R08c", "a softfork call that is not understood yields nil for exactly its declared cost without entering a guard")
    d = cr.fn(D)
    ck.analysed(d)
    # the switch on the 32-bit opcode
    sw = None
    for b in sorted(d.reachable_blocks()):
        t = d.term(b)
        if t["k"] == "switch" and t.get("ty") == "u32":
            if any(x[0] == "call" and "from_be_bytes" in x[1] for x in walk(d.expr_op(t["on"]))):
                sw = b
                break
    if sw is None:
        raise mir.AnchorMissing("ChiaDialect::op: 4-byte opcode match not found")
    # the match is on the WHOLE 32-bit opcode (no masking: every bit takes part in the unknown-op cost rule)
    whole = strip(d.expr_op(d.term(sw)["on"]))
    ck.ob("R08a", D + "|whole opcode", whole[0] == "call" and "from_be_bytes" in whole[1],
          "the native-operator table is keyed by all 32 bits of the opcode (the cost-function and don't-care bits are part of the unknown-operator cost)",
          site=d.where(sw), detail=show(whole)[:160])
    from rules import c12
    ck.rule("R08d", "a full checkpoint restore resets every count (shared with C12/R12b): a completed guard leaves the counts as at entry")
    c12.check_restores(ck, cr, "R08d")
    ck.rule("R12c", "reporters: count == vector length + ghost counter (shared with C12)")
    # it must be under op_len == 4
    len4 = False
    for k in d.dominators(sw):
        if d.term(k)["k"] == "switch":
            n = mir.compare_norm(d.switch_cond(k))
            if n and n[1] == -4 and n[2] == "==0" and any(x[0] == "call" and x[1].endswith("::atom_len") for x in walk(d.switch_cond(k))):
                be = d.bool_edges(k)
                len4 = d.dominates(be[0], sw)
    ck.ob("R08a", D + "|4-byte branch", len4, "the 32-bit opcode table is consulted only for operator atoms of exactly 4 bytes", site=d.where(sw))
    arms = {}
    for tgt, v in d.succ(sw):
        if v == "otherwise":
            continue
        fns = set()
        for bb in d.reach_from([tgt]):
            for st in d.stmts(bb):
                if "rv" in st:
                    for o in mir.rvalue_operands(st["rv"]):
                        fn = mir.const_fn(o)
                        if fn:
                            fns.add(fn)
            if fns:
                break
        arms[v] = sorted(fns)
    ck.floor("4-byte opcodes with a native operator", len(arms), 2)
    for K, fns in sorted(arms.items()):
        key = f"{D}|{K:#010x}"
        if len(fns) != 1 or fns[0] not in cr.fns:
            ck.ob("R08a", key, False, "the arm selects exactly one operator function", site=d.where(sw), detail=fns)
            continue
        g = cr.fns[fns[0]]
        ck.analysed(g)
        g.status()
        # cost charged by g: the value in the cost slot of its Ok returns
        costs = set()
        nodes = set()
        for b in g.reachable_blocks():
            for st in g.stmts(b):
                if st.get("d") and st["d"]["l"] == 0 and not st["d"]["p"]:
                    e = strip(g.expr_rvalue(st["rv"]))
                    if e[0] == "agg" and e[1].endswith("Result::Ok") and e[2]:
                        r = strip(e[2][0])
                        if r[0] == "agg" and r[1].endswith("Reduction"):
                            costs.add(const_eval(r[2][0]))
                            nodes.add(show(r[2][1]))
        want = (K >> 8) + 1
        ck.ob("R08a", key, costs == {want} and (K & 0xC0) == 0 and (K >> 16) != 0xFFFF,
              f"opcode {K:#010x}: native cost == (K >> 8) + 1 == {want}, cost-function bits 0, not reserved",
              site=g.where(0), detail={"operator": g.path, "charged": sorted(c for c in costs if c is not None), "unknown-op cost": want,
                                       "cost function bits": (K & 0xC0) >> 6})
        muts = mutates_allocator(cr, g)
        ck.ob("R08b", f"{g.path}|nil, no allocation", nodes == {"Allocator::nil(&a)"} or (len(nodes) == 1 and list(nodes)[0].startswith("Allocator::nil(")) and not muts if True else False,
              "every successful return is (cost, nil) and the operator calls no allocator-mutating function",
              site=g.where(0), detail={"result nodes": sorted(nodes), "mutating calls": muts})
        if muts:
            ck.ob("R08b", f"{g.path}|mutation", False, "operator must not mutate the allocator", site=g.where(0), detail=muts)
    # the fall-through of the 4-byte match goes to the unknown-operator path (R09d checks its arguments)
    other = [tgt for tgt, v in d.succ(sw) if v == "otherwise"]
    fall = any((d.term(b).get("callee") or "") == "chia_dialect::unknown_operator" for b in d.reach_from(other)) if other else False
    ck.ob("R08a", D + "|fall-through", fall, "every other 4-byte opcode takes the unknown-operator path", site=d.where(sw))

    # R08c
    ap = cr.fn(RP + "apply_op")
    ck.analysed(ap)
    ap.status()
    ps = ap.calls_to(RP + "parse_softfork_arguments")
    if len(ps) != 1:
        raise mir.AnchorMissing("apply_op: parse_softfork_arguments call not found")
    pb = ps[0][0]
    sw2 = None
    for b in ap.reach_from([pb]):
        dv = ap.discr_variants(b)
        if dv and set(dv.values()) == {"Ok", "Err"}:
            sw2 = (b, dv)
            break
    ok = False
    det = {}
    if sw2:
        b, dv = sw2
        err_edge = [tgt for tgt, v in ap.succ(b) if v != "otherwise" and dv[v] == "Err"][0]
        region = ap.reach_from([err_edge])
        okret = [x for x in region if ap._last_ret.get(x) == "OK"]
        rets = []
        for x in okret:
            for st in ap.stmts(x):
                if st.get("d") and st["d"]["l"] == 0:
                    rets.append(show(ap.expr_rvalue(st["rv"], deep=False)))
        pushes_ = [show(ap.expr_op(t["args"][1])) for bb, t in ap.calls_to(RP + "push") if bb in region]
        guards = [bb for bb, t in ap.calls() if bb in region and ("softfork_stack" in show(ap.expr_op(t["args"][0], deep=False)) if t.get("args") else False)
                  and (t.get("callee") or "").endswith("::push")]
        cps = [bb for bb, t in ap.calls() if bb in region and (t.get("callee") or "").endswith("Allocator::checkpoint")]
        # under allow_unknown_ops
        gated = any(t["flag"] == "NO_UNKNOWN_OPS" and okret and ap.dominates(t["clear_edge"], okret[0]) for t in fr.flag_tests(ap))
        det = {"returns": rets, "pushes": pushes_, "guard pushes": len(guards), "checkpoints": len(cps), "gated by allow_unknown_ops": gated}
        # the value returned there is the declared cost: uint_atom of the first argument (deep form, no local names)
        deep_rets = []
        for x in okret:
            for st in ap.stmts(x):
                if st.get("d") and st["d"]["l"] == 0:
                    deep_rets.append(show(ap.denamed(ap.expr_rvalue(st["rv"]))))
        det["declared cost"] = [r[:140] for r in deep_rets]
        ok = len(deep_rets) == 1 and deep_rets[0].startswith("Ok(") and "uint_atom" in deep_rets[0] and "first(" in deep_rets[0] \
            and len(pushes_) == 1 and "Allocator::nil(" in pushes_[0] and not guards and not cps and gated
    ck.ob("R08c", RP + "apply_op|softfork not understood", ok,
          "an unintelligible softfork call (allowed unknown ops) pushes nil, returns exactly the declared cost, enters no guard, takes no checkpoint",
          site=ap.where(sw2[0]) if sw2 else ap.where(0), detail=det)
