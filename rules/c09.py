"""C09 — unknown operators follow the published opcode cost rule (structural clauses).

R09a  order and caps in op_unknown: the reserved test (empty / ffff prefix -> Reserved) precedes everything;
      the multiplier is read through u32_from_u8, which refuses more than 4 bytes (-> Invalid); the
      cost-function selector is (last & 0xc0) >> 6; check_cost(base) precedes the multiplication; the
      test  cost > u32::MAX -> Invalid  dominates the Ok return, which yields nil.
R09b  every arithmetic step from the checked base to the returned cost is overflow-checked with the
      failure edge an error, in BOTH cost models.
R09c  cost functions 1/2/3 read only cost constants that op_add / op_multiply / op_concat read.
R09d  routing: op_unknown is called only from the two dialects' unknown-operator paths, only when
      NO_UNKNOWN_OPS is clear, with (allocator, op, args, max_cost, flags) forwarded unchanged.
"""
from lib import mir, flagregion as fr
from lib.mir import strip, show, walk, compare_norm, show_norm
from rules.c07 import exclusive_region, is_test_fn

F = "more_ops::op_unknown"


def named_consts(f, blocks):
    out = set()
    for b in blocks:
        ops = []
        for st in f.stmts(b):
            if "rv" in st:
                ops += mir.rvalue_operands(st["rv"])
        t = f.term(b)
        ops += t.get("args", [])
        if t["k"] == "switch":
            ops.append(t["on"])
        for o in ops:
            if isinstance(o, dict) and "c" in o and o["c"].get("name") and "val" in o["c"]:
                n = o["c"]["name"]
                if n.split("::")[-1].isupper() or "_COST" in n:
                    out.add(n.split("::")[-1])
    return out


def run(ctx):
    ck = ctx.check
    cr = ctx.crate("default")
    ck.rule("R09a", "op_unknown: order of rejection checks, 4-byte multiplier cap, selector bits, base checked before multiplying, 32-bit cap dominates Ok(nil)")
    ck.rule("R09b", "the multiplication by (multiplier+1) is overflow-checked in both cost models")
    ck.rule("R09c", "cost functions 1/2/3 use only cost constants of op_add / op_multiply / op_concat")
    ck.rule("R09d", "op_unknown is reached only through the dialects' unknown-operator paths, only when NO_UNKNOWN_OPS is clear, arguments unchanged")
    f = cr.fn(F)
    ck.analysed(f)
    f.status()
    reach = f.reachable_blocks()

    # --- anchors inside op_unknown
    u32 = f.calls_to("op_utils::u32_from_u8")
    if len(u32) != 1:
        raise mir.AnchorMissing("op_unknown: call of u32_from_u8 (multiplier) not found exactly once")
    ub = u32[0][0]
    # reserved test
    res_blocks = [b for b in reach if f.is_error_block(b) and "Reserved" in f.err_variants_from(b)]
    after_ub = f.reach_from([ub])
    res_sw = [b for b in reach if f.term(b)["k"] == "switch" and b not in after_ub and f.bool_edges(b)
              and any(x in res_blocks for x in f.reach_from([b], blocked={ub}))]
    conds = [show(f.switch_cond(b)) + " / " + show_norm(compare_norm(f.switch_cond(b))) for b in sorted(res_sw)]
    ok = bool(res_sw) and all(f.dominates(min(res_sw), ub) for _ in [0]) and not any(
        f.term(x)["k"] == "call" and not fr.is_pure_callee(f.term(x).get("callee")) and not (f.term(x).get("callee") or "").endswith("Allocator::atom")
        for x in f.dominators(min(res_sw)) if x != min(res_sw))
    has_empty = any("is_empty" in c for c in conds)
    has_ff = any("[0] -255 ==0" in c for c in conds) and any("[1] -255 ==0" in c for c in conds)
    ck.ob("R09a", F + "|reserved first", ok and has_empty and has_ff,
          "the reserved test (empty opcode, or first two bytes ff ff) precedes every other check and yields Reserved",
          site=f.where(min(res_sw)) if res_sw else f.where(0), detail=conds)
    # multiplier cap: u32_from_u8_impl refuses > 4 bytes
    impl = cr.fn("op_utils::u32_from_u8_impl")
    ck.analysed(impl)
    caps = []
    for b in impl.reachable_blocks():
        if impl.term(b)["k"] == "switch":
            n = compare_norm(impl.switch_cond(b))
            if n and "len($1)" in impl.unparam(n[0]):
                caps.append(show_norm((impl.unparam(n[0]), n[1], n[2])))
    ck.ob("R09a", "op_utils::u32_from_u8_impl|4-byte cap", "+len($1) -4 >0" in caps,
          "a multiplier of more than 4 bytes (opcode longer than 5 bytes) is refused", site=impl.where(0), detail=caps)
    # None -> Invalid
    nb = u32[0][1]["target"]
    inv = False
    dst = u32[0][1]["dst"]["l"]
    for b in sorted(f.reachable_blocks()):
        dv = f.discr_variants(b)
        if not dv or set(dv.values()) != {"None", "Some"} or f.term(b)["k"] != "switch":
            continue
        # the switch on the result of u32_from_u8 itself (its discriminant is read from the call's destination)
        src = [st["rv"]["discr"]["l"] for bb in f.dominators(b) for st in f.stmts(bb) if "rv" in st and "discr" in st["rv"]
               and mir.op_place(f.term(b)["on"]) and st["d"]["l"] == mir.op_place(f.term(b)["on"])["l"]]
        if dst not in src:
            continue
        for tgt, v in f.succ(b):
            if v != "otherwise" and dv[v] == "None" and f.is_error_block(tgt) and "Invalid" in f.err_variants_from(tgt):
                inv = True
            if v == "otherwise" and "None" not in [dv[x] for _, x in f.succ(b) if x != "otherwise"] and f.is_error_block(tgt) \
                    and "Invalid" in f.err_variants_from(tgt):
                inv = True
    ck.ob("R09a", F + "|too long -> Invalid", inv, "an opcode whose multiplier does not fit 4 bytes fails with Invalid", site=f.where(nb))
    # selector
    sel = None
    for b in sorted(reach):
        t = f.term(b)
        if t["k"] == "switch" and t.get("ty") == "u8":
            e = strip(f.expr_op(t["on"]))
            sel = (b, e)
            break
    oksel = False
    if sel:
        e = sel[1]
        oksel = e[0] == "bin" and e[1] == "Shr" and mir.const_eval(e[3]) == 6 and strip(e[2])[0] == "bin" and strip(e[2])[1] == "BitAnd" \
            and mir.const_eval(strip(e[2])[3]) == 0xC0
        vals = sorted(v for _, v in f.succ(sel[0]) if v != "otherwise")
        oksel = oksel and vals[:4] == [0, 1, 2, 3][:len(vals)] and set(vals) >= {1, 2, 3}
    ck.ob("R09a", F + "|selector", oksel, "the cost function is selected by bits 7..6 of the last opcode byte: (last & 0xc0) >> 6",
          site=f.where(sel[0]) if sel else f.where(0), detail=show(sel[1]) if sel else None)

    # the multiplication(s)
    mults = []
    for b in sorted(reach):
        t = f.term(b)
        if t["k"] == "call" and (t.get("callee") or "").split("::")[-1] in ("checked_mul", "wrapping_mul", "saturating_mul", "overflowing_mul", "unchecked_mul"):
            args = [show(f.expr_op(a, deep=False)) for a in t["args"]]
            # the multiplier is the value that comes from u32_from_u8 (by provenance, not by name)
            if any("op_utils::u32_from_u8(" in show(f.expr_op(a)) for a in t["args"]):
                mults.append((b, (t.get("callee") or "").split("::")[-1], args))
        for st in f.stmts(b):
            rv = st.get("rv", {})
            if "bin" in rv and rv["bin"][0].startswith("Mul"):
                txt = show(f.expr_rvalue(rv, deep=False))
                if "op_utils::u32_from_u8(" in show(f.expr_rvalue(rv)) and "len(" not in txt:
                    mults.append((b, "plain *", [txt]))
    ck.floor("multiplier applications in op_unknown", len(mults), 1)
    # final check_cost dominating the multiplications
    ccs = [(b, t) for b, t in f.calls_to("cost::check_cost")]
    # model test
    model_tests = [t for t in fr.flag_tests(f) if t["flag"] == "NEW_COST_MODEL"]
    for b, kind, args in mults:
        pre = [cb for cb, ct in ccs if f.dominates(cb, b) and f.question_mark(cb) and f.dominates(f.question_mark(cb)[0], b)
               and not f.in_loop(cb)]
        ck.ob("R09a", F + f"|base checked before {kind}", bool(pre),
              "check_cost(base, max_cost) precedes the multiplication (the base, not the product, is compared with the budget)",
              site=f.where(b), detail={"check_cost blocks": pre})
        # which model controls this multiplication?  (flag tests are read through stored bools, whatever they are called)
        arm = "unconditional"
        for mt in model_tests:
            k = mt["block"]
            if not f.dominates(k, b) or mt["set_edge"] == mt["clear_edge"]:
                continue
            if f.dominates(mt["set_edge"], b):
                arm = "new cost model"
            elif f.dominates(mt["clear_edge"], b):
                arm = "classic cost model"
        checked = kind == "checked_mul"
        if checked:
            # None edge must be an error
            nxt = f.term(b)["target"]
            good = False
            for x in f.reach_from([nxt]):
                t = f.term(x)
                if t["k"] == "call" and (t.get("callee") or "").endswith("::ok_or"):
                    q = f.question_mark(x)
                    good = bool(q) and f.is_error_block(q[1])
                    break
            checked = good
        ck.ob("R09b", F + f"|{kind} ({arm})", checked,
              "base * (multiplier + 1) is computed with overflow detection and overflow is an error",
              site=f.where(b),
              detail=("checked_mul(..).ok_or(Err)?" if checked else
                      {"operation": kind, "operands": args,
                       "why": "a product that exceeds 64 bits wraps around and may land below 2^32-1: the operator then succeeds with a small cost instead of failing"}))
    # u32::MAX cap dominates Ok
    okb = [b for b in reach if f._last_ret.get(b) == "OK"]
    cap = None
    for b in sorted(reach):
        if f.term(b)["k"] == "switch":
            n = compare_norm(f.switch_cond(b))
            if n and n[1] == -4294967295 and n[2] == ">0" and list(n[0].values()) == [1]:
                be = f.bool_edges(b)
                if f.is_error_block(be[0]) and "Invalid" in f.err_variants_from(be[0]):
                    cap = (b, be[1])
    good = cap is not None and bool(okb) and all(f.dominates(cap[1], b) for b in okb)
    nil_ok = False
    for b in okb:
        for st in f.stmts(b):
            if st.get("d") and st["d"]["l"] == 0:
                e = show(f.expr_rvalue(st["rv"]))
                nil_ok = "Allocator::nil(" in e and "Reduction(" in e
    ck.ob("R09a", F + "|32-bit cap", good and nil_ok, "cost > u32::MAX -> Invalid dominates the only Ok return, which yields (cost, nil)",
          site=f.where(cap[0]) if cap else f.where(0), detail={"ok_blocks": okb})
    # cap is applied to the product: the compared value is the multiplied cost (dominated by every multiplication's join)
    # R09c
    if sel:
        sb = sel[0]
        join = f.ipdom().get(sb)
        arms = {v: f.reach_from([tgt], blocked={join} if join is not None else ()) for tgt, v in f.succ(sb) if v != "otherwise"}
        sib = {1: ["more_ops::op_add"], 2: ["more_ops::op_multiply"], 3: ["more_ops::op_concat"]}
        for v, paths in sib.items():
            mine = named_consts(f, arms.get(v, ()))
            theirs = set()
            for p in paths:
                g = cr.fn(p)
                ck.analysed(g)
                theirs |= named_consts(g, g.reachable_blocks())
                for c in cr.callgraph().get(p, ()):
                    if c in cr.fns and c.startswith("more_ops::"):
                        theirs |= named_consts(cr.fns[c], cr.fns[c].reachable_blocks())
            cost_consts = {c for c in mine if "COST" in c}
            ck.ob("R09c", F + f"|cost function {v}", bool(cost_consts) and cost_consts <= theirs,
                  f"cost function {v} uses only the cost constants of {paths[0].split('::')[-1]}", site=f.where(sb),
                  detail={"op_unknown": sorted(cost_consts), "not in sibling": sorted(cost_consts - theirs)})

    # the add-like function's size model: the running operand size that is charged as max(acc, len) must be carried on as exactly
    # that maximum (the documented model: acc = max(acc, len)); an accumulator that is overwritten with the last length
    # undercharges every later, shorter argument.  The accumulator is found by role: a local that is an operand of a max() whose
    # result is charged, and that is reassigned inside the loop.
    accs = {}
    for b, t in f.calls():
        if (t.get("callee") or "").endswith("Ord::max") and f.in_loop(b):
            for a_ in t["args"]:
                e_ = strip(f.expr_op(a_, deep=False))
                # carried across iterations: initialised before the loop and reassigned inside it
                if e_[0] in ("var", "named") and e_[2] > f.nargs and any(f.in_loop(d_[0]) for d_ in f.defs(e_[2])) \
                        and any(not f.in_loop(d_[0]) for d_ in f.defs(e_[2])):
                    accs.setdefault(e_[2], []).append(b)
    ck.floor("size accumulators charged through max() in op_unknown", len(accs), 1)
    for l, maxes in sorted(accs.items()):
        bad = []
        for d_ in f.defs(l):
            if not f.in_loop(d_[0]):
                continue
            if d_[1] == "T":
                t = f.term(d_[0])
                okd = (t.get("callee") or "").endswith("Ord::max") and any(
                    strip(f.expr_op(a_, deep=False))[0] in ("var", "named") and strip(f.expr_op(a_, deep=False))[2] == l for a_ in t["args"])
            else:
                e_ = strip(f.expr_rvalue(f.def_rvalue(d_), deep=False))
                okd = (e_[0] in ("bin", "chk") and e_[1].startswith("Add") and any(strip(x)[0] in ("var", "named") and strip(x)[2] == l for x in e_[2:4])) or \
                    (e_[0] == "call" and e_[1].endswith("Ord::max") and any(strip(x)[0] in ("var", "named") and strip(x)[2] == l for x in e_[2]))
            if not okd:
                bad.append(f.where(d_[0], f.stmts(d_[0])[d_[1]]["ln"]) if d_[1] != "T" else f.where(d_[0]))
        ck.ob("R09c", F + f"|size accumulator #{sorted(accs).index(l)}", not bad,
              "a running operand size that is charged through max(acc, len) is updated to max(acc, ..) (or grows by addition), never overwritten",
              site=f.where(maxes[0]), detail={"overwritten at": bad})

    # R09d routing
    allowed = {"chia_dialect::unknown_operator", "<runtime_dialect::RuntimeDialect as dialect::Dialect>::op"}
    callers = [(g, b) for g, b in cr.callers_of(F) if not is_test_fn(g) and g.path != "more_ops::test_op_unknown"]
    for g, b in callers:
        ck.analysed(g)
        inreg = False
        for t in fr.flag_tests(g):
            if t["flag"] == "NO_UNKNOWN_OPS" and b in exclusive_region(g, t, "clear"):
                inreg = True
        tcall = g.term(b)
        args = [show(g.expr_op(a, deep=False)).replace("&mut ", "").replace("*", "") for a in tcall["args"]]
        # (allocator, o, args, max_cost, flags): every argument is a plain parameter / the dialect's flags field
        plain = all(a.replace("self.", "").isidentifier() for a in args)
        ck.ob("R09d", f"{g.path} -> op_unknown", g.path in allowed and inreg and plain,
              "op_unknown is called only from an unknown-operator path, only when NO_UNKNOWN_OPS is clear, with its arguments forwarded unchanged",
              site=g.where(b), detail={"args": args, "under NO_UNKNOWN_OPS-clear": inreg})
    ck.floor("callers of op_unknown", len(callers), 1)
    # ChiaDialect::op reaches unknown ops only through unknown_operator, forwarding its arguments
    d = cr.fn("<chia_dialect::ChiaDialect as dialect::Dialect>::op")
    ck.analysed(d)
    uo = d.calls_to("chia_dialect::unknown_operator")
    ck.floor("unknown_operator call sites in ChiaDialect::op", len(uo), 2)
    for b, t in uo:
        # by position, not by name: (self, allocator, o, argument_list, max_cost, extension) are $1..$6; the flags argument is
        # the dialect's own flag set (self.flags, possibly widened by the extension)
        args = [d.unparam(show(d.expr_op(a, deep=False))).replace("&mut ", "").replace("*", "") for a in t["args"]]
        e3 = strip(d.expr_op(t["args"][3], deep=False)) if len(t["args"]) == 5 else ("none",)
        if e3[0] in ("var", "named") and e3[2] > d.nargs and "ClvmFlags" in d.local_ty(e3[2]):
            srcs = [show(d.expr_rvalue(d.def_rvalue(s_), deep=False)) for s_ in d.defs(e3[2])]
            if srcs and all("self.flags" in x for x in srcs):
                args[3] = "FLAGS"
        ok = args == ["$2", "$3", "$4", "FLAGS", "$5"] and t["dst"]["l"] == 0
        ck.ob("R09d", f"{d.path}|unknown_operator@{'+'.join(args)}", ok,
              "the unknown-operator path receives (allocator, o, argument_list, flags, max_cost) unchanged and its result is returned",
              site=d.where(b), detail=args)
