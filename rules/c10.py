"""C10 — operator costs follow the documented cost models (table / structure clauses).

R10a  classic table: for every classic opcode (resolved through ChiaDialect's dispatch switch, not by
      name) the set of classic named cost constants the operator reads equals the published row
      (oracle/classic_costs.json); interpreter constants (quote, apply, op, path lookup) likewise.
R10b  documented relations between constants: coinid = sha256(3 args, 72 bytes) - 153 in both models;
      g1_subtract = point_add; g2_add = g2_subtract; sha256tree per-byte = sha256 per-byte in both models.
R10c  model discipline: a NEW_* cost constant is read only in code controlled by NEW_COST_MODEL being set,
      and its classic counterpart only where it is clear (or selected by a model test); under the new
      model the per-argument terms of add/sub/log* contain max(., limbs), div/divmod/mod use
      compute_new_div_cost, modpow uses compute_modpow_cost.
R10d  sha256tree: the native formula OP + QUOTE + BASE + pairs*PAIR + sum(len+1)*PER_BYTE + 32*MALLOC
      with the constants read from source reproduces the four figures printed in docs/sha256tree.md, and
      the walk has no sharing shortcut: both children of every pair are pushed unconditionally, the work
      list has exactly the two item kinds, and every cost update is followed by check_cost.
"""
import json
import os
import re
from lib import mir, flagregion as fr, facts
from lib.mir import strip, show, walk
from rules.c07 import exclusive_region, is_test_fn
from rules.c11 import closure_flag_tests

D = "<chia_dialect::ChiaDialect as dialect::Dialect>::op"


def cost_consts(cr, f, depth=0, seen=None):
    """named u64 constants read by f and by its non-operator crate-local callees (depth 2)"""
    seen = seen if seen is not None else set()
    out = {}
    for b in f.reachable_blocks():
        ops = []
        for st in f.stmts(b):
            if "rv" in st:
                ops += mir.rvalue_operands(st["rv"])
        t = f.term(b)
        ops += t.get("args", [])
        for o in ops:
            if isinstance(o, dict) and "c" in o and o["c"].get("name") and "val" in o["c"] and o["c"].get("ty") == "u64":
                out[o["c"]["name"].split("::")[-1]] = o["c"]["val"]
        if t["k"] == "call" and depth < 2:
            c = t.get("callee")
            if c in cr.fns and c not in seen and not c.split("::")[-1].startswith("op_") and c != f.path:
                seen.add(c)
                out.update(cost_consts(cr, cr.fns[c], depth + 1, seen))
    # closures
    for b in f.reachable_blocks():
        for st in f.stmts(b):
            rv = st.get("rv", {})
            if "agg" in rv and isinstance(rv["agg"][0], dict) and "closure" in rv["agg"][0]:
                g = cr.fns.get(rv["agg"][0]["closure"])
                if g is not None and g.path not in seen:
                    seen.add(g.path)
                    out.update(cost_consts(cr, g, depth + 1, seen))
    return out


def dispatch_table(cr):
    d = cr.fn(D)
    for b in sorted(d.reachable_blocks()):
        t = d.term(b)
        if t["k"] == "switch" and t.get("ty") == "u32" and len(t["targets"]) > 20:
            tab = {}
            for tgt, v in d.succ(b):
                if v == "otherwise":
                    continue
                fns = set()
                for bb in sorted(d.reach_from([tgt])):
                    for st in d.stmts(bb):
                        if "rv" in st:
                            for o in mir.rvalue_operands(st["rv"]):
                                fn = mir.const_fn(o)
                                if fn:
                                    fns.add(fn)
                    if fns:
                        break
                tab[v] = sorted(fns)
            return d, b, tab
    raise mir.AnchorMissing("ChiaDialect::op: one-byte opcode dispatch switch not found")


def run(ctx):
    ck = ctx.check
    cr = ctx.crate("default")
    ck.rule("R10a", "classic cost constants of every classic operator equal the published table (by value, resolved through the dispatch switch)")
    ck.rule("R10b", "documented relations between cost constants hold in both models")
    ck.rule("R10c", "NEW_* constants are used only under NEW_COST_MODEL, classic counterparts only without it; new-model formula skeletons")
    ck.rule("R10d", "sha256tree: formula reproduces the documented figures; no sharing shortcut; every cost update is checked")
    with open(os.path.join(facts.VERIF, "oracle", "classic_costs.json")) as f:
        oracle = json.load(f)

    d, sb, tab = dispatch_table(cr)
    ck.analysed(d)
    # ---- R10a
    for op, want in sorted(oracle["rows"].items(), key=lambda x: int(x[0])):
        op = int(op)
        fns = tab.get(op, [])
        if len(fns) != 1 or fns[0] not in cr.fns:
            ck.ob("R10a", f"opcode {op}", False, "opcode is routed to exactly one operator function", site=d.where(sb), detail=fns)
            continue
        g = cr.fns[fns[0]]
        ck.analysed(g)
        cs = {n: v for n, v in cost_consts(cr, g).items() if not n.startswith("NEW_")}
        got = sorted(set(cs.values()))
        ck.ob("R10a", f"opcode {op} ({g.path.split('::')[-1]})", got == sorted(set(want)),
              f"classic cost constants of opcode {op} are {sorted(set(want))}", site=g.where(0),
              detail={"constants read": cs, "published": sorted(set(want))})
    ck.floor("classic opcode rows", len(oracle["rows"]), 27)
    vals = {}
    for name, v in oracle["interpreter"].items():
        found = [c for p, cl in cr.consts.items() for c in cl if p.split("::")[-1] == name and "val" in c]
        got = found[0]["val"] if found else None
        vals[name] = got
        ck.ob("R10a", f"interpreter {name}", got == v, f"{name} == {v}", detail={"value": got})
    # the interpreter uses them: quote in eval_op_atom, apply in apply_op, op cost in eval_pair, traversal in both path functions
    uses = {
        "QUOTE_COST": "run_program::RunProgramContext::<'a, D>::eval_op_atom",
        "APPLY_COST": "run_program::RunProgramContext::<'a, D>::apply_op",
        "OP_COST": "run_program::RunProgramContext::<'a, D>::eval_op_atom",
    }
    for cname, fpath in uses.items():
        g = cr.fn(fpath)
        ck.analysed(g)
        cs = cost_consts(cr, g, depth=2)
        cl = {}
        for b, t in g.calls():
            pass
        # constants may be used inside closures (map(|c| c + APPLY_COST))
        allc = dict(cs)
        for p, h in cr.fns.items():
            if p.startswith(fpath + "::{closure"):
                allc.update(cost_consts(cr, h, depth=2))
        ck.ob("R10a", f"{fpath.split('::')[-1]} uses {cname}", cname in allc, f"{cname} is charged by {fpath.split('::')[-1]}", site=g.where(0),
              detail=sorted(allc))
    for p in ("traverse_path::traverse_path", "traverse_path::traverse_path_fast"):
        g = cr.fn(p)
        ck.analysed(g)
        cs = cost_consts(cr, g)
        ck.ob("R10a", p, set(cs) >= {"TRAVERSE_BASE_COST", "TRAVERSE_COST_PER_BIT", "TRAVERSE_COST_PER_ZERO_BYTE"},
              "both path-lookup implementations charge base + per-bit + per-zero-byte", site=g.where(0), detail=cs)

    # ---- R10b
    def cv(name):
        found = [c for p, cl in cr.consts.items() for c in cl if p.split("::")[-1] == name and "val" in c]
        if not found:
            raise mir.AnchorMissing(f"constant {name} not found")
        return found[0]["val"]

    rel = [
        ("COINID_COST == SHA256_BASE_COST + 3*SHA256_COST_PER_ARG + 72*SHA256_COST_PER_BYTE - 153",
         lambda: cv("COINID_COST") == cv("SHA256_BASE_COST") + 3 * cv("SHA256_COST_PER_ARG") + 72 * cv("SHA256_COST_PER_BYTE") - 153),
        ("NEW_COINID_COST == NEW_SHA256_BASE_COST + 3*NEW_SHA256_COST_PER_ARG + 72*NEW_SHA256_COST_PER_BYTE - 153",
         lambda: cv("NEW_COINID_COST") == cv("NEW_SHA256_BASE_COST") + 3 * cv("NEW_SHA256_COST_PER_ARG") + 72 * cv("NEW_SHA256_COST_PER_BYTE") - 153),
        ("BLS_G1_SUBTRACT_BASE_COST == POINT_ADD_BASE_COST", lambda: cv("BLS_G1_SUBTRACT_BASE_COST") == cv("POINT_ADD_BASE_COST")),
        ("BLS_G1_SUBTRACT_COST_PER_ARG == POINT_ADD_COST_PER_ARG", lambda: cv("BLS_G1_SUBTRACT_COST_PER_ARG") == cv("POINT_ADD_COST_PER_ARG")),
        ("BLS_G2_ADD_BASE_COST == BLS_G2_SUBTRACT_BASE_COST", lambda: cv("BLS_G2_ADD_BASE_COST") == cv("BLS_G2_SUBTRACT_BASE_COST")),
        ("BLS_G2_ADD_COST_PER_ARG == BLS_G2_SUBTRACT_COST_PER_ARG", lambda: cv("BLS_G2_ADD_COST_PER_ARG") == cv("BLS_G2_SUBTRACT_COST_PER_ARG")),
        ("SHA256TREE_COST_PER_BYTE == SHA256_COST_PER_BYTE", lambda: cv("SHA256TREE_COST_PER_BYTE") == cv("SHA256_COST_PER_BYTE")),
        ("NEW_SHA256TREE_COST_PER_BYTE == NEW_SHA256_COST_PER_BYTE", lambda: cv("NEW_SHA256TREE_COST_PER_BYTE") == cv("NEW_SHA256_COST_PER_BYTE")),
        ("MALLOC_COST_PER_BYTE == 10", lambda: cv("MALLOC_COST_PER_BYTE") == 10),
    ]
    for text, fn in rel:
        ck.ob("R10b", text, fn(), text)

    # ---- R10c
    all_names = {p.split("::")[-1] for p in cr.consts}
    n_reads = 0
    # helper functions that exist for one model only (every call site lies in a NEW_COST_MODEL-set region) and
    # helpers that receive the model as a bool parameter (every caller passes flags.contains(NEW_COST_MODEL))
    new_only, param_tests = set(), {}
    for g in cr.fns.values():
        if is_test_fn(g) or g.d["kind"] == "Closure":
            continue
        sites = [(h, b) for h, b in cr.callers_of(g.path) if not is_test_fn(h)]
        if not sites:
            continue
        allset = True
        for h, b in sites:
            ts = [t for t in fr.flag_tests(h) if t["flag"] == "NEW_COST_MODEL"]
            if not any(b in exclusive_region(h, t, "set") for t in ts):
                allset = False
        if allset:
            new_only.add(g.path)
        for i in range(1, g.nargs + 1):
            if g.local_ty(i) != "bool":
                continue
            ok = True
            for h, b in sites:
                a = h.term(b)["args"]
                fl = fr.flag_of(h.expr_op(a[i - 1])) if i - 1 < len(a) else None
                if fl != ("NEW_COST_MODEL", True):
                    ok = False
            if ok:
                for sb2 in sorted(g.reachable_blocks()):
                    t2 = g.term(sb2)
                    if t2["k"] == "switch" and t2.get("ty") == "bool":
                        pl = mir.op_place(t2["on"])
                        e2 = strip(g.expr_op(t2["on"], deep=False))
                        if e2[0] == "var" and e2[2] == i:
                            be2 = g.bool_edges(sb2)
                            param_tests.setdefault(g.path, []).append(
                                dict(block=sb2, flag="NEW_COST_MODEL", set_edge=be2[0], clear_edge=be2[1], line=t2["ln"]))
    extra_fns = [cr.fns[p] for p in sorted(new_only | set(param_tests))]
    for f in sorted(cr.fns.values(), key=lambda x: x.path):
        if is_test_fn(f) or f.d["kind"] == "Closure":
            continue
        pairs = [(f, t) for t in fr.flag_tests(f) if t["flag"] == "NEW_COST_MODEL"] + \
                [(g, t) for g, t in closure_flag_tests(f, cr) if t["flag"] == "NEW_COST_MODEL"]
        fns_here = {f.path: f}
        for g, _ in pairs:
            fns_here[g.path] = g
        for g in fns_here.values():
            tests = [t for gg, t in pairs if gg is g] + param_tests.get(g.path, [])
            set_reg, clr_reg = set(), set()
            for t in tests:
                set_reg |= exclusive_region(g, t, "set")
                clr_reg |= exclusive_region(g, t, "clear")
            if g.path in new_only:
                set_reg = set(g.reachable_blocks())
            for b in sorted(g.reachable_blocks()):
                ops = []
                for st in g.stmts(b):
                    if "rv" in st:
                        ops += mir.rvalue_operands(st["rv"])
                ops += g.term(b).get("args", [])
                for o in ops:
                    if not (isinstance(o, dict) and "c" in o and o["c"].get("name") and o["c"].get("ty") == "u64"):
                        continue
                    name = o["c"]["name"].split("::")[-1]
                    if name.startswith("NEW_"):
                        n_reads += 1
                        ck.ob("R10c", f"{g.path}|{name}", b in set_reg,
                              f"{name} is read only where NEW_COST_MODEL is set", site=g.where(b),
                              detail="under the new model" if b in set_reg else "read on a path that is also taken under the classic model")
                    elif ("NEW_" + name) in all_names and tests:
                        n_reads += 1
                        ck.ob("R10c", f"{g.path}|{name}", b in clr_reg,
                              f"{name} (which has a NEW_ counterpart) is read only where NEW_COST_MODEL is clear", site=g.where(b),
                              detail="under the classic model" if b in clr_reg else "read on a path that is also taken under the new model")
    ck.floor("model-specific constant reads", n_reads, 40)
    # skeletons
    for p in ("more_ops::op_add", "more_ops::op_subtract", "more_ops::binop_reduction"):
        f = cr.fn(p)
        pairs = [(f, t) for t in fr.flag_tests(f) if t["flag"] == "NEW_COST_MODEL"] + \
                [(g, t) for g, t in closure_flag_tests(f, cr) if t["flag"] == "NEW_COST_MODEL"]
        k = 0
        for g, t in pairs:
            reg = exclusive_region(g, t, "set")
            # does this arm update the cost?
            upd = False
            for b in reg:
                for st in g.stmts(b):
                    d0 = st.get("d")
                    if d0 and (g.local_name(d0["l"]) == "cost" or "cost" in show(g.expr_place(d0, deep=False))):
                        upd = True
            if not upd:
                continue
            k += 1
            cal = [(g.term(b).get("callee") or "") for b in reg if g.term(b)["k"] == "call"]
            has = any(c.endswith("::max") for c in cal) and any(c.endswith("::limbs") for c in cal)
            ck.ob("R10c", f"{g.path}|new per-argument term #{k}", has,
                  "under the new model the per-argument size is max(accumulator magnitude, argument length)", site=f"{g.file}:{t['line']}",
                  detail=sorted(set(c.split("::")[-1] for c in cal)))
        # counted on the tree the rule was frozen on: one term per (argument representation x position class)
        ck.floor(f"new-model per-argument terms in {p.split('::')[-1]}", k,
                 {"more_ops::op_add": 2, "more_ops::op_subtract": 4, "more_ops::binop_reduction": 1}[p])
    for p, helper in (("more_ops::op_div", "more_ops::compute_new_div_cost"), ("more_ops::op_divmod", "more_ops::compute_new_div_cost"),
                      ("more_ops::op_mod", "more_ops::compute_new_div_cost"), ("more_ops::op_modpow", "more_ops::compute_modpow_cost")):
        f = cr.fn(p)
        ck.ob("R10c", f"{p}|{helper.split('::')[-1]}", len(f.calls_to(helper)) == 1, f"{p.split('::')[-1]} computes its cost through {helper.split('::')[-1]}",
              site=f.where(0))

    # ---- R10d
    th = cr.fn("treehash::tree_hash_costed")
    ck.analysed(th)
    OP, QUOTE, MALLOC = cv("OP_COST"), cv("QUOTE_COST"), cv("MALLOC_COST_PER_BYTE")
    BASE, PAIR, PB = cv("SHA256TREE_BASE_COST"), cv("SHA256TREE_PAIR_COST"), cv("SHA256TREE_COST_PER_BYTE")
    figs = oracle["sha256tree_doc_figures"]["512-leaf complete tree, native cost by leaf size"]
    doc = ctx.read("docs/sha256tree.md")
    for leaf, want in figs.items():
        got = OP + QUOTE + BASE + 511 * PAIR + 512 * (int(leaf) + 1) * PB + 32 * MALLOC
        in_doc = re.search(r"Native:\s+\d+\s+" + str(want) + r"\b", doc) is not None
        ck.ob("R10d", f"docs figure leaf={leaf}", got == want and in_doc,
              f"native cost of the 512-leaf complete tree with {leaf}-byte leaves is {want} (docs/sha256tree.md)",
              detail={"formula value": got, "printed in docs": in_doc})
    # ------------------------------------------------------------------ R10e: what a per-byte constant multiplies
    ck.rule("R10e", "a per-byte cost constant multiplies a byte length of the operator's input (or a fixed result size), never the length of a constant or the magnitude of an argument")
    OPMODS = ("more_ops", "bls_ops", "secp_ops", "keccak256_ops", "core_ops", "op_utils", "sha_tree_op", "treehash")
    n_pb = 0
    for p_, f_ in sorted(cr.fns.items()):
        if is_test_fn(f_) or p_.split("::")[0] not in OPMODS:
            continue

        def israte(op):
            sx = show(f_.expr_op(op))
            if re.search(r"COST_PER_(\w+_)?BYTE\b", sx):
                return True
            e_ = strip(f_.expr_op(op, deep=False))
            if e_[0] in ("var", "named"):
                ds_ = [show(f_.expr_rvalue(f_.def_rvalue(d_))) for d_ in f_.defs(e_[2]) if d_[1] != "T"]
                if ds_ and all(re.search(r"COST_PER_(\w+_)?BYTE\b", x) for x in ds_):
                    return True
            # field k of a tuple selected per cost model: (BASE, PER_ARG, PER_BYTE) = if new { .. } else { .. }
            pl_ = mir.op_place(op)
            for _hop in range(3):       # through copy temporaries
                if pl_ and not pl_["p"] and len(f_.defs(pl_["l"])) == 1 and f_.defs(pl_["l"])[0][1] != "T" \
                        and "use" in f_.def_rvalue(f_.defs(pl_["l"])[0]) and mir.op_place(f_.def_rvalue(f_.defs(pl_["l"])[0])["use"]):
                    pl_ = mir.op_place(f_.def_rvalue(f_.defs(pl_["l"])[0])["use"])
            if pl_ and len(pl_["p"]) == 1 and isinstance(pl_["p"][0], dict) and str(pl_["p"][0].get("f", "")).isdigit():
                k_ = int(pl_["p"][0]["f"])
                els = []
                for d_ in f_.defs(pl_["l"]):
                    rv_ = f_.def_rvalue(d_) if d_[1] != "T" else {}
                    if "agg" in rv_ and rv_["agg"][0] == "tuple" and k_ < len(rv_["agg"][1]):
                        els.append(show(f_.expr_op(rv_["agg"][1][k_])))
                    else:
                        return False
                return bool(els) and all(re.search(r"COST_PER_(\w+_)?BYTE\b", x) for x in els)
            return False
        for b_ in sorted(f_.reachable_blocks()):
            items = []
            for st in f_.stmts(b_):
                rv = st.get("rv", {})
                if "bin" in rv and rv["bin"][0].startswith("Mul"):
                    items.append((rv["bin"][1], rv["bin"][2], st["ln"]))
            t_ = f_.term(b_)
            if t_["k"] == "call" and (t_.get("callee") or "").split("::")[-1] in ("checked_mul", "saturating_mul", "wrapping_mul") and len(t_["args"]) == 2:
                items.append((t_["args"][0], t_["args"][1], t_["ln"]))
            for x_, y_, ln_ in items:
                rx, ry = israte(x_), israte(y_)
                if rx == ry:
                    continue
                m_ = show(f_.expr_op(y_ if rx else x_))
                n_pb += 1
                why = None
                mc_ = re.search(r"::len\(&?\*?\(?&?\*?(b'[0-9a-f]*')", m_)
                if mc_:
                    # charging the length of a constant is right when the constant is what is processed (bls_verify's fixed
                    # domain-separation tag); it is wrong when the constant is only the DEFAULT of an optional operand (a local
                    # that is assigned the constant on one path and an input on another): then the operand given must be charged
                    lit = mc_.group(1)
                    default_of = []
                    for l_ in range(f_.nargs + 1, len(f_.locals)):
                        if f_.local_ty(l_) in ("u64", "usize", "u32", "u8", "i64", "bool") or f_.local_ty(l_).startswith("("):
                            continue        # the operand itself (bytes / Atom), not a number computed from it
                        ds_ = [show(f_.expr_rvalue(f_.def_rvalue(d_))) if d_[1] != "T" else "call" for d_ in f_.defs(l_)]
                        if len(ds_) >= 2 and any(lit in x for x in ds_) and any(lit not in x for x in ds_):
                            default_of.append(l_)
                    if default_of:
                        why = "the length of a constant that is only the default of an optional operand (the operand actually used must be charged)"
                elif re.search(r"::limbs\(&?\(", m_) or re.search(r"::limbs\(&?\*?\w+::", m_):
                    why = "the magnitude (limbs) of an argument value: arguments are charged by their atom length, only running accumulators by their magnitude"
                if why:
                    ck.ob("R10e", f"{p_}|per-byte term on {m_[:60]}", False, "a per-byte constant multiplies an input length or a fixed result size",
                          site=f_.where(b_, ln_), detail={"multiplicand": m_[:200], "why": why})
    ck.floor("per-byte cost terms in operator modules", n_pb, 30)

    # structure of the walk
    treeop = cr.adt("treehash::TreeOp")
    variants = [v["name"] for v in treeop["variants"]]
    ck.ob("R10d", "treehash::TreeOp", variants == ["SExp", "Cons"], "the work list has exactly two item kinds (visit, combine): no 'reuse' item",
          detail=variants)
    # pair arm: two unconditional child pushes
    pushes = []
    for b, t in th.calls():
        c = t.get("callee") or ""
        if c.endswith("Vec::<T, A>::push") and len(t["args"]) > 1:
            # the work list is the vector of TreeOp (by type); a pushed child is recognised by what it IS - field 0 / 1 of the
            # visited node's Pair payload - not by what the binding is called
            v = show(th.expr_op(t["args"][1]))
            m_ = re.match(r"SExp\(\(.* as Pair\)\.([01])\)$", v)
            if m_:
                v = "SExp(child %s of the visited pair)" % m_.group(1)
            pl_ = mir.op_place(t["args"][0])
            if pl_ and "Vec<treehash::TreeOp>" in th.local_ty(pl_["l"]):
                pushes.append((b, v))
    sexp_p = [(b, v) for b, v in pushes if v.startswith("SExp(")]
    cons_p = [(b, v) for b, v in pushes if v.startswith("Cons")]
    okp = len(sexp_p) == 2 and len(cons_p) == 1 and {v for _, v in sexp_p} == {"SExp(child 0 of the visited pair)", "SExp(child 1 of the visited pair)"}
    if okp:
        b1, b2 = sorted(b for b, _ in sexp_p)
        cb = cons_p[0][0]
        # straight line: cons push dominates both, the later post-dominates the earlier, no branch in between
        first, second = (b1, b2) if th.dominates(b1, b2) else (b2, b1)
        okp = th.dominates(cb, first) and th.dominates(first, second) and th.postdominates(second, cb)
    # ... and on every non-failing path through the Pair arm: from the arm's entry no path may get back to the loop
    # header (or to a normal return) without passing the two child pushes (a hash cache / sharing shortcut would)
    if okp:
        arm = None
        for x in th.dominators(sexp_p[0][0]):
            dv = th.discr_variants(x)
            if dv and (th.discr_enum(x) or "").endswith("NodeVisitor"):
                for tgt, v in th.succ(x):
                    if v in dv and dv[v] == "Pair":
                        arm = tgt
        loops_ = th.loops()
        hdrs = set(loops_)
        if arm is None or not hdrs:
            okp = False
        else:
            both = {b for b, _ in sexp_p}
            seen, work, escaped = set(), [arm], []
            while work:
                b = work.pop()
                if b in seen:
                    continue
                seen.add(b)
                if b in hdrs:
                    escaped.append(b)
                    continue
                passed = b in both and all(th.dominates(o, b) or o == b for o in both)
                if passed:
                    continue
                if th.is_error_block(b):
                    continue
                for tb, _ in th.succ(b):
                    work.append(tb)
            okp = not escaped
    ck.ob("R10d", "treehash::tree_hash_costed|pair arm", okp,
          "for every pair both children are pushed unconditionally (sub-trees are hashed, and charged, once per occurrence)",
          site=th.where(sexp_p[0][0]) if sexp_p else th.where(0), detail=[v for _, v in pushes])
    # every cost update followed by check_cost before the next loop iteration / return
    from rules.c02 import cost_accumulator
    cost_l = [cost_accumulator(th)]
    upd = [s for s in th.defs(cost_l[0])] if cost_l else []
    ccs = [b for b, _ in th.calls_to("cost::check_cost")]
    unchecked = []
    for (b, i) in upd:
        if b == 0 or not th.in_loop(b) and not any(th.dominates(b, c) for c in ccs):
            if th.in_loop(b) or any(th.dominates(b, c) for c in ccs):
                continue
            # initialisation
            if show(th.expr_rvalue(th.def_rvalue((b, i)), deep=False)) == "SHA256TREE_BASE_COST":
                continue
            unchecked.append(th.where(b))
        elif not any(th.dominates(b, c) and c in th.reach_from([b]) for c in ccs):
            unchecked.append(th.where(b))
    ck.ob("R10d", "treehash::tree_hash_costed|checked", not unchecked and len(ccs) >= 4,
          "every cost update is followed by a check_cost", site=th.where(0), detail={"updates": len(upd), "check_cost": len(ccs), "unchecked": unchecked})
    # the constants used per node kind
    cs = cost_consts(cr, th)
    ck.ob("R10d", "treehash::tree_hash_costed|constants", set(cs) >= {"SHA256TREE_BASE_COST", "SHA256TREE_PAIR_COST", "SHA256TREE_COST_PER_BYTE",
                                                                    "NEW_SHA256TREE_COST_PER_BYTE", "MALLOC_COST_PER_BYTE"},
          "base + per-pair + per-byte + result allocation are charged", site=th.where(0), detail=cs)
