"""C11 — operator results do not depend on the cost model.

R11 (T6 + forward taint)  For every test of NEW_COST_MODEL, the code that runs only under one model
(either edge) may (a) call only cost helpers / pure functions and (b) define only values that flow,
transitively, to COST SINKS: the cost accumulator, check_cost / checked_* arguments, comparisons whose
controlled edge is a CostExceeded error, and the cost slot of the result. A value defined under one
model must never reach the result node (Reduction.1), an argument of an `&mut Allocator` method other
than a cost argument, or bignum arithmetic. Audited exceptions are listed with their reason.
"""
from lib import mir, flagregion as fr
from lib.mir import strip, show, walk
from rules.c07 import exclusive_region, is_test_fn

FLAG = "NEW_COST_MODEL"
COST_HELPERS = {
    "more_ops::compute_new_div_cost", "more_ops::compute_modpow_cost", "cost::check_cost", "allocator::len_for_value",
    "number::Limbs::limbs", "op_utils::new_atom_and_cost", "more_ops::malloc_cost",
}
COST_HELPER_SUFFIXES = ("::checked_add", "::checked_mul", "::checked_sub", "::ok_or", "::max", "::min", "::limbs", "::div_ceil",
                        "::saturating_add", "::saturating_mul", "::unwrap_or", "::bits", "::len", "::wrapping_mul", "::wrapping_add",
                        "::checked_div", "::pow", "::map_err", "::ok_or_else")
AUDITED = {
    "chia_dialect::ChiaDialect::new": "removes the restriction flag LIMITS when the new model is on (decided under C07/R07c); no value is computed",
    "<chia_dialect::ChiaDialect as dialect::Dialect>::softfork_extension": "selects the operator set of a softfork guard (PreHardFork = cost-exempt): a guard yields nil under either set (C31); the set only changes which operators exist inside, a cost-model hard-fork decision",
    "run_program::RunProgramContext::<'a, D>::apply_op": "GUARD_COST vs NEW_GUARD_COST: a cost constant added to the guard's cost; flows to the cost only",
    "<chia_dialect::ChiaDialect as dialect::Dialect>::op": "DISABLE_OP && !NEW_COST_MODEL disables modpow: under the new model the operator is merely not disabled (a restriction that the new model lifts); reject-only region (C07/R07a)",
}


# (function, ordinal of the NEW_COST_MODEL test) -> [value ops run only under the new model, only under the classic model]
SPLIT_ACCUMULATORS = {
    ("more_ops::op_add", 4): [["add_assign"], ["add_assign", "random_range"]],
    ("more_ops::op_add", 5): [["new_number"], ["add", "new_number"]],
    ("more_ops::op_subtract", 4): [["add_assign", "number_from_u8"], ["add_assign", "number_from_u8", "random_range"]],
    ("more_ops::op_subtract", 7): [["number_from_u8", "sub_assign"], ["number_from_u8", "random_range", "sub_assign"]],
    ("more_ops::op_subtract", 8): [["new_number"], ["add", "new_number"]],
    ("more_ops::binop_reduction", 1): [["<indirect>"], ["<indirect>", "branches:1"]],
    ("more_ops::binop_reduction", 2): [[], ["<indirect>"]],
}

# types that carry CLVM values (as opposed to costs / sizes / control flow)
VALUE_TYPES = ("allocator::NodePtr", "BigInt", "number::", "std::vec::Vec<u8>", "[u8", "Element", "Signature", "PublicKey",
               "allocator::Atom", "reduction::Reduction", "std::string::String", "&str")


PURE_LOCAL = set()   # local functions that only do integer arithmetic on their arguments (filled per crate)


def find_pure_local(cr):
    """private helpers like `fn atom_hash_cost(len, rate) -> Cost { (len + 1) * rate }`: integer result, no calls, no
    references in or out: extracting cost arithmetic into one must not change any verdict"""
    out = set()
    for p, g in cr.fns.items():
        if "{closure" in p or g.nargs == 0:
            continue
        if g.local_ty(0) not in ("u64", "usize", "u32"):
            continue
        if any(not g.local_ty(i) in ("u64", "usize", "u32", "u8", "bool", "i32", "i64") for i in range(1, g.nargs + 1)):
            continue
        if any(g.term(b)["k"] in ("call", "drop") for b in g.reachable_blocks()):
            continue
        out.add(p)
    return out


def is_cost_helper(c):
    c = c or ""
    return c in PURE_LOCAL or c in COST_HELPERS or fr.is_pure_callee(c) or any(c.endswith(s) for s in COST_HELPER_SUFFIXES)


def cost_sinks_only(f, seeds):
    """forward taint from locals `seeds`; returns list of non-cost uses"""
    bad = []
    tainted = set(seeds)
    work = list(seeds)
    seen = set()
    numeric = ("u64", "usize", "u32", "i64", "bool", "(u64, bool)", "(usize, bool)", "std::option::Option<u64>", "u8",
               "std::result::Result<u64, error::EvalErr>", "(u64, u64)", "(u64, u64, u64)")
    while work:
        l = work.pop()
        for b in sorted(f.reachable_blocks()):
            for i, st in enumerate(f.stmts(b)):
                rv = st.get("rv")
                if not rv or (b, i, l) in seen:
                    continue
                reads = [mir.op_place(o) for o in mir.rvalue_operands(rv)] + mir.rvalue_places(rv)
                if not any(p and p["l"] == l for p in reads):
                    continue
                seen.add((b, i, l))
                d = st["d"]
                if d["l"] == 0:
                    # result: only the cost slot may be tainted
                    e = f.expr_rvalue(rv, deep=False)
                    okslot = True
                    for x in walk(e):
                        if x[0] == "agg" and x[1].endswith("Reduction") and len(x[2]) == 2:
                            if any(y[0] in ("var", "named") and y[2] == l for y in walk(x[2][1])):
                                okslot = False
                    if not okslot:
                        bad.append(f"reaches the RESULT NODE: {show(e)[:100]} at {f.where(b, st['ln'])}")
                    continue
                if any(p == "*" for p in d["p"]):
                    tyd = f.local_ty(d["l"])
                    if "u64" in tyd or "usize" in tyd:
                        continue  # *cost += ..   through a &mut u64
                    bad.append(f"stored through {show(f.expr_place(d, deep=False))} at {f.where(b, st['ln'])}")
                    continue
                ty = f.local_ty(d["l"])
                # building the Response: the cost slot is a sink, the node slot is forbidden
                if "agg" in rv and isinstance(rv["agg"][0], dict) and rv["agg"][0].get("adt", "").endswith("Reduction"):
                    ops = rv["agg"][1]
                    p1 = mir.op_place(ops[1]) if len(ops) > 1 else None
                    if p1 and p1["l"] == l:
                        bad.append(f"reaches the RESULT NODE of the Reduction at {f.where(b, st['ln'])}")
                    continue
                if any(k in ty for k in VALUE_TYPES):
                    bad.append(f"flows into a VALUE `{f.local_name(d['l']) or '_' + str(d['l'])}: {ty}` at {f.where(b, st['ln'])}")
                    continue
                if d["l"] not in tainted:
                    tainted.add(d["l"])
                    work.append(d["l"])
            t = f.term(b)
            if t["k"] == "call":
                for i, a in enumerate(t["args"]):
                    pl = mir.op_place(a)
                    if not pl or pl["l"] != l:
                        continue
                    c = t.get("callee") or t.get("raw") or "<indirect>"
                    if c.endswith("::from_residual"):
                        # the residual of a failed cost check becomes the function's Err value: an error, not a value that
                        # can reach the result node (its Ok projection does not exist)
                        continue
                    if is_cost_helper(c) or c.endswith("Try>::branch"):
                        dl = t["dst"]["l"]
                        if dl != 0 and not t["dst"]["p"] and dl not in tainted:
                            tainted.add(dl)
                            work.append(dl)
                        continue
                    if c.endswith("FnOnce::call_once") or c.endswith("FnMut::call_mut") or "{closure" in c:
                        continue
                    bad.append(f"passed to {c} (argument {i}) at {f.where(b)}")
            elif t["k"] == "switch":
                pl = mir.op_place(t["on"])
                if pl and pl["l"] == l:
                    # a branch on a cost-model value: fine when it only selects between cost computations /
                    # CostExceeded; the regions it controls are analysed by the caller when it is the flag itself
                    be = f.bool_edges(b)
                    if be and any(f.is_error_block(e) and f.err_variants_from(e) <= {"CostExceeded"} for e in be):
                        continue
                    if f.local_ty(l) == "bool" or f.local_ty(l).startswith("isize"):
                        continue
                    dv = f.discr_variants(b)
                    if dv:
                        continue
                    bad.append(f"controls a branch at {f.where(b)}")
    return bad


def closure_flag_tests(f, cr):
    """tests of a captured flag bool inside closures of f: [(closure fn, test dict)]"""
    out = []
    for b in f.reachable_blocks():
        for st in f.stmts(b):
            rv = st.get("rv", {})
            if "agg" in rv and isinstance(rv["agg"][0], dict) and "closure" in rv["agg"][0]:
                g = cr.fns.get(rv["agg"][0]["closure"])
                if g is None:
                    continue
                caps = {}
                for i, o in enumerate(rv["agg"][1]):
                    e = strip(f.expr_op(o, deep=True))
                    if e[0] == "ref":
                        e = strip(e[2])
                    fl = fr.flag_of(e)
                    if fl:
                        caps[i] = fl
                if not caps:
                    continue
                for gb in sorted(g.reachable_blocks()):
                    t = g.term(gb)
                    if t["k"] != "switch" or t.get("ty") != "bool":
                        continue
                    e = strip(g.expr_op(t["on"], deep=False))
                    pol = True
                    while e[0] == "un" and e[1] == "Not":
                        pol = not pol
                        e = strip(e[2])
                    if e[0] == "deref" and e[1][0] == "field":
                        base = e[1][1]
                        if base[0] == "deref":
                            base = base[1]
                        if base[0] == "var" and base[2] == 1 and e[1][2].isdigit() and int(e[1][2]) in caps:
                            flag, p0 = caps[int(e[1][2])]
                            be = g.bool_edges(gb)
                            p = (pol == p0)
                            out.append((g, dict(block=gb, flag=flag, set_edge=be[0] if p else be[1], clear_edge=be[1] if p else be[0], line=t["ln"])))
    return out


def run(ctx):
    ck = ctx.check
    cr = ctx.crate("default")
    ck.rule("R11", "code that runs under only one cost model calls only cost helpers and defines only values that flow to cost sinks")
    ck.assume("split accumulators in op_add/op_subtract/binop_reduction: equality of the sums is arithmetic, not decided")
    PURE_LOCAL.clear()
    PURE_LOCAL.update(find_pure_local(cr))
    n = 0
    for f in sorted(cr.fns.values(), key=lambda x: x.path):
        if is_test_fn(f) or f.d["kind"] == "Closure":
            continue
        tests = [(f, t) for t in fr.flag_tests(f) if t["flag"] == FLAG] + [(g, t) for g, t in closure_flag_tests(f, cr) if t["flag"] == FLAG]
        if not tests:
            continue
        ck.analysed(f)
        cnt = {}
        for g, t in tests:
            n += 1
            k = g.path
            cnt[k] = cnt.get(k, 0) + 1
            key = f"{k}|{FLAG}#{cnt[k]}"
            site = f"{g.file}:{t['line']}"
            if f.path in AUDITED:
                okaud, det = True, "audited"
                if f.path == "chia_dialect::ChiaDialect::new":
                    # the audit holds only while the constructor does exactly this
                    muts = []
                    for b2, t2 in f.calls():
                        c2 = t2.get("callee") or ""
                        if "ClvmFlags>::" in c2 and not c2.endswith("::contains"):
                            muts.append((c2.split("::")[-1], show(f.expr_op(t2["args"][1])) if len(t2["args"]) > 1 else ""))
                    okaud = muts == [("remove", "LIMITS")]
                    det = {"flag mutations under NEW_COST_MODEL": muts}
                ck.ob("R11", key, okaud, "audited exception: " + AUDITED[f.path], site=site, detail=det)
                continue
            problems = []
            for which in ("set", "clear"):
                region = exclusive_region(g, t, which)
                eff = fr.region_effects(g, region)
                reads = fr.local_reads(g)
                liveout = set()
                for kind, desc, b in eff:
                    if kind == "call":
                        if not is_cost_helper(desc):
                            problems.append(f"[{'new' if which == 'set' else 'classic'} model only] calls {desc} at {g.where(b)}")
                    elif kind == "store":
                        if not ("cost" in desc or "u64" in desc):
                            problems.append(f"[{which}] {desc} at {g.where(b)}")
                # live-out definitions
                for b in region:
                    if g.is_error_block(b):
                        continue
                    for st in g.stmts(b):
                        d = st.get("d")
                        if d and not d["p"] and d["l"] != 0 and any(x not in region for x in reads.get(d["l"], ())):
                            liveout.add(d["l"])
                        elif d and d["l"] == 0:
                            e = g.expr_rvalue(st["rv"], deep=False)
                            if not (g.is_error_block(b)):
                                # returning directly from a model-specific region: the value must not be model-specific
                                pass
                    tm = g.term(b)
                    if tm["k"] == "call" and not tm["dst"]["p"] and tm["dst"]["l"] != 0 and \
                            any(x not in region for x in reads.get(tm["dst"]["l"], ())):
                        liveout.add(tm["dst"]["l"])
                bad = cost_sinks_only(g, liveout)
                problems += [f"[{'new' if which == 'set' else 'classic'} model only] {x}" for x in bad]
            if (k, cnt[k]) in SPLIT_ACCUMULATORS:
                # audited: the two models keep the running sum in differently split accumulators. Sub-rule: the
                # value operations of the two arms are the audited ones (same operation kind on both sides).
                sig = []
                for which in ("set", "clear"):
                    ops = set()
                    for kind, desc, b in fr.region_effects(g, exclusive_region(g, t, which)):
                        if kind == "call" and not is_cost_helper(desc):
                            ops.add(desc.split("::")[-1])
                    # conditional application inside the arm is part of the signature ("branches:N")
                    reg = exclusive_region(g, t, which)
                    nbr = sum(1 for b in reg if g.term(b)["k"] == "switch" and not g.is_error_block(b)
                              and not (g.discr_variants(b) and set(g.discr_variants(b).values()) <= {"Continue", "Break"}))
                    sig.append(sorted(ops) + ([f"branches:{nbr}"] if nbr else []))
                want = SPLIT_ACCUMULATORS[(k, cnt[k])]
                ck.ob("R11", key, sig == want,
                      "audited split-accumulator region: both models apply the same value operation (new: single accumulator; classic: split accumulators, all read by the result)",
                      site=site, detail={"new-model ops": sig[0], "classic ops": sig[1], "audited": want})
                continue
            ck.ob("R11", key, not problems,
                  "values defined under one cost model reach only the cost (never the result node, the allocator or bignum arithmetic)",
                  site=site, detail=problems[:6] or "cost-only")
    ck.floor("NEW_COST_MODEL tests", n, 40)
