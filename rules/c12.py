"""C12 — allocator resource accounting is representation-independent.

R12a  per-path effect counts of every allocation entry point (T3): on every successful path an
      atom creator adds exactly one atom (vector push or ghost increment) and — except substrings —
      exactly one heap contribution (vector append, ghost increment, or one bulk append loop);
      a pair creator adds exactly one pair; wrappers call exactly one creator and have no effect of
      their own; failing paths have no effect (or truncate what they appended).
R12b  checkpoints: restore_checkpoint restores every ghost counter from the same-named checkpoint
      field and the vectors through the transparent restore; the transparent restore moves exactly
      the truncated amount of each vector into the matching ghost counter.
R12c  the three reporters return vector length + ghost counter of the same resource.
R12d  inventory: only audited functions touch counted storage.
"""
from lib import mir, patheff
from lib.mir import strip, show, canon_atom, linear
from rules import alloc_common as ac
from rules import restore_common

A = "allocator::Allocator::"
ATOM_CREATORS = {A + "new_atom", A + "new_small_number", A + "new_substr", A + "new_concat"}
PAIR_CREATORS = {A + "new_pair"}
# functions with direct effects on counted storage and the rule that covers each
AUDITED_EFFECT_FNS = {
    A + "new_atom": "R12a", A + "new_small_number": "R12a", A + "new_substr": "R12a", A + "new_concat": "R12a",
    A + "new_pair": "R12a",
    A + "restore_checkpoint": "R12b", A + "restore_transparent_checkpoint": "R12b",
    A + "maybe_restore_with_node": "C04/R04b",
    A + "add_ghost_pair": "C18/R18a (decoder parity)", A + "remove_ghost_pair": "C18/R18a",
    A + "add_ghost_atom": "C13/R13a (explicit reservation API)",
}
CLASSES = ["atoms", "heapvec", "heapghost", "bulk:heapvec", "pairs", "creators", "paircreators", "trunc", "zerosize"]


def block_effects(f, crate):
    be = {}
    loops = f.loops()
    inloop = set()
    for body in loops.values():
        inloop |= body

    def add(b, order, cls, delta):
        be.setdefault(b, []).append((order, cls, delta))

    for e in ac.effects(f):
        order = 10 ** 6 if e.idx == "T" else e.idx
        if e.kind == "vec-grow":
            if e.resource == "heap":
                if e.b in inloop:
                    # bulk: recorded at the loop header, so that zero iterations and n iterations are the
                    # same path class (the total is tied to the checked size by the exit test, R13a)
                    hdr = min((h for h, body in loops.items() if e.b in body), key=lambda h: len(loops[h]))
                    add(hdr, -2, "bulk:heapvec", 1)
                else:
                    add(e.b, order, "heapvec", 1)
            elif e.resource == "atoms":
                add(e.b, order, "atoms", 1)
            else:
                add(e.b, order, "pairs", 1)
        elif e.kind == "ghost-add":
            add(e.b, order, {"heap": "heapghost", "atoms": "atoms", "pairs": "pairs"}[e.resource], 1)
        elif e.kind == "ghost-sub":
            add(e.b, order, {"heap": "heapghost", "atoms": "atoms", "pairs": "pairs"}[e.resource], -1)
        elif e.kind == "vec-shrink" and e.resource == "heap":
            add(e.b, order, "trunc", 1)
    for b, t in f.calls():
        c = t.get("callee")
        g = crate.fns.get(c)
        if c in ATOM_CREATORS or (g is not None and g.d.get("impl_for") == "allocator::Allocator" and c.startswith(A + "new_")
                                  and c not in PAIR_CREATORS and c != A + "new_limited"):
            add(b, 10 ** 6, "creators", 1)
        elif c in PAIR_CREATORS:
            add(b, 10 ** 6, "paircreators", 1)
    # "size proved zero" edges
    for b in f.reachable_blocks():
        if f.term(b)["k"] != "switch":
            continue
        n = mir.compare_norm(f.switch_cond(b))
        if n and n[1] == 0 and len(n[0]) == 1 and n[2] in ("!=0", "==0"):
            be_ = f.bool_edges(b)
            if be_:
                tgt = be_[1] if n[2] == "!=0" else be_[0]
                if len(f.pred(tgt)) == 1:
                    add(tgt, -1, "zerosize", 1)
    return be


def run(ctx):
    ck = ctx.check
    cr = ctx.crate("default")
    ck.rule("R12a", "per-path effect counts of every allocation entry point (exactly one atom / one heap contribution / one pair per success, none on failure)")
    ck.rule("R12b", "checkpoint restore covers every counter and vector, matched by field")
    ck.rule("R12c", "atom_count / pair_count / heap_size report vector length + ghost counter of the same resource")
    ck.rule("R12d", "only audited functions touch counted allocator storage")
    ck.assume("loop effects are bulk: tied to the checked size by C13/R13a (counter == new_size test)")

    allfx = ac.all_effect_fns(cr)
    # R12d inventory
    for path in sorted(allfx):
        if path == A + "new_limited":
            continue
        if ac.spliceable(cr.fns[path]):
            callers = cr.callers_of(path) if hasattr(cr, "callers_of") else []
            ck.ob("R12d", path, True, f"{path} is a private accounting helper: its effects are accounted at its call sites", site=cr.fns[path].where(0), trivial=True)
            continue
        ck.ob("R12d", path, path in AUDITED_EFFECT_FNS, f"{path} touches counted allocator storage and is audited",
              site=cr.fns[path].where(0),
              detail=AUDITED_EFFECT_FNS.get(path) or "unaudited function mutating u8_vec/atom_vec/pair_vec/ghost counters: "
              "add it to the accounting rules (which counts may it change on which paths?)")
    for path in AUDITED_EFFECT_FNS:
        cr.fn(path)  # anchors must exist

    # R12a: creators
    n_paths = 0
    alloc_fns = [f for f in cr.fns.values() if f.d.get("impl_for") == "allocator::Allocator"]
    ck.floor("impl Allocator functions", len(alloc_fns), 35)
    for f in sorted(alloc_fns, key=lambda x: x.path):
        be = block_effects(f, cr)
        if not be or all(all(c == "zerosize" for _, c, _ in v) for v in be.values()):
            continue
        if f.path in (A + "restore_checkpoint", A + "restore_transparent_checkpoint", A + "maybe_restore_with_node",
                      A + "add_ghost_pair", A + "remove_ghost_pair", A + "add_ghost_atom") or ac.spliceable(f):
            continue
        ck.analysed(f)
        exits = patheff.run(f, be, patheff.default_ret_kind, CLASSES)
        for kind, counts in sorted(exits):
            n_paths += 1
            c = dict(zip(CLASSES, counts))
            heap = c["heapvec"] + c["heapghost"] + c["bulk:heapvec"]
            desc = {k: v for k, v in c.items() if v}
            key = f"{f.path}|{kind}|" + ",".join(f"{k}={v}" for k, v in sorted(desc.items()))
            if kind == "ERR":
                ok = (c["atoms"] == 0 and c["pairs"] == 0 and c["heapghost"] == 0 and c["creators"] <= 1 and c["paircreators"] <= 1
                      and (c["heapvec"] + c["bulk:heapvec"] == 0 or c["trunc"] >= 1))
                ck.ob("R12a", key, ok, "a failing path leaves the counts unchanged (appended bytes are truncated)",
                      site=f.where(0), detail=desc or "no effect")
                continue
            if kind == "NONE" or kind.startswith("OTHER"):
                continue
            delegated = kind.startswith("DELEGATED:")
            if f.path in ATOM_CREATORS:
                want_heap = (heap == 0) if f.path == A + "new_substr" else (heap == 1 or (heap == 0 and c["zerosize"] >= 1))
                ok = c["atoms"] == 1 and c["pairs"] == 0 and c["creators"] == 0 and want_heap
                what = ("one atom, no heap bytes (substrings share their parent's bytes)" if f.path == A + "new_substr"
                        else "one atom and one heap contribution (or a size proved zero)")
            elif f.path in PAIR_CREATORS:
                ok = c["pairs"] == 1 and c["atoms"] == 0 and heap == 0 and c["creators"] == 0
                what = "one pair, nothing else"
            else:
                # wrappers
                own = c["atoms"] + c["pairs"] + heap
                ok = own == 0 and (c["creators"] + c["paircreators"]) == 1
                what = "wrapper: exactly one creator call and no effect of its own"
            ck.ob("R12a", key, ok, f"successful path of {f.path.split('::')[-1]}: {what}", site=f.where(0), detail=desc)
    ck.floor("allocation path classes", n_paths, 18)

    check_restores(ck, cr, "R12b")
    ck.rule("R12e", "value-preserving restore: per-verdict accounting of maybe_restore_with_node and kind-matched classification of the preserved node")
    restore_common.check_maybe_restore(ck, cr, "R12e")
    restore_common.check_node_status(ck, cr, "R12e")


def check_restores(ck, cr, R):
    """checkpoint / restore field coverage (shared with C04) and the three reporters"""
    tc = cr.fn(A + "transparent_checkpoint")
    rt = cr.fn(A + "restore_transparent_checkpoint")
    rc = cr.fn(A + "restore_checkpoint")
    cpf = cr.fn(A + "checkpoint")
    ck.analysed(tc, rt, rc, cpf)
    # mapping checkpoint field -> vector, from the literal in transparent_checkpoint
    fmap = {}
    for b in tc.reachable_blocks():
        for st in tc.stmts(b):
            rv = st.get("rv", {})
            if "agg" in rv and isinstance(rv["agg"][0], dict) and rv["agg"][0].get("adt", "").endswith("TransparentCheckpoint"):
                for fname, op in zip(rv["agg"][0]["fields"], rv["agg"][1]):
                    fmap[fname] = canon_atom(tc.expr_op(op))
    want_vecs = {"len(self.u8_vec)", "len(self.pair_vec)", "len(self.atom_vec)"}
    ck.ob(R,"transparent_checkpoint|fields", set(fmap.values()) == want_vecs,
          "transparent checkpoint records the length of each of the three vectors", site=tc.where(0), detail=fmap)
    efs = ac.effects(rt)
    for fname, vlen in sorted(fmap.items()):
        vec = vlen[len("len(self."):-1]
        res = ac.VEC_OF.get(vec)
        tr = [e for e in efs if e.kind == "vec-shrink" and e.field == vec and e.amount is not None and rt.unparam(canon_atom(e.amount)) == f"$2.{fname}"]
        ga = [e for e in efs if e.kind == "ghost-add" and e.resource == res]
        good_ga = [e for e in ga if e.amount_s.replace("::len(&self.", "len(self.").replace(") Sub", " Sub").startswith("(")]
        lin = [rt.unparam(linear(e.amount)) for e in ga]
        want = ({f"len(self.{vec})": 1, f"$2.{fname}": -1}, 0)
        ok = len(tr) == 1 and len(ga) == 1 and lin[0] == want and all(
            (e.b, -1 if e.idx == "T" else e.idx) < (tr[0].b, 10 ** 6) or rt.dominates(e.b, tr[0].b) for e in ga)
        ck.ob(R,f"restore_transparent_checkpoint|{vec}", ok,
              f"ghost counter of {res} += len({vec}) - cp.{fname} exactly once, before {vec}.truncate(cp.{fname})",
              site=rt.where(0), detail={"truncates": [e.what for e in tr], "ghost": [e.what for e in ga]})
    # every effect in the transparent restore is one of those
    extra = [e for e in efs if e.kind not in ("vec-shrink", "ghost-add")]
    ck.ob(R,"restore_transparent_checkpoint|no other effect", not extra and len(efs) == 6,
          "transparent restore has exactly three truncations and three ghost transfers", site=rt.where(0),
          detail=[e.what for e in efs])
    # restore_checkpoint
    efs = ac.effects(rc)
    sets = {e.field: rc.unparam(e.amount_s) for e in efs if e.kind == "ghost-set"}
    for g in ("ghost_atoms", "ghost_pairs", "ghost_heap"):
        ck.ob(R,f"restore_checkpoint|{g}", sets.get(g) == f"$2.{g}", f"restore_checkpoint sets {g} from cp.{g}",
              site=rc.where(0), detail=sets)
    calls = rc.calls_to(A + "restore_transparent_checkpoint")
    arg_ok = bool(calls) and "$2.inner" in rc.unparam(show(rc.expr_op(calls[0][1]["args"][1])))
    ck.ob(R,"restore_checkpoint|inner", arg_ok, "restore_checkpoint restores the vectors through the transparent restore of cp.inner",
          site=rc.where(0), detail=[show(rc.expr_op(t["args"][1])) for _, t in calls])
    # order: the transparent restore ADDS what it truncates to the ghost counters, so the counters must be set from the
    # checkpoint AFTER it (otherwise everything allocated since the checkpoint stays counted)
    set_blocks = [e.b for e in efs if e.kind == "ghost-set"]
    order_ok = bool(calls) and len(set_blocks) == 3 and all(rc.dominates(calls[0][0], sb) and sb != calls[0][0] for sb in set_blocks)
    ck.ob(R, "restore_checkpoint|order", order_ok,
          "the ghost counters are assigned from the checkpoint after the transparent restore (which itself adds to them)",
          site=rc.where(calls[0][0]) if calls else rc.where(0), detail={"restore call block": calls[0][0] if calls else None, "assignment blocks": set_blocks})
    # unconditional: every return of restore_checkpoint is dominated by the restore call and by the three assignments
    rets = [b for b in rc.reachable_blocks() if rc.term(b)["k"] == "return"]
    need = ([calls[0][0]] if calls else []) + set_blocks
    uncond = bool(rets) and bool(need) and all(rc.dominates(n, r) for n in need for r in rets) and \
        not any(rc.term(b)["k"] == "switch" for b in rc.reachable_blocks())
    ck.ob(R, "restore_checkpoint|unconditional", uncond,
          "restore_checkpoint restores on every path (no early return, no condition)", site=rc.where(0),
          detail={"returns": rets, "branches": [rc.where(b) for b in rc.reachable_blocks() if rc.term(b)["k"] == "switch"]})
    ck.ob(R,"restore_checkpoint|no other effect", len(efs) == 3 and all(e.kind == "ghost-set" for e in efs),
          "restore_checkpoint has no other effect on counted storage", site=rc.where(0), detail=[e.what for e in efs])
    # checkpoint() literal: each ghost field from the same-named counter
    lit = {}
    for b in cpf.reachable_blocks():
        for st in cpf.stmts(b):
            rv = st.get("rv", {})
            if "agg" in rv and isinstance(rv["agg"][0], dict) and rv["agg"][0].get("adt", "").endswith("allocator::Checkpoint"):
                for fname, op in zip(rv["agg"][0]["fields"], rv["agg"][1]):
                    lit[fname] = show(cpf.expr_op(op))
    for g in ("ghost_atoms", "ghost_pairs", "ghost_heap"):
        ck.ob(R,f"checkpoint|{g}", lit.get(g) == f"self.{g}", f"checkpoint() records {g} from self.{g}",
              site=cpf.where(0), detail=lit)
    ck.ob(R,"checkpoint|inner", "transparent_checkpoint" in lit.get("inner", ""), "checkpoint() records the vector lengths",
          site=cpf.where(0), detail=lit)

    # R12c reporters
    for name, vec, ghost in (("atom_count", "atom_vec", "ghost_atoms"), ("pair_count", "pair_vec", "ghost_pairs"),
                             ("heap_size", "u8_vec", "ghost_heap")):
        f = cr.fn(A + name)
        ck.analysed(f)
        val = None
        for b in f.reachable_blocks():
            for st in f.stmts(b):
                if st.get("d") and st["d"]["l"] == 0 and not st["d"]["p"]:
                    val = linear(f.expr_rvalue(st["rv"]))
        want = ({f"len(self.{vec})": 1, f"self.{ghost}": 1}, 0)
        ck.ob("R12c", f"{A}{name}", val == want, f"{name}() == len({vec}) + {ghost}", site=f.where(0), detail=str(val))
