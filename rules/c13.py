"""C13 — allocator limits are enforced exactly.

R13a  every growth of a counted resource (vector growth or ghost-counter increment) is
      dominated by a cap test of the matching kind whose error edge builds the matching
      error variant, and the test is TIGHT: it normalises to  count + increment - cap > 0
      (or, for unit increments, count - cap == 0).
R13b  no second growth of the same resource can follow the first under one test
      (except the audited bulk-append loop whose total is forced equal to the checked size).
R13c  constants: MAX_NUM_ATOMS == MAX_NUM_PAIRS == 62_500_000; heap limit constructor bound.
"""
from lib import mir
from lib.mir import strip, show, compare_norm, show_norm, canon_atom
from rules import alloc_common as ac

CAP = 62_500_000
COUNT_TERMS = {
    "heap": {"len(self.u8_vec)": 1, "self.ghost_heap": 1, "self.heap_limit": -1},
    "atoms": {"len(self.atom_vec)": 1, "self.ghost_atoms": 1},
    "pairs": {"len(self.pair_vec)": 1, "self.ghost_pairs": 1},
}


def negate(n):
    t, c, rel = n
    if rel == ">0":
        return ({k: -v for k, v in t.items()}, -c + 1, ">0")
    return (t, c, "==0" if rel == "!=0" else "!=0")


def classify_check(norm, resource):
    """norm = condition under which the ERROR edge is taken.
    returns (increment string) if the test is a tight cap test for `resource`, else None"""
    t, c, rel = norm
    base = COUNT_TERMS[resource]
    rest = dict(t)
    for k, v in base.items():
        if rest.get(k) != v:
            return None
        del rest[k]
    if resource == "heap":
        if rel != ">0" or c != 0 and rest:
            pass
        if rel == ">0":
            if c == 0 and len(rest) == 1 and list(rest.values()) == [1]:
                return list(rest.keys())[0]
            if not rest and c > 0:
                return str(c)
        return None
    # atoms / pairs: constant cap
    if rel == ">0":
        if not rest and c + CAP >= 1:
            return str(c + CAP)
        if c == -CAP and len(rest) == 1 and list(rest.values()) == [1]:
            return list(rest.keys())[0]
        return None
    if rel == "==0" and not rest and c == -CAP:
        return "1"  # count == cap  <=>  count + 1 > cap, given the inductive invariant count <= cap
    return None


def find_checks(f, crate, depth=0):
    """cap tests in f: list of dict(block=K, ok=<block taken on success>, resource, inc, variant, how)"""
    out = []
    for b in sorted(f.reachable_blocks()):
        t = f.term(b)
        if t["k"] == "switch":
            be = f.bool_edges(b)
            if not be:
                continue
            n = compare_norm(f.switch_cond(b))
            if n is None:
                continue
            tt, ft = be
            for err_t, ok_t, cond in ((tt, ft, n), (ft, tt, negate(n))):
                if not f.is_error_block(err_t):
                    continue
                vs = f.err_variants_from(err_t)
                for res in COUNT_TERMS:
                    inc = classify_check(cond, res)
                    if inc is not None:
                        out.append(dict(block=b, ok=ok_t, resource=res, inc=inc, variants=vs,
                                        how=f"{show_norm(cond)}  => Err({','.join(sorted(vs))})", line=t["ln"]))
        elif t["k"] == "call" and depth < 3:
            callee = t.get("callee")
            if callee in crate.fns and callee != f.path:
                w = wrapper_summary(crate.fns[callee], crate, depth + 1)
                if w:
                    qm = f.question_mark(b)
                    if qm and f.is_error_block(qm[1]):
                        # arguments of the wrapper substituted for its parameter names
                        inc = w["inc"]
                        g = crate.fns[callee]
                        for i in range(1, g.nargs + 1):
                            pn = g.local_name(i)
                            if pn and pn == inc and i - 1 < len(t["args"]):
                                inc = canon_atom(f.expr_op(t["args"][i - 1]))
                        out.append(dict(block=b, ok=qm[0], resource=w["resource"], inc=inc, variants=w["variants"],
                                        how=f"{callee}(..)? [{w['how']}]", line=t["ln"]))
    return out


_wr = {}


def wrapper_summary(g, crate, depth):
    """g is a cap-check wrapper if it has no storage effects and every OK return is dominated by the
    success edge of exactly one tight cap test."""
    if g.path in _wr:
        return _wr[g.path]
    _wr[g.path] = None
    if "allocator::Allocator" not in " ".join(l["ty"] for l in g.locals[: g.nargs + 1]):
        return None
    if ac.effects(g):
        return None
    cks = find_checks(g, crate, depth)
    if len(cks) != 1:
        return None
    ck = cks[0]
    st = g.status()
    # every block that finally yields OK must be dominated by the success edge
    for b in g.reachable_blocks():
        last = g._last_ret.get(b)
        if last == "OK" and not g.dominates(ck["ok"], b):
            return None
    _wr[g.path] = ck
    return ck


def run(ctx):
    ck = ctx.check
    cr = ctx.crate("default")
    ck.rule("R13a", "every growth of a counted allocator resource is dominated by a tight cap test of the matching kind with the matching error variant")
    ck.rule("R13b", "no second growth of the same resource under one cap test (bulk-append loop audited: total forced equal to the checked size)")
    ck.rule("R13c", "cap constants equal the published caps; heap limit bounded by u32::MAX in the constructor")
    ck.assume("inductive invariant count <= cap (holds initially: ghost_atoms=2, ghost_heap=1; preserved by every growth under R13a)")

    # R13c
    for name in ("allocator::MAX_NUM_ATOMS", "allocator::MAX_NUM_PAIRS"):
        v = cr.const_val(name)
        ck.ob("R13c", f"{name}", v == CAP, f"{name} == {CAP}", detail={"value": v})
    nl = cr.fn("allocator::Allocator::new_limited")
    ck.analysed(nl)
    found = False
    for b in nl.reachable_blocks():
        n = compare_norm(nl.switch_cond(b)) if nl.term(b)["k"] == "switch" else None
        if n and "heap_limit" in n[0] and n[1] in (-4294967295 + 1, -4294967295) :
            found = True
    # the assert is `heap_limit <= u32::MAX as usize`
    conds = [show_norm(compare_norm(nl.switch_cond(b))) for b in nl.reachable_blocks() if nl.term(b)["k"] == "switch"]
    ok = any("heap_limit" in c and "4294967" in c for c in conds)
    ck.ob("R13c", "allocator::Allocator::new_limited|heap_limit<=u32::MAX", ok,
          "constructor asserts heap_limit <= u32::MAX", site=nl.where(0), detail={"conds": conds})

    # growth sites
    allfx = ac.all_effect_fns(cr)
    nsites = 0
    for path, efs in sorted(allfx.items()):
        f = cr.fns[path]
        ck.analysed(f)
        grows = [e for e in efs if e.kind in ("vec-grow", "ghost-add")]
        if not grows:
            continue
        checks = find_checks(f, cr)
        loops = f.loops()
        for e in grows:
            nsites += 1
            key = e.key()
            # -- structural neutral transfers
            if neutral_transfer(f, e, efs):
                ck.ob("R13a", key, True, f"{e.what} is a count-neutral transfer", site=e.site,
                      detail="ghost += len - cp paired with truncate(cp) / unit decrement dominating the push")
                continue
            cands = [c for c in checks if c["resource"] == e.resource and f.dominates(c["ok"], e.b)]
            want = ac.ERR_OF[e.resource]
            good = None
            why = []
            in_loop = f.in_loop(e.b)
            for c in cands:
                if not c["variants"] or not all(v in (want, "?") for v in c["variants"]):
                    why.append(f"check at line {c['line']} yields {sorted(c['variants'])}, want {want}")
                    continue
                if "?" in c["variants"] and not c["how"].startswith("allocator::"):
                    why.append(f"check at line {c['line']}: unknown error variant")
                    continue
                if in_loop:
                    if bulk_loop_ok(f, e, c, efs):
                        good = c
                        break
                    why.append(f"growth inside a loop and no equality test forcing the total to {c['inc']}")
                    continue
                if c["inc"] == e.amount_s:
                    good = c
                    break
                why.append(f"check at line {c['line']} covers increment {c['inc']!r}, growth is {e.amount_s!r}")
            ck.ob("R13a", key, good is not None,
                  f"{e.what} ({e.resource}) is dominated by a tight {e.resource} cap test yielding {want}",
                  site=e.site,
                  detail=(good["how"] if good else {
                      "missing": f"no tight comparison against the {e.resource} cap with an {want} error edge dominates this growth",
                      "growth": e.amount_s, "candidates": why,
                      "checks_in_function": [f"{c['resource']} line {c['line']}: {c['how']}" for c in checks]}))
            # R13b
            if good is not None and not in_loop:
                others = [o for o in grows if o is not e and o.resource == e.resource and not neutral_transfer(f, o, efs)]
                bad = []
                for o in others:
                    if o.b == e.b:
                        if (o.idx == "T") or (e.idx != "T" and o.idx < e.idx):
                            if o.idx != "T" or e.idx == "T":
                                pass
                        # two growths in one block: both after the check
                        bad.append(o)
                        continue
                    if f.dominates(good["ok"], o.b) and e.b in f.reach_from([o.b]):
                        bad.append(o)
                ck.ob("R13b", key, not bad, f"no other {e.resource} growth precedes {e.what} under the same test",
                      site=e.site, detail=[o.what + " @" + o.site for o in bad] or "single growth on every path")
    ck.floor("growth sites", nsites, 15)


def neutral_transfer(f, e, efs):
    # (1) ghost_X += len(V) - cp  together with  V.truncate(cp) post-dominating
    if e.kind == "ghost-add" and e.amount is not None:
        a = strip(e.amount)
        if a[0] in ("bin", "chk") and a[1] == "Sub":
            l = canon_atom(a[2])
            vec = {"heap": "u8_vec", "atoms": "atom_vec", "pairs": "pair_vec"}[e.resource]
            if l == f"len(self.{vec})":
                rhs = canon_atom(a[3])
                for o in efs:
                    if o.kind == "vec-shrink" and o.field == vec and o.amount is not None \
                            and canon_atom(o.amount) == rhs and f.postdominates(o.b, e.b):
                        return True
    # (2) push dominated by a unit decrement of the matching ghost counter
    if e.kind == "vec-grow" and e.amount_s == "1":
        for o in efs:
            if o.kind == "ghost-sub" and o.resource == e.resource and o.amount_s == "1" and f.dominates(o.b, e.b) and o.b != e.b:
                between = [x for x in efs if x.kind in ("vec-grow", "ghost-add") and x.resource == e.resource
                           and x is not e and f.dominates(o.b, x.b) and e.b in f.reach_from([x.b])]
                if not between:
                    return True
    return False


def bulk_loop_ok(f, e, c, efs):
    """growth inside a loop: accepted when, after the loop, an (in)equality test  counter != <checked size>
    with an error edge that truncates dominates every successful return, and each growth in the loop is
    followed by an update of that counter."""
    size = c["inc"]
    loops = [body for h, body in f.loops().items() if e.b in body]
    if not loops:
        return False
    body = min(loops, key=len)
    for b in f.reachable_blocks():
        if b in body or f.term(b)["k"] != "switch":
            continue
        n = compare_norm(f.switch_cond(b))
        if not n or n[2] not in ("!=0", "==0") or n[1] != 0 or len(n[0]) != 2:
            continue
        if size not in n[0]:
            continue
        counter = [k for k in n[0] if k != size][0]
        if n[0][counter] != -n[0][size]:
            continue
        be = f.bool_edges(b)
        err_t, ok_t = (be[0], be[1]) if n[2] == "!=0" else (be[1], be[0])
        if not f.is_error_block(err_t):
            continue
        # error edge truncates the vector back
        trunc = any(o.kind == "vec-shrink" and o.field == e.field and o.b in f.reach_from([err_t]) for o in efs)
        if not trunc:
            continue
        # successful returns dominated by ok_t
        oks = [x for x in f.reachable_blocks() if f._last_ret.get(x) == "OK" and any(b2 in f.reach_from([b]) for b2 in [x])]
        st = f.status()
        if not all(f.dominates(ok_t, x) for x in f.reachable_blocks()
                   if f._last_ret.get(x) == "OK" and x in f.reach_from(sorted(body))):
            continue
        # the growth is followed (inside the loop) by an update of `counter`
        ls = f.local_by_name(counter)
        if not ls:
            continue
        upd = [d for d in f.defs(ls[0]) if d[0] in body]
        after = [d for d in upd if d[0] in f.reach_from([e.b]) and f.dominates(e.b, d[0])]
        if after:
            return True
    return False
