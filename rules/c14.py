"""C14 — allocated nodes are immutable and integers are canonically encoded.

R14a  storage vectors are append/truncate-only: the only `&mut` uses of u8_vec / atom_vec / pair_vec in the
      whole crate are push / extend_from_slice / extend_from_within / reserve / truncate; no element is
      ever overwritten; truncation lengths come from a checkpoint field or from the length saved on entry.
R14b  (thorough tier) compile-fail witnesses: holding an atom borrow forbids allocating; Atom gives no
      mutable access; storage fields and the NodePtr constructor are private.
R14c  canonical-integer tables: len_for_value / new_u64 / new_i64: the k-byte row ends at 2^(8k-1);
      fits_in_small_atom's top-byte bound is NODE_PTR_IDX_MASK >> 24 and new_number's small bound is
      NODE_PTR_IDX_MASK; every test of a byte is a sign-bit test (& 0x80), a zero test, or that bound.
R14d  new_number and new_malachite_number are the same program (shared with C06/R06c).
R14e  atom equality/hash go through the bytes: Hash/PartialEq/Borrow/Deref for Atom call as_ref and the
      slice implementation, nothing else; atom_eq compares same-kind atoms by bytes / by value and mixed
      kinds through bytes_eq_int (length == len_for_value, sign bit clear, big-endian value equal).
"""
import os
import re
import subprocess
import time
from lib import mir, tables, sibling
from lib.mir import strip, show, walk, compare_norm, show_norm, const_eval, linear
from rules import alloc_common as ac
from rules import c06
from rules.c07 import is_test_fn

A = "allocator::Allocator::"
ALLOWED_MUT = {"push", "extend_from_slice", "extend_from_within", "reserve", "truncate"}


def atom_content_impls(cr, traits=(("std::hash::Hash", "hash"), ("std::cmp::PartialEq", "eq"), ("std::borrow::Borrow", "borrow"), ("std::ops::Deref", "deref"))):
    """(fn, method, ok, callees) per trait impl of Atom that must see the atom only as its bytes: the method's calls are
    as_ref() and the slice implementation, nothing else (so two representations of the same bytes are indistinguishable)"""
    out = []
    for trait, method in traits:
        h = None
        for im in cr.impls:
            if im["trait"] == trait and im["for"].startswith("allocator::Atom<"):
                for m in im["methods"]:
                    if m["name"] == method:
                        h = cr.fn(m["path"])
        if h is None:
            raise mir.AnchorMissing(f"impl {trait} for Atom not found")
        callees = sorted((t.get("callee") or "?") for _, t in h.calls())
        ok = bool(callees) and all(c.endswith("AsRef<[u8]>>::as_ref") or "impl" in c and "[" in c or c.startswith("core::slice::") or
                                   c.startswith("<[u8]") or c.startswith("<[T]") or "for [T]" in c or "for [A]" in c for c in callees) and \
            any(c.endswith("AsRef<[u8]>>::as_ref") for c in callees)
        out.append((h, method, ok, callees))
    return out


def run(ctx):
    ck = ctx.check
    cr = ctx.crate("default")
    ck.rule("R14a", "allocator storage is append/truncate-only; truncation targets are checkpoint fields or the entry length")
    ck.rule("R14c", "canonical-integer threshold tables: k bytes up to 2^(8k-1); small-atom bounds tied to NODE_PTR_IDX_MASK; byte tests are sign/zero/bound tests")
    ck.rule("R14d", "new_number and new_malachite_number are the same program")
    ck.rule("R14e", "atom equality and hashing are equality and hashing of the bytes")

    # ---------------------------------------------------------------- R14a
    nuse = 0
    for f in sorted(cr.fns.values(), key=lambda x: x.path):
        if is_test_fn(f):
            continue
        for b, t in f.calls():
            if not t.get("args"):
                continue
            a0 = strip(f.expr_op(t["args"][0], deep=False))
            if a0[0] != "ref" or a0[1] != "mut":
                continue
            inner = strip(a0[2])
            fld = None
            for x in walk(inner):
                if x[0] == "field" and x[2] in ac.VEC_OF:
                    fld = x[2]
            if not fld:
                continue
            # the base must be an Allocator
            nuse += 1
            m = ac.method_name(t.get("callee") or t.get("raw"))
            ck.analysed(f)
            ok = m in ALLOWED_MUT
            detail = m
            if m == "truncate" and ok:
                amt = show(f.expr_op(t["args"][1], deep=False))
                amt_deep = show(f.expr_op(t["args"][1]))
                # a field of a checkpoint value (whatever the locals are called), or the vector's own length recorded earlier
                ex = strip(f.denamed(f.expr_op(t["args"][1])))
                while ex[0] in ("cast", "ref", "deref"):
                    ex = strip(ex[2] if ex[0] in ("cast", "ref") else ex[1])
                from_cp = False
                if ex[0] == "field":
                    base = strip(ex[1])
                    while base[0] in ("deref", "ref", "field"):
                        base = strip(base[1] if base[0] in ("deref", "field") else base[2])
                    from_cp = base[0] == "var" and "Checkpoint" in f.local_ty(base[2])
                src_ok = from_cp or mir.canon_atom(f.expr_op(t["args"][1])) == f"len(self.{fld})"
                # entry length: the local is defined before any growth of that vector
                detail = f"truncate({amt})"
                ok = src_ok
            ck.ob("R14a", f"{f.path}|{fld}.{m}", ok,
                  f"`&mut self.{fld}` is used only to append or to truncate back to a recorded length",
                  site=f.where(b), detail=detail if ok else {"method": m, "why": "existing bytes/nodes could be overwritten, reordered or dropped: every NodePtr handed out must keep denoting the same bytes/children"})
        # direct stores into the vectors / reassignment of the fields
        for b in f.reachable_blocks():
            for st in f.stmts(b):
                d = st.get("d")
                if not d:
                    continue
                fl = mir.place_fields(d)
                if fl and fl[0] in ac.VEC_OF and "allocator::Allocator" in f.local_ty(d["l"]):
                    ck.ob("R14a", f"{f.path}|store {'.'.join(fl)}", False, "no direct store into allocator storage", site=f.where(b, st["ln"]),
                          detail=show(f.expr_place(d, deep=False)))
            rv_mut = [st for st in f.stmts(b) if "rv" in st and "ref" in st["rv"] and st["rv"]["ref"][0] == "mut"
                      and any(x in ac.VEC_OF for x in mir.place_fields(st["rv"]["ref"][1]))]
    ck.floor("&mut uses of allocator storage vectors", nuse, 13)

    # ---------------------------------------------------------------- R14c
    mask = cr.const_val("allocator::NODE_PTR_IDX_MASK")
    bits = cr.const_val("allocator::NODE_PTR_IDX_BITS")
    ck.ob("R14c", "allocator::NODE_PTR_IDX_MASK", mask == (1 << bits) - 1 and bits == 26, "index mask is 2^26 - 1", detail={"mask": mask, "bits": bits})
    # len_for_value
    lf = cr.fn("allocator::len_for_value")
    ck.analysed(lf)
    atom, paths = tables.threshold_paths(lf, domain=(0, 2 ** 32 - 1))
    rows = tables.merge_rows([(iv, ret_const(lf, p)) for iv, p in paths])
    want = [((0, 0), 0)] + [((1 if k == 1 else 2 ** (8 * (k - 1) - 1), min(2 ** (8 * k - 1) - 1, 2 ** 32 - 1)), k) for k in range(1, 6)]
    ck.ob("R14c", "allocator::len_for_value", rows == want, "k bytes for values in [2^(8(k-1)-1), 2^(8k-1)-1]; 0 bytes for 0",
          site=lf.where(0), detail=[f"[{lo:#x},{hi:#x}] -> {v}" for (lo, hi), v in rows])
    # new_u64: start offset into a 9-byte buffer
    nu = cr.fn(A + "new_u64")
    ck.analysed(nu)
    atom, paths = tables.threshold_paths(nu)
    rows = tables.merge_rows([(iv, local_const(nu, p, "start")) for iv, p in paths])
    want = [((0, 0), 9)] + [((1 if k == 1 else 2 ** (8 * (k - 1) - 1), min(2 ** (8 * k - 1) - 1, 2 ** 64 - 1)), 9 - k) for k in range(1, 10)]
    ck.ob("R14c", A + "new_u64", rows == want, "a u64 is stored in k = 9 - start bytes where k is minimal with val < 2^(8k-1) (9 bytes from 2^63)",
          site=nu.where(0), detail=[f"[{lo:#x},{hi:#x}] -> start {v}" for (lo, hi), v in rows])
    uses_buf = any((t.get("callee") or "") == A + "new_atom" for _, t in nu.calls())
    ck.ob("R14c", A + "new_u64|stores buf[start..]", uses_buf and any("to_be_bytes" in (t.get("callee") or "") for _, t in nu.calls()),
          "the big-endian bytes from `start` on are stored through new_atom", site=nu.where(0))
    # new_i64 negative branch
    ni = cr.fn(A + "new_i64")
    ck.analysed(ni)
    atom, paths = tables.threshold_paths(ni, domain=(-2 ** 63, 2 ** 63 - 1))
    rows = tables.merge_rows([(iv, local_const(ni, p, "start")) for iv, p in paths])
    neg = [r for r in rows if r[0][1] < 0 and r[1] is not None]
    want = [((-(2 ** (8 * k - 1)), -1 if k == 1 else -(2 ** (8 * (k - 1) - 1)) - 1), 8 - k) for k in range(8, 0, -1)]
    ck.ob("R14c", A + "new_i64", neg == want, "a negative i64 is stored in k = 8 - start bytes where k is minimal with val >= -2^(8k-1)",
          site=ni.where(0), detail=[f"[{lo},{hi}] -> start {v}" for (lo, hi), v in rows])
    fw = [t for _, t in ni.calls_to(A + "new_u64")]
    ck.ob("R14c", A + "new_i64|non-negative", len(fw) == 1, "non-negative values are encoded by new_u64", site=ni.where(0))
    # byte tests
    allowed_forms = set()
    for fpath, idx_names in (("allocator::fits_in_small_atom", None), (A + "bytes_eq_int", None)):
        g = cr.fn(fpath)
        ck.analysed(g)
        for b in sorted(g.reachable_blocks()):
            if g.term(b)["k"] != "switch":
                continue
            e = g.switch_cond(b)
            n = compare_norm(e)
            if not n:
                continue
            reads_byte = any(x[0] == "index" or (x[0] == "call" and x[1].endswith("Index>::index")) for x in walk(e))
            if not reads_byte:
                continue
            terms, c, rel = n
            form = None
            if len(terms) == 1:
                (k, co), = terms.items()
                if "BitAnd 128" in k and c == 0 and rel in ("!=0", "==0"):
                    form = "sign bit"
                elif "BitAnd" not in k and c == 0 and rel in ("==0", "!=0"):
                    form = "zero byte"
                elif "BitAnd" not in k and rel == ">0" and co == 1 and -c == (mask >> 24):
                    form = "top byte <= MASK>>24"
            ck.ob("R14c", f"{fpath}|byte test {show_norm(n)}", form is not None,
                  "a test of a stored byte is a sign-bit test (& 0x80), a zero test, or the 26-bit top-byte bound",
                  site=g.where(b), detail=form or {"test": show(e), "why": "the small-integer view must exist exactly for minimal non-negative encodings below 2^26"})
    fs = cr.fn("allocator::fits_in_small_atom")
    lens = sorted(show_norm(compare_norm(fs.switch_cond(b))) for b in fs.reachable_blocks()
                  if fs.term(b)["k"] == "switch" and compare_norm(fs.switch_cond(b)) and "len($1)" in fs.unparam(show_norm(compare_norm(fs.switch_cond(b)))))
    lens = fs.unparam(lens)
    ck.ob("R14c", "allocator::fits_in_small_atom|lengths", lens == ["+len($1) -1 ==0", "+len($1) -4 ==0", "+len($1) -4 >0"],
          "more than 4 bytes never fit; 1-byte zero and 4-byte overflow are the special lengths", site=fs.where(0), detail=lens)
    for name in ("new_number", "new_malachite_number"):
        g = cr.fn(A + name)
        ck.analysed(g)
        bounds = [show_norm(compare_norm(g.switch_cond(b))) for b in g.reachable_blocks() if g.term(b)["k"] == "switch"
                  and compare_norm(g.switch_cond(b)) and str(mask + 1) in show_norm(compare_norm(g.switch_cond(b)))]
        ck.ob("R14c", A + name + "|small bound", len(bounds) == 1 and bounds[0].startswith("-") and bounds[0].endswith(f" +{mask + 1} >0") and bounds[0].count(" +") == 1, "values <= NODE_PTR_IDX_MASK take the inline form",
              site=g.where(0), detail=bounds)
        # the stripping loop: in the constructor itself or in a private slice -> slice helper it calls (names removed)
        import re as _re

        def strip_tests_of(h):
            out = []
            for b in h.reachable_blocks():
                if h.term(b)["k"] != "switch":
                    continue
                n = compare_norm(h.denamed(h.switch_cond(b)))
                if not n:
                    continue
                t = _re.sub(r"#\d+", "", show_norm(n))
                if "&[u8]" in t:
                    out.append(t.replace("%&[u8]", "S").replace("$1", "S"))
            return sorted(out)
        cands = [g] + [cr.fns[c] for c in sorted({t.get("callee") for _, t in g.calls()} - {None}) if c in cr.fns
                       and cr.fns[c].nargs == 1 and cr.fns[c].local_ty(1).replace("'_ ", "").startswith("&[u8]")]
        got = {h.path: strip_tests_of(h) for h in cands}
        want = ["+(S[1] BitAnd 128) -128 ==0", "+S[0] ==0", "+len(S) -1 >0"]
        hits = [p_ for p_, v in got.items() if v == want]
        ck.ob("R14c", A + name + "|minimal", len(hits) == 1,
              "a leading zero byte is stripped unless the next byte has its sign bit set (minimal two's complement)", site=g.where(0), detail=got)

    # ---------------------------------------------------------------- R14d
    f, g = cr.fn(A + "new_number"), cr.fn(A + "new_malachite_number")
    X, sa = sibling.canonical(f, 0, c06.cmap, c06.tmap)
    Y, sb = sibling.canonical(g, 0, c06.cmap, c06.tmap)
    i = sibling.first_diff(X, Y)
    ck.ob("R14d", A + "new_number ~ new_malachite_number", i is None, "the two encoders are the same program", site=f.where(0),
          detail={"lines": len(X)} if i is None else {"first difference": [X[i] if i < len(X) else None, Y[i] if i < len(Y) else None]})

    # ---------------------------------------------------------------- R14e
    for h, method, ok, callees in atom_content_impls(cr):
        ck.analysed(h)
        ck.ob("R14e", h.path, ok, f"Atom::{method} goes through as_ref() and the slice implementation only", site=h.where(0), detail=callees)
    # atom_eq
    ae = cr.fn(A + "atom_eq")
    ck.analysed(ae)
    calls = sorted(set((t.get("callee") or "") for _, t in ae.calls()))
    mixed = [t for _, t in ae.calls_to(A + "bytes_eq_int")]
    # a byte comparison: PartialEq::eq/ne whose operands are byte slices (by operand TYPE - directly, or through a private
    # accessor that returns the atom's bytes); comparing anything else (e.g. the AtomBuf ranges) is not a byte comparison
    def bytes_cmp(t):
        c = t.get("callee") or ""
        if "PartialEq" not in c or c.split("::")[-1] not in ("eq", "ne") or not t.get("args"):
            return False
        pl = mir.op_place(t["args"][0])
        return bool(pl) and "[u8]" in ae.local_ty(pl["l"])
    slice_eq = any(bytes_cmp(t) for _, t in ae.calls())
    ck.ob("R14e", A + "atom_eq", len(mixed) == 2 and slice_eq,
          "same-kind atoms compare by bytes / by value; mixed kinds through bytes_eq_int (both orders)", site=ae.where(0),
          detail=[c for c in calls if "index" not in c.lower()][:12])
    # every value atom_eq can return is one of the three comparisons (no shortcut returns a constant)
    rets = []
    for b in ae.reachable_blocks():
        for st in ae.stmts(b):
            if st.get("d") and st["d"]["l"] == 0 and not st["d"]["p"] and "rv" in st:
                rets.append(show(ae.denamed(ae.expr_rvalue(st["rv"]))))
        t = ae.term(b)
        if t["k"] == "call" and t["dst"]["l"] == 0 and not t["dst"]["p"]:
            rets.append("call bytes-compare" if bytes_cmp(t) else "call " + (t.get("callee") or "?").split("::")[-1])
    kinds = []
    for r in rets:
        if r.startswith("call bytes_eq_int"):
            kinds.append("mixed")
        elif r == "call bytes-compare":
            kinds.append("bytes")
        elif " Eq " in r and "NodePtr::index" in r:
            kinds.append("inline")
        else:
            kinds.append("other: " + r[:80])
    ck.ob("R14e", A + "atom_eq|returns", sorted(kinds) == ["bytes", "inline", "mixed", "mixed"],
          "atom_eq returns only: the slice comparison (heap/heap), index equality (inline/inline), bytes_eq_int (mixed, both orders)",
          site=ae.where(0), detail=sorted(kinds))
    # small_number: inline -> Some(value); heap -> fits_in_small_atom(the atom's bytes) and nothing else; pair -> None
    sn = cr.fn(A + "small_number")
    ck.analysed(sn)
    arms = {}
    for b in sn.reachable_blocks():
        dv = sn.discr_variants(b)
        if dv and (sn.discr_enum(b) or "").endswith("ObjectType"):
            for tgt, v in sn.succ(b):
                arms[dv.get(v, "otherwise") if v != "otherwise" else "otherwise"] = tgt
    by_arm = {}
    for b in sn.reachable_blocks():
        vals = []
        for st in sn.stmts(b):
            if st.get("d") and st["d"]["l"] == 0 and not st["d"]["p"] and "rv" in st:
                vals.append(show(sn.denamed(sn.expr_rvalue(st["rv"], deep=False))))
        t = sn.term(b)
        if t["k"] == "call" and t["dst"]["l"] == 0 and not t["dst"]["p"]:
            vals.append("call " + (t.get("callee") or "?"))
        for v in vals:
            arm = [a for a, tgt in arms.items() if tgt == b or sn.dominates(tgt, b)]
            by_arm.setdefault(arm[0] if arm else "?", []).append(v)
    want_heap = ["call allocator::fits_in_small_atom"]
    ok_sn = by_arm.get("Bytes") == want_heap and all("Some(" in v for v in by_arm.get("SmallAtom", ["x"])) and len(by_arm.get("SmallAtom", [])) == 1 \
        and set(by_arm) <= {"Bytes", "SmallAtom", "otherwise", "Pair"}
    ck.ob("R14c", A + "small_number|arms", ok_sn,
          "small_number: inline atoms give their value, heap atoms exactly fits_in_small_atom(bytes) (no other exit in that arm), pairs None",
          site=sn.where(0), detail=by_arm)
    be = cr.fn(A + "bytes_eq_int")
    # parameters by position: (self, atom $2, val $3)
    tests = [be.unparam(show_norm(compare_norm(be.switch_cond(b)))) for b in sorted(be.reachable_blocks()) if be.term(b)["k"] == "switch" and compare_norm(be.switch_cond(b))]
    ok = len(tests) == 3 and tests[0] in ("+allocator::len_for_value($3) -$2.end +$2.start !=0",
                                          "-allocator::len_for_value($3) +$2.end -$2.start !=0") \
        and tests[1] == "+$3 ==0" and "BitAnd 128) !=0" in tests[2]
    lencall = any((t.get("callee") or "") == "allocator::len_for_value" for _, t in be.calls())
    ret = []
    for b in be.reachable_blocks():
        for st in be.stmts(b):
            if st.get("d") and st["d"]["l"] == 0:
                ret.append(show(be.denamed(be.expr_rvalue(st["rv"], deep=False))))
    ck.ob("R14e", A + "bytes_eq_int", ok and lencall and any(re.fullmatch(r"\(\$3 Eq %u32(#\d+)?\)|\(%u32(#\d+)? Eq \$3\)", r_) for r_ in ret),
          "heap bytes equal an inline integer iff length == len_for_value(val), the sign bit is clear and the big-endian value is equal",
          site=be.where(0), detail={"tests": tests, "returns": ret})

    # ---------------------------------------------------------------- R14b (thorough)
    if ctx.tier == "thorough":
        ck.rule("R14b", "compile-fail witnesses: atom borrow vs allocation (E0502), no mutable access through Atom (E0596), private storage (E0616), private NodePtr constructor (E0603/E0423)")
        run_witnesses(ctx, ck)
    else:
        ck.info("R14b compile-fail witnesses run in the thorough tier only (about 2 minutes)")


def ret_const(f, path):
    for b in reversed(path):
        for st in reversed(f.stmts(b)):
            if st.get("d") and st["d"]["l"] == 0 and not st["d"]["p"]:
                return const_eval(f.expr_rvalue(st["rv"], deep=False))
    return None


def local_const(f, path, name):
    """value of the table local on `path`.  The local is found by role, not by name: the only local all of whose (several)
    assignments are integer constants - `name` is used in messages only."""
    ls = []
    for l in range(f.nargs + 1, len(f.locals)):
        ds = [d for d in f.defs(l) if d[1] != "T"]
        if len(ds) >= 4 and all(const_eval(f.expr_rvalue(f.def_rvalue(d), deep=False)) is not None for d in ds):
            ls.append(l)
    if len(ls) != 1:
        raise mir.AnchorMissing(f"{f.path}: the constant-table local (`{name}` today) not found uniquely: {ls}")
    for b in reversed(path):
        for st in reversed(f.stmts(b)):
            if st.get("d") and st["d"]["l"] == ls[0] and not st["d"]["p"]:
                return const_eval(f.expr_rvalue(st["rv"], deep=False))
    return None
    for b in reversed(path):
        for st in reversed(f.stmts(b)):
            if st.get("d") and st["d"]["l"] == ls[0] and not st["d"]["p"]:
                return const_eval(f.expr_rvalue(st["rv"], deep=False))
    return None


def run_witnesses(ctx, ck):
    """E5: compile_fail doctests with error codes (nightly) + compiling twins."""
    from lib import facts
    wdir = os.path.join(facts.VERIF, "witness")
    repo = ctx.repo
    # the witness crate path-depends on the repository under analysis
    with open(os.path.join(wdir, "Cargo.toml.in")) as f:
        toml = f.read().replace("@REPO@", repo)
    with open(os.path.join(wdir, "Cargo.toml"), "w") as f:
        f.write(toml)
    lock = os.path.join(repo, "Cargo.lock")
    if os.path.isfile(lock):
        import shutil
        shutil.copy(lock, os.path.join(wdir, "Cargo.lock"))
    env = dict(os.environ, CARGO_NET_OFFLINE="true", CARGO_TARGET_DIR=os.path.join(facts.CACHE, "tgt", "witness"))
    t0 = time.time()
    p = subprocess.run(["cargo", "+nightly", "test", "--doc", "--offline"], cwd=wdir, env=env, stdout=subprocess.PIPE, stderr=subprocess.STDOUT, text=True)
    out = p.stdout
    results = {}
    for line in out.splitlines():
        line = line.strip()
        if line.startswith("test ") and " ... " in line:
            name, res = line[5:].split(" ... ", 1)
            results[name] = res
    n = 0
    for name, res in sorted(results.items()):
        n += 1
        kind = "compile-fail witness" if "compile fail" in name or "compile_fail" in name else "compiling twin"
        parts = name.split(" - ")
        item = parts[1].split(" (line")[0] if len(parts) > 1 else name
        ck.ob("R14b", f"witness|{item}|{kind}", res.startswith("ok"),
              f"{kind} `{item}`: " + ("the violating program is rejected by the compiler with the expected error" if kind.startswith("compile-fail")
                                      else "the same program without the offending line compiles and runs"),
              site="witness/src/lib.rs", detail=res)
    ck.floor("witness doctests", n, 8)
    if p.returncode != 0 and not results:
        ck.ob("R14b", "witness|build", False, "the witness crate builds against the current tree", detail=out[-1500:])
    ck.info(f"witness run {time.time() - t0:.0f}s")
