"""C15 — classic serialization round-trips and is canonical (table clause).

R15a  writer table (write_atom_encoding_prefix_with_size): rows (size interval -> prefix bytes n,
      marker m) are contiguous from 0, marker m has exactly n leading one bits, and the exclusive
      upper bound of the n-byte row is 2^(7n-1) (all the size bits an n-byte prefix has) -> shortest
      prefix for every size; sizes beyond the last row are an error.
R15b  the three length tables (serialized_length_atom, atom_length_bits, writer) have the same
      boundaries and add the same prefix length on every interval.
R15c  canonical check (is_canonical_atom): minimum size for an n-byte prefix == lower bound of the
      writer's n-byte row (n-byte prefix is canonical exactly for the sizes the writer emits it for).
R15d  decoder caps (decode_size_with_offset): size cap == writer's last bound; prefix-length cap ==
      writer's longest prefix + 1 (6 accepted, then rejected by the size cap).
"""
from lib import mir, tables
from lib.mir import strip, show, walk, compare_norm, show_norm, linear

WRITER = "serde::write_atom::write_atom_encoding_prefix_with_size"
LEN_ATOM = "serde::serialized_length::serialized_length_atom"
LEN_BITS = "serde::serialized_length::atom_length_bits"
CANON = "serde::tools::is_canonical_atom"
DECODE = "serde::parse_atom::decode_size_with_offset"


def leading_ones(m):
    n = 0
    for i in range(7, -1, -1):
        if m & (1 << i):
            n += 1
        else:
            break
    return n


def writer_leaf(f, path):
    """characteristic of a writer path: ('write', nbytes, marker) | ('none',) | ('error',)"""
    writes = []
    for b in path:
        t = f.term(b)
        if t["k"] == "call" and (t.get("raw") or "").endswith("Write::write_all"):
            e = strip(f.expr_op(t["args"][1]))
            n, marker = None, None
            for x in walk(e):
                if x[0] == "agg" and x[1] == "array":
                    n = len(x[2])
                    first = strip(x[2][0])
                    consts = [y[1] for y in walk(first) if y[0] == "const" and isinstance(y[1], int) and y[1] >= 0x80]
                    if first[0] == "const":
                        marker = first[1]
                    elif consts:
                        marker = consts[0]
                    break
                if x[0] == "bytes":
                    bs = bytes.fromhex(x[1])
                    n, marker = len(bs), bs[0]
                    break
            writes.append((n, marker))
    last = path[-1]
    st = None
    for b in reversed(path):
        k = f._last_ret.get(b) if f.status() else None
        if k:
            st = k
            break
    if len(writes) == 1:
        return ("write", writes[0][0], writes[0][1])
    if len(writes) > 1:
        return ("multi", tuple(writes))
    if st and st.startswith("ERR"):
        return ("error",)
    return ("none",)


def decoder_caps(cr):
    """the three rejections of decode_size_with_offset, found by ROLE (not by local names):
      size   : N such that the decoded size (second field of the returned Ok tuple) >= N is an error
      prefix : N such that a length prefix of more than N bytes is an error (a `len(..) > N` test)
      ones   : N such that leading_ones(first byte) >= N is an error"""
    d = cr.fn(DECODE)
    d.status()
    size_l = None
    for b in d.reachable_blocks():
        for st in d.stmts(b):
            rv = st.get("rv", {})
            if st["d"]["l"] == 0 and "agg" in rv and isinstance(rv["agg"][0], dict) and rv["agg"][0].get("variant") == "Ok":
                tup = mir.op_place(rv["agg"][1][0])
                if tup and not tup["p"]:
                    for d_ in d.defs(tup["l"]):
                        if d_[1] != "T" and "agg" in d.def_rvalue(d_) and d.def_rvalue(d_)["agg"][0] == "tuple":
                            pl = mir.op_place(d.def_rvalue(d_)["agg"][1][1])
                            if pl and not pl["p"]:
                                size_l = pl["l"]
    # follow plain copies back to the user variable
    seen = set()
    while size_l is not None and size_l not in seen and len(d.defs(size_l)) == 1 and d.defs(size_l)[0][1] != "T" \
            and "use" in d.def_rvalue(d.defs(size_l)[0]) and mir.op_place(d.def_rvalue(d.defs(size_l)[0])["use"]) \
            and not mir.op_place(d.def_rvalue(d.defs(size_l)[0])["use"])["p"]:
        seen.add(size_l)
        size_l = mir.op_place(d.def_rvalue(d.defs(size_l)[0])["use"])["l"]
    caps = {}
    raw = []
    for b in sorted(d.reachable_blocks()):
        if d.term(b)["k"] != "switch":
            continue
        sh = d.switch_cond(b, deep=False)
        n = compare_norm(d.switch_cond(b))
        be = d.bool_edges(b)
        if not (n and be and d.is_error_block(be[0]) and len(n[0]) == 1 and n[2] == ">0"):
            continue
        (k, co), = n[0].items()
        raw.append((k, co, n[1]))
        locs = {x[2] for x in walk(sh) if x[0] in ("var", "named")}
        copies = set(locs)
        for l in list(locs):
            for d_ in d.defs(l):
                if d_[1] != "T" and "use" in d.def_rvalue(d_) and mir.op_place(d.def_rvalue(d_)["use"]):
                    copies.add(mir.op_place(d.def_rvalue(d_)["use"])["l"])
        if co == 1 and size_l is not None and size_l in copies:
            caps["size"] = -n[1] + 1
        elif co == 1 and "leading_ones" in k:
            caps["ones"] = -n[1] + 1
        elif co == 1 and k.startswith("len("):
            caps["prefix"] = -n[1]
    return d, caps, raw


def const_added_leaf(f, path, atom):
    """for length functions: the constant added to the quantity in the returned value"""
    for b in reversed(path):
        for st in reversed(f.stmts(b)):
            d = st.get("d")
            if d and d["l"] == 0 and not d["p"]:
                e = strip(f.expr_rvalue(st["rv"]))
                if e[0] == "agg" and e[1].endswith("Option::Some"):
                    e = strip(e[2][0])
                elif e[0] == "agg" and e[1].endswith("Option::None"):
                    return ("none",)
                lin = linear(e)
                if lin is None:
                    return ("?", show(e))
                terms, c = lin
                if not terms:
                    return ("const", c)
                if len(terms) == 1 and list(terms.values()) == [1]:
                    return ("plus", c)
                return ("?", show(e))
    return ("noret",)


def run(ctx):
    ck = ctx.check
    cr = ctx.crate("default")
    ck.rule("R15a", "writer rows contiguous; marker has n leading ones; n-byte row ends at 2^(7n-1); beyond the last row is an error")
    ck.rule("R15b", "serialized_length_atom and atom_length_bits have the writer's boundaries and prefix lengths")
    ck.rule("R15c", "is_canonical_atom: minimum size for an n-byte prefix == lower bound of the writer's n-byte row")
    ck.rule("R15d", "decode_size_with_offset: size cap == writer's last bound; prefix longer than the writer's longest+1 rejected")

    # ---- writer
    w = cr.fn(WRITER)
    ck.analysed(w)
    w.status()
    atom, paths = tables.threshold_paths(w)
    rows = tables.merge_rows([(iv, writer_leaf(w, p)) for iv, p in paths])
    wrows = {}  # n -> (lo, hi, marker)
    for (lo, hi), leaf in rows:
        if leaf[0] == "write":
            n, m = leaf[1], leaf[2]
            if n in wrows:
                wrows[n] = (min(wrows[n][0], lo), max(wrows[n][1], hi), m)
            else:
                wrows[n] = (lo, hi, m)
    ck.floor("writer rows", len(wrows), 5)
    table_txt = [f"[{lo:#x},{hi:#x}] -> {leaf}" for (lo, hi), leaf in rows]
    prev_hi = -1
    for n in sorted(wrows):
        lo, hi, m = wrows[n]
        ok = (m is not None and leading_ones(m) == n and (m & (0x80 >> n)) == 0 and hi + 1 == 2 ** (7 * n - 1)
              and (lo == prev_hi + 1 or n == 1 and lo == 0))
        ck.ob("R15a", f"{WRITER}|row{n}", ok,
              f"{n}-byte prefix: marker has {n} leading ones, covers sizes up to 2^{7*n-1}-1, starts where the previous row ends",
              site=w.where(0), detail={"lo": hex(lo), "hi": hex(hi), "marker": hex(m) if m is not None else None, "table": table_txt})
        prev_hi = hi
    # byte composition of every prefix written: byte i of an n-byte prefix carries bits 8(n-1-i) .. 8(n-1-i)+7 of the
    # size (the first one OR-ed with the marker) — the decoder reads them back big-endian
    n_arr = 0
    for b, t in w.calls():
        if not (t.get("raw") or "").endswith("Write::write_all"):
            continue
        e = strip(w.expr_op(t["args"][1]))
        arr = None
        for x in walk(e):
            if x[0] == "agg" and x[1] == "array":
                arr = x[2]
                break
        if arr is None:
            continue
        n_arr += 1
        n = len(arr)
        shifts = []
        for el in arr:
            sh = [y for y in walk(strip(el)) if y[0] == "bin" and y[1] == "Shr"]
            amt = None
            if len(sh) == 1:
                c = strip(sh[0][3])
                amt = c[1] if c[0] == "const" else None
            elif not sh:
                amt = 0
            shifts.append(amt)
        want = [8 * (n - 1 - i) for i in range(n)]
        ck.ob("R15a", f"{WRITER}|bytes of the {n}-byte prefix", shifts == want,
              f"the {n} prefix bytes are size >> {want} (big-endian), one each", site=w.where(b), detail={"shifts": shifts, "bytes": [show(x)[:50] for x in arr]})
    ck.floor("prefix arrays written", n_arr, 5)
    maxn = max(wrows) if wrows else 0
    last_hi = wrows[maxn][1] if wrows else 0
    beyond = [leaf for (lo, hi), leaf in rows if lo > last_hi]
    ck.ob("R15a", f"{WRITER}|beyond", beyond == [("error",)], "sizes beyond the last row are a serialization error",
          site=w.where(0), detail=table_txt)
    # special rows 0 and 1
    r0 = [leaf for (lo, hi), leaf in rows if lo <= 0 <= hi]
    r1 = sorted(leaf for (lo, hi), leaf in rows if lo <= 1 <= hi)
    ck.ob("R15a", f"{WRITER}|size0", r0 == [("write", 1, 0x80)], "empty atom is the single byte 0x80", site=w.where(0), detail=r0)
    ck.ob("R15a", f"{WRITER}|size1", r1 == [("none",), ("write", 1, 0x80)], "one-byte atom: no prefix (byte < 0x80) or 0x81",
          site=w.where(0), detail=r1)
    # the single-byte rule: the no-prefix path is taken iff atom_0 < 0x80
    sb = [show_norm(compare_norm(w.switch_cond(b))) for b in w.reachable_blocks() if w.term(b)["k"] == "switch"
          and "$2" in w.unparam(show_norm(compare_norm(w.switch_cond(b)) or ({}, 0, "")))]
    sb = w.unparam(sb)      # (f $1, atom_0 $2, size $3)
    ck.ob("R15a", f"{WRITER}|single-byte", sb == ["-$2 +128 >0"], "the prefix is omitted iff the byte is < 0x80",
          site=w.where(0), detail=sb)

    # ---- length functions
    def len_table(path, name):
        f = cr.fn(path)
        ck.analysed(f)
        atom, paths = tables.threshold_paths(f)
        rws = tables.merge_rows([(iv, const_added_leaf(f, p, atom)) for iv, p in paths])
        return f, atom, rws

    for path, dom_hi in ((LEN_ATOM, 2 ** 32 - 1), (LEN_BITS, None)):
        f, atom, rws = len_table(path, path)
        txt = [f"[{lo:#x},{hi:#x}] -> {leaf}" for (lo, hi), leaf in rws]
        for n in sorted(wrows):
            lo, hi, m = wrows[n]
            if n == 1:
                lo = 2  # sizes 0 and 1 are special-cased
            got = [leaf for (l2, h2), leaf in rws if l2 <= lo and min(hi, dom_hi or hi) <= h2 and leaf[0] == "plus"]
            exact = [((l2, h2), leaf) for (l2, h2), leaf in rws if leaf == ("plus", n)]
            ok = bool(exact)
            if ok:
                l2 = min(x[0][0] for x in exact)
                h2 = max(x[0][1] for x in exact)
                ok = (l2 <= lo and (l2 >= (1 if n == 1 else lo))) and (h2 == hi or bool(dom_hi and hi >= dom_hi and h2 >= dom_hi))
            ck.ob("R15b", f"{path}|row{n}", ok,
                  f"adds {n} prefix byte(s) exactly on the writer's {n}-byte interval [{lo:#x},{hi:#x}]",
                  site=f.where(0), detail=txt)
        if path == LEN_BITS:
            bey = sorted(set(leaf for (l2, h2), leaf in rws if l2 > last_hi and leaf != ("noret",)))
            ck.ob("R15b", f"{path}|beyond", bey == [("none",)], "no length beyond the writer's last row", site=f.where(0), detail=txt)
    # single-byte rule in serialized_length_atom
    f = cr.fn(LEN_ATOM)
    sb = sorted(show_norm(compare_norm(f.switch_cond(b))) for b in f.reachable_blocks() if f.term(b)["k"] == "switch"
                and "$1[" in f.unparam(show_norm(compare_norm(f.switch_cond(b)) or ({}, 0, ""))))
    sb = f.unparam(sb)
    ck.ob("R15b", f"{LEN_ATOM}|single-byte", sb == ["-$1[0] +128 >0"], "one-byte atoms < 0x80 have length 1", site=f.where(0), detail=sb)

    # ---- canonical check
    c = cr.fn(CANON)
    ck.analysed(c)
    mins = {}
    # the row-minimum local, by role: the only local assigned several times, always a constant
    mv = [l for l in range(c.nargs + 1, len(c.locals))
          if len([d_ for d_ in c.defs(l) if d_[1] != "T"]) >= 4
          and all(d_[1] != "T" and mir.const_eval(c.expr_rvalue(c.def_rvalue(d_), deep=False)) is not None for d_ in c.defs(l))]
    if len(mv) != 1:
        raise mir.AnchorMissing(f"is_canonical_atom: the row-minimum local (assigned one constant per prefix length) not found uniquely: {mv}")
    defs = c.defs(mv[0])
    for b in c.reachable_blocks():
        t = c.term(b)
        if t["k"] == "switch" and t.get("ty") != "bool":
            arms = [(tgt, v) for tgt, v in c.succ(b) if v != "otherwise"]
            # is this the match whose arms define min_value ?
            hit = {}
            for tgt, v in arms:
                for db, di in defs:
                    if c.dominates(tgt, db) and di != "T":
                        val = mir.const_eval(c.expr_rvalue(c.stmts(db)[di]["rv"]))
                        if val is not None:
                            hit[v] = val
            if len(hit) >= 2:
                mins = hit
    ck.floor("canonical-check rows", len(mins), 5)
    for n in sorted(mins):
        if n in wrows:
            want = 1 if n == 1 else wrows[n][0]
            ck.ob("R15c", f"{CANON}|row{n}", mins[n] == want,
                  f"minimum size for a {n}-byte prefix is the first size the writer encodes with {n} bytes ({want:#x})",
                  site=c.where(0), detail={"min_value": hex(mins[n]), "writer_lo": hex(want)})
        else:
            ck.ob("R15c", f"{CANON}|row{n}", mins[n] > last_hi,
                  f"a {n}-byte prefix is never canonical (the writer never emits it): minimum above the writer's last size",
                  site=c.where(0), detail={"min_value": hex(mins[n]), "writer_last": hex(last_hi)})
    # the final verdict is atom_len >= min_value
    verdict = []
    for b in c.reachable_blocks():
        for st in c.stmts(b):
            d = st.get("d")
            if d and d["l"] == 0 and not d["p"]:
                verdict.append(show(c.expr_rvalue(st["rv"])))
    okv = any("Ge" in v and "min_value" in v or " Ge " in v for v in verdict)
    ck.ob("R15c", f"{CANON}|verdict", okv, "the verdict compares the decoded length with the row minimum using >=", site=c.where(0), detail=verdict)
    # single byte rule
    sbc = sorted(show_norm(compare_norm(c.switch_cond(b))) for b in c.reachable_blocks() if c.term(b)["k"] == "switch"
                 and compare_norm(c.switch_cond(b)) and "%[u8; 1][" in c.unname(show_norm(compare_norm(c.switch_cond(b)))))
    sbc = c.unname(sbc)     # the one-byte buffer the atom's only byte was read into
    ck.ob("R15c", f"{CANON}|single-byte", sbc == ["-%[u8; 1][0] +128 >0"], "a 1-byte atom with a prefix is non-canonical iff the byte is < 0x80",
          site=c.where(0), detail=sbc)

    # ---- decoder caps (by role, see decoder_caps)
    d, dcaps, caps = decoder_caps(cr)
    ck.analysed(d)
    ck.ob("R15d", f"{DECODE}|size-cap", dcaps.get("size") == last_hi + 1,
          f"decoder rejects sizes >= {last_hi + 1:#x} (the writer's last bound)", site=d.where(0), detail={"caps": dcaps, "tests": caps})
    plen_caps = [dcaps["prefix"]] if "prefix" in dcaps else []
    if "ones" in dcaps:
        plen_caps.append(dcaps["ones"] - 1)
    ck.ob("R15d", f"{DECODE}|prefix-cap", (maxn + 1) in plen_caps or any(p <= maxn + 1 and p >= maxn for p in plen_caps),
          f"decoder rejects prefixes longer than {maxn + 1} bytes", site=d.where(0), detail={"caps": caps, "accepted_max": plen_caps})
