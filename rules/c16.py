"""C16 — classic decoders are total and agree with each other (structural clauses).

R15*  the length-prefix / canonical-check tables (shared with C15: is_canonical_serialization must accept
      exactly the encodings the writer produces).
R16a  wire constants duplicated across modules (CONS_BOX_MARKER, BACK_REFERENCE, MAX_SINGLE_BYTE) agree by value.
R16b  one prefix decoder: node_from_stream, tree_hash_from_stream, parse_triples, both length probes and both
      back-reference decoders all reach decode_size_with_offset, and nothing else does prefix arithmetic
      (leading_ones / mask computation); every decoder tests the markers with the same constants.
R16c  no recursion: the crate call graph reachable from the public decoders (and from run_program) is acyclic,
      so deep inputs cannot overflow the native stack.
R16d  truncation discipline: every routine that consumes an atom body fails on a short read: copy_exactly
      compares the copied count with the requested size (error edge), skip_bytes goes through it, the
      in-memory decoders test remaining-length >= size before slicing.
R16e  explicit panic sites in the decoders are the audited ones.
"""
from lib import mir
from lib.mir import strip, show, walk, compare_norm, show_norm
from rules import c15
from rules.c07 import is_test_fn

DECODERS = ["serde::de::node_from_stream", "serde::tools::tree_hash_from_stream", "serde::de_tree::parse_triples",
            "serde::tools::serialized_length_from_bytes", "serde::tools::serialized_length_from_bytes_trusted",
            "serde::de_br::node_from_stream_backrefs", "serde::de_br::node_from_stream_backrefs_old",
            "serde::tools::is_canonical_serialization"]
PREFIX = "serde::parse_atom::decode_size_with_offset"
PANIC_AUDIT = {
    "serde::de::node_from_stream": "values.pop().unwrap(): Cons is pushed beneath two SExp items, each of which pushes exactly one value",
    "serde::tools::tree_hash_from_stream": "same stack discipline as node_from_stream",
    "serde::de_br::node_from_stream_backrefs": "expect on the value stack: same discipline",
    "serde::de_br::node_from_stream_backrefs_old": "panic!(internal error): the value list has two entries whenever Cons runs",
    "serde::tools::is_canonical_atom": "panic! on prefix_len outside 1..=6: decode_size_with_offset returns 1..=6 only (R15d)",
    "serde::de_tree::parse_triples": "stack discipline (unwrap / index) as in node_from_stream",
    "serde::tools::serialized_length_from_bytes": "panic!(internal error) on the value list: same discipline as the legacy decoder",
    "serde::de_tree::sha_blobs": "expect on a SHA-256 digest being 32 bytes: a type-level constant of the hash",
    "serde::de_tree::skip_or_sha_bytes": "expect on a SHA-256 digest being 32 bytes",
    "serde::parse_atom::decode_size_with_offset": "debug_assert!(initial_b & 0x80): followed by an explicit InternalError return; every caller tests > 0x7f first (C25 inventory)",
}


def panic_sites(f):
    out = []
    for b, t in f.calls():
        c = t.get("callee") or ""
        last = c.split("::")[-1]
        if last in ("unwrap", "expect", "panic_fmt", "panic", "unreachable", "panic_display", "assert_failed") or "panicking::" in c:
            if t.get("x") and "panicking" not in c and last not in ("unwrap", "expect"):
                pass
            out.append((b, last if "panicking" not in c else "panic!"))
    return out


def run(ctx):
    ck = ctx.check
    cr = ctx.crate("default")
    c15.run(ctx)
    ck.rule("R16a", "duplicated wire constants agree by value")
    ck.rule("R16b", "every classic / back-reference decoder uses the one prefix decoder and the same marker constants")
    ck.rule("R16c", "the decoders (and the interpreter) are recursion-free")
    ck.rule("R16d", "every routine that consumes an atom body fails on a short read")
    ck.rule("R16e", "explicit panic sites in the decoders are audited")
    ck.rule("R16g", "every index, slice range and division reachable from the classic decoders is in bounds: proved from the code's own conditions, or by a listed invariant")
    ck.rule("R16f", "every test against MAX_SINGLE_BYTE is the same test (byte <= 0x7f, or its negation byte > 0x7f)")
    ck.assume("equal consumption and equal trees across decoders are value properties not decided here")

    # ---- R16a
    groups = {}
    for p, cl in cr.consts.items():
        name = p.split("::")[-1]
        if name in ("CONS_BOX_MARKER", "BACK_REFERENCE", "MAX_SINGLE_BYTE") and "test" not in p:
            for c in cl:
                if "val" in c:
                    groups.setdefault(name, []).append((p, c["val"]))
    want = {"CONS_BOX_MARKER": 0xFF, "BACK_REFERENCE": 0xFE, "MAX_SINGLE_BYTE": 0x7F}
    for name, lst in sorted(groups.items()):
        vals = {v for _, v in lst}
        ck.ob("R16a", name, vals == {want[name]}, f"all {len(lst)} declarations of {name} equal {want[name]:#x}", detail=lst)
    ck.floor("duplicated wire constant declarations", sum(len(v) for v in groups.values()), 9)

    # ---- R16b
    cg = cr.callgraph()
    for p in DECODERS:
        f = cr.fn(p)
        ck.analysed(f)
        reach = cr.reachable([p])
        ck.ob("R16b", p + "|prefix decoder", PREFIX in reach, "length prefixes are decoded by decode_size_with_offset", site=f.where(0))
        # marker tests: compare the byte with CONS_BOX_MARKER / BACK_REFERENCE / 0x80 / MAX_SINGLE_BYTE only
        consts = f.byte_tests()
        ok = all(v in (0xFF, 0xFE, 0x80, 0x7F, 0x7F + 1, 1) for _, v in consts) and (bool(consts) or p.endswith("_trusted") or "parse_triples" in p)
        ck.ob("R16b", p + "|markers", ok, "the first byte is compared only with the cons marker, the back-reference marker, 0x80 and the single-byte bound",
              site=f.where(0), detail=sorted(consts))
    users = []
    for f in cr.fns.values():
        if is_test_fn(f):
            continue
        for b, t in f.calls():
            if (t.get("callee") or "").endswith("::leading_ones"):
                users.append(f.path)
    ck.ob("R16b", "leading_ones users", sorted(set(users)) == [PREFIX], "prefix-length arithmetic exists only in decode_size_with_offset",
          detail=sorted(set(users)))

    # ---- R16c recursion
    roots = DECODERS + ["run_program::run_program", "serde::ser::node_to_stream", "serde::ser_br::node_to_stream_backrefs",
                        "serde::intern::intern_tree", "treehash::tree_hash", "treehash::tree_hash_costed"]
    roots = [r for r in roots if r in cr.fns]
    reach = cr.reachable(roots)
    # Tarjan SCC on the local call graph restricted to reach
    idx, low, stack, on, sccs = {}, {}, [], set(), []
    counter = [0]

    def strong(v):
        work = [(v, iter(sorted(x for x in cg.get(v, ()) if x in reach and x in cr.fns)))]
        idx[v] = low[v] = counter[0]
        counter[0] += 1
        stack.append(v)
        on.add(v)
        while work:
            node, it = work[-1]
            adv = False
            for w in it:
                if w not in idx:
                    idx[w] = low[w] = counter[0]
                    counter[0] += 1
                    stack.append(w)
                    on.add(w)
                    work.append((w, iter(sorted(x for x in cg.get(w, ()) if x in reach and x in cr.fns))))
                    adv = True
                    break
                elif w in on:
                    low[node] = min(low[node], idx[w])
            if adv:
                continue
            work.pop()
            if work:
                low[work[-1][0]] = min(low[work[-1][0]], low[node])
            if low[node] == idx[node]:
                comp = []
                while True:
                    w = stack.pop()
                    on.discard(w)
                    comp.append(w)
                    if w == node:
                        break
                sccs.append(comp)

    for v in sorted(reach):
        if v in cr.fns and v not in idx:
            strong(v)
    cyc = [c for c in sccs if len(c) > 1 or (c[0] in cg.get(c[0], ()))]
    # generic trait dispatch (Dialect::op -> operators) is not a cycle: operators never call back into run_program
    ck.ob("R16c", "call graph", not cyc, "no function reachable from the decoders, serializers, tree hashers or run_program is (mutually) recursive",
          detail={"functions": len([v for v in reach if v in cr.fns]), "cycles": [sorted(c)[:6] for c in cyc][:5]})

    # ---- R16d
    ce = cr.fn("serde::utils::copy_exactly")
    ck.analysed(ce)
    ce.status()
    tests = []
    for b in ce.reachable_blocks():
        if ce.term(b)["k"] == "switch":
            n = compare_norm(ce.switch_cond(b))
            if n:
                be = ce.bool_edges(b)
                tests.append((ce.unname(show_norm(n)), ce.is_error_block(be[0])))
    # (reader $1, writer $2, expected_size $3): the count returned by io::copy (directly or through a local) is compared with $3
    ck.ob("R16d", ce.path, any(t.endswith(" +$3 >0") and t.startswith("-") and "io::copy" in t or t == "-%u64 +$3 >0" for t, e in tests if e), "copy_exactly fails when fewer bytes than requested were available",
          site=ce.where(0), detail=tests)
    sk = cr.fn("serde::utils::skip_bytes")
    ck.analysed(sk)
    okk = len(sk.calls_to("serde::utils::copy_exactly")) == 1 and all(
        (t.get("callee") or "") in ("serde::utils::copy_exactly", "std::io::sink") for _, t in sk.calls())
    ck.ob("R16d", sk.path, okk, "skip_bytes consumes through copy_exactly (short reads are errors)", site=sk.where(0),
          detail=[t.get("callee") for _, t in sk.calls()])
    for p, needle in (("serde::parse_atom::parse_atom_ptr", "blob_size"), ("serde::tools::tree_hash_from_stream", "blob_size")):
        f = cr.fn(p)
        ck.analysed(f)
        f.status()
        found = False
        for b in f.reachable_blocks():
            if f.term(b)["k"] == "switch":
                e = f.switch_cond(b)
                n = compare_norm(e)
                if n and any(needle in k or "decode_size" in k for k in n[0]) and n[2] == ">0" and any("len(" in k for k in n[0]):
                    be = f.bool_edges(b)
                    if f.is_error_block(be[0]):
                        found = True
        ck.ob("R16d", p, found, "the remaining input is compared with the decoded size before the body is sliced (short input is an error, not a panic)",
              site=f.where(0))

    # ---- R16f: the single-byte boundary is tested the same way everywhere (siblings must agree on <= vs <)
    n_sb = 0
    for p, f in sorted(cr.fns.items()):
        if is_test_fn(f):
            continue
        for b in sorted(f.reachable_blocks()):
            if f.term(b)["k"] != "switch":
                continue
            e = strip(f.switch_cond(b))
            while e[0] == "un" and e[1] == "Not":
                e = strip(e[2])
            if e[0] != "bin" or e[1] not in ("Lt", "Le", "Gt", "Ge", "Eq", "Ne"):
                continue
            lhs, rhs = strip(e[2]), strip(e[3])
            side = None
            for nm, x in (("rhs", rhs), ("lhs", lhs)):
                if x[0] == "const" and (x[2] or "").endswith("MAX_SINGLE_BYTE"):
                    side = nm
            if side is None:
                continue
            n_sb += 1
            ok = (side == "rhs" and e[1] in ("Le", "Gt")) or (side == "lhs" and e[1] in ("Ge", "Lt"))
            ck.ob("R16f", f"{p}|{show(e)[:60]}", ok, "a byte is a single-byte atom iff byte <= MAX_SINGLE_BYTE (0x7f itself included)",
                  site=f.where(b), detail=show(e)[:120])
    ck.floor("tests against MAX_SINGLE_BYTE", n_sb, 5)

    # ---- R16g: no out-of-bounds panic on any byte string (the in-bounds verifier of C25 over the decoders)
    from rules import c25
    fns = c25.reach_fns(cr, [p for p in DECODERS if p in cr.fns])
    counts, n_sites = c25.check_bounds(ck, cr, "R16g", fns)
    ck.floor("decoder indexing sites", n_sites, 30)

    # ---- R16e
    allp = {}
    for p in sorted(cr.reachable(DECODERS)):
        f = cr.fns.get(p)
        if f is None or is_test_fn(f) or not p.startswith("serde::"):
            continue
        ps = panic_sites(f)
        if ps:
            allp[p] = ps
    for p, ps in sorted(allp.items()):
        ck.ob("R16e", p, p in PANIC_AUDIT, "explicit panics in decoder code are audited (each needs an argument why it cannot fire on any input)",
              site=cr.fns[p].where(ps[0][0]), detail=PANIC_AUDIT.get(p) or {"sites": [k for _, k in ps], "audit needed": "why can this not fire on hostile input?"})
