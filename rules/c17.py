"""C17 — back-reference serialization round-trips and never grows (structural clauses).

R17a  determinism: no function reachable from the compressing serializers iterates over a HashMap / HashSet
      (hash order would leak into the bytes), and randomness only feeds the audited places (C03/R03d).
R17b  never grows: a back-reference is only emitted when 1 + (serialized length of its path) <= serialized
      length of the node it replaces: in ReadCacheLookup::find_paths every candidate push is dominated by
      atom_length_bits(path bits + 1 terminator) <= serialized_length - 1, and in TreeCache::find_path the
      Some(path) return is dominated by the failure of  backref_len + 1 > serialized_length; both only look
      at nodes of at least 4 bytes.
R17c  the serializer mirrors the decoder's stack: per emitted atom or back-reference exactly one push on the
      read-cache stack (after the bytes were written), per cons marker one Cons step whose handling pops
      two and conses once; children are visited left first.
"""
from lib import mir
from lib.mir import strip, show, walk, compare_norm, show_norm, linear
from rules.c07 import is_test_fn

ROOTS = ["serde::ser_br::node_to_stream_backrefs", "serde::incremental::Serializer::add", "serde::incremental::Serializer::new",
         "serde::incremental::Serializer::restore", "serde::incremental::Serializer::into_inner"]
HASH_ITER = ("::iter", "::keys", "::values", "::into_iter", "::drain", "::iter_mut", "::values_mut", "::retain", "::into_keys", "::into_values")


def run(ctx):
    ck = ctx.check
    cr = ctx.crate("default")
    ck.rule("R17a", "no hash-order iteration is reachable from the compressing serializers")
    ck.rule("R17b", "a back-reference is emitted only if marker + path is no longer than the node it replaces")
    ck.rule("R17c", "the serializer's read-cache stack mirrors the decoder's value stack")
    ck.assume("round-trip and canonicity of the output are value properties; decided are the guards and the stack mirroring")

    roots = [r for r in ROOTS if r in cr.fns]
    for r in ("serde::ser_br::node_to_stream_backrefs", "serde::incremental::Serializer::add"):
        cr.fn(r)
    # also the 2026 serializer entry points, if present
    roots += [p for p in cr.fns if p.startswith("serde_2026::ser::") and cr.fns[p].d.get("vis") == "pub"]
    reach = cr.reachable(roots)
    n = 0
    for p in sorted(reach):
        f = cr.fns.get(p)
        if f is None or is_test_fn(f):
            continue
        n += 1
        for b, t in f.calls():
            c = t.get("callee") or t.get("raw") or ""
            if ("HashMap" in c or "HashSet" in c or "hash::map" in c or "hash::set" in c) and any(c.endswith(s) for s in HASH_ITER):
                ck.ob("R17a", f"{p}|{c.split('::')[-1]}", False, "iteration over a hash table is not allowed on the serializer's path (hash order would reach the output)",
                      site=f.where(b), detail=c)
            # `for x in &map` lowers to IntoIterator::into_iter on &HashMap
            if c.endswith("IntoIterator>::into_iter") and t.get("args"):
                ty = f.local_ty(mir.op_place(t["args"][0])["l"]) if mir.op_place(t["args"][0]) else ""
                if "HashMap<" in ty or "HashSet<" in ty:
                    ck.ob("R17a", f"{p}|for-in over hash table", False, "iteration over a hash table is not allowed on the serializer's path",
                          site=f.where(b), detail=ty)
    ck.ob("R17a", "reachable functions scanned", n >= 40, "the serializers' call graph was scanned for hash-order iteration", detail=n)

    # ---------------------------------------------------------------- R17b (read cache)
    fp = cr.fn("serde::read_cache_lookup::ReadCacheLookup::find_paths")
    ck.analysed(fp)
    # the candidate list is recognised by what is pushed onto it (a finished path), not by its name;
    # parameters by position: (self, id $2, serialized_length $3)
    pushes = [(b, t) for b, t in fp.calls() if (t.get("callee") or "").endswith("Vec::<T, A>::push") and len(t["args"]) > 1
              and "reversed_path_to_vec_u8(" in show(fp.expr_op(t["args"][1]))]
    alb = fp.calls_to("serde::serialized_length::atom_length_bits")
    ok = len(pushes) == 1 and len(alb) == 1
    det = {}
    if ok:
        arg = linear(fp.expr_op(alb[0][1]["args"][0]))
        det["atom_length_bits argument"] = str(arg)
        ok = arg is not None and arg[1] == 1 and len(arg[0]) == 1 and list(arg[0].values()) == [1] and "len(" in list(arg[0])[0]
        # guard: path_len <= serialized_length - 1
        guard = None
        for b in fp.reachable_blocks():
            if fp.term(b)["k"] == "switch":
                nrm = compare_norm(fp.switch_cond(b))
                if nrm:
                    nrm = (fp.unparam(nrm[0]), nrm[1], nrm[2])
                if nrm and "$3" in nrm[0] and any("atom_length_bits" in k for k in nrm[0]):
                    guard = (b, nrm)
        det["guard"] = show_norm(guard[1]) if guard else None
        if guard:
            b, nrm = guard
            terms = dict(nrm[0])
            sl = terms.pop("$3")
            rest = list(terms.items())
            be = fp.bool_edges(b)
            # path_len <= serialized_length - 1   <=>   serialized_length - path_len > 0
            ok = ok and nrm[2] == ">0" and nrm[1] == 0 and sl == 1 and len(rest) == 1 and rest[0][1] == -1 and fp.dominates(be[0], pushes[0][0])
        else:
            ok = False
    ck.ob("R17b", fp.path, ok,
          "a candidate path is kept only if atom_length_bits(bits + 1 terminator) <= serialized_length - 1 (one byte for the 0xfe marker)",
          site=fp.where(pushes[0][0]) if pushes else fp.where(0), detail=det)
    mins = [fp.unparam(show_norm(compare_norm(fp.switch_cond(b)))) for b in fp.reachable_blocks() if fp.term(b)["k"] == "switch"
            and compare_norm(fp.switch_cond(b)) and list(fp.unparam(compare_norm(fp.switch_cond(b))[0])) == ["$3"]]
    ck.ob("R17b", fp.path + "|minimum", "-$3 +4 >0" in mins, "nodes shorter than 4 bytes are never replaced", site=fp.where(0), detail=mins)
    # tree cache
    tf = cr.fn("serde::tree_cache::TreeCache::find_path")
    ck.analysed(tf)
    tf.status()
    somes = []
    for b in tf.reachable_blocks():
        for st in tf.stmts(b):
            if st.get("d") and st["d"]["l"] == 0 and not st["d"]["p"]:
                e = strip(tf.expr_rvalue(st["rv"], deep=False))
                if e[0] == "agg" and e[1].endswith("Option::Some"):
                    somes.append(b)
    guard = None
    for b in tf.reachable_blocks():
        if tf.term(b)["k"] == "switch":
            nrm = compare_norm(tf.switch_cond(b))
            if nrm and any("backref_len" in k or "serialized_length(" in k for k in nrm[0]) and any(k.endswith("serialized_length") for k in nrm[0]):
                guard = (b, nrm)
    okt = bool(somes) and guard is not None
    if okt:
        b, nrm = guard
        be = tf.bool_edges(b)
        terms = nrm[0]
        pos = [k for k, v in terms.items() if v == 1]
        neg = [k for k, v in terms.items() if v == -1]
        # backref_len + 1 > serialized_length  -> None
        okt = nrm[2] == ">0" and nrm[1] == 1 and len(pos) == 1 and len(neg) == 1 and neg[0].endswith("serialized_length") and \
            all(tf.dominates(be[1], s) for s in somes)
    ck.ob("R17b", tf.path, okt, "Some(path) is returned only when backref_len + 1 > serialized_length is false",
          site=tf.where(guard[0]) if guard else tf.where(0), detail=show_norm(guard[1]) if guard else None)
    mc = cr.const_val("serde::tree_cache::MIN_SERIALIZED_LENGTH")
    ck.ob("R17b", "MIN_SERIALIZED_LENGTH", mc == 4, "the tree cache also ignores nodes shorter than 4 bytes", detail=mc)

    # ---------------------------------------------------------------- R17c
    f = cr.fn("serde::ser_br::node_to_stream_backrefs")
    ck.analysed(f)
    rc_push = f.calls_to("serde::read_cache_lookup::ReadCacheLookup::push")
    wa = f.calls_to("serde::write_atom::write_atom")
    p2c = f.calls_to("serde::read_cache_lookup::ReadCacheLookup::pop2_and_cons")
    ok = len(rc_push) == 2 and len(wa) == 2 and len(p2c) == 1
    if ok:
        # each read-cache push is dominated by a successful write_atom of the same arm
        for pb, _ in rc_push:
            ws = [wb for wb, _ in wa if f.question_mark(wb) and f.dominates(f.question_mark(wb)[0], pb)]
            ok = ok and len(ws) == 1
    # the two work lists are found by element type (ReadOp / NodePtr); a pushed child by which field of the pair it is
    ops = mir.vec_pushes(f, "ReadOp")
    ws_ = mir.vec_pushes(f, "NodePtr")
    order_ok = [v for _, v in sorted(ws_)] == ["child1", "child0"] and sorted(v for _, v in ops) == ["Cons()", "Parse()", "Parse()"]
    ck.ob("R17c", f.path, ok and order_ok,
          "atom / back-reference: bytes written, then exactly one read-cache push; cons: marker, children pushed right-then-left (left is written first), one Cons step that pops two and conses",
          site=f.where(0), detail={"read_cache pushes": len(rc_push), "write_atom": len(wa), "pop2_and_cons": len(p2c), "op pushes": [v for _, v in ops],
                                   "child pushes": [v for _, v in sorted(ws_)]})
    # the Cons handling loop pops the op before consing
    if p2c:
        cb = p2c[0][0]
        pops = [b for b in mir.vec_pops(f, "ReadOp") if f.dominates(b, cb) and f.in_loop(b)]
        ck.ob("R17c", f.path + "|cons step", len(pops) >= 1, "each pop2_and_cons is paired with popping one Cons step", site=f.where(cb))
