"""C18 — back-reference decoders agree with each other and with the length probe (structural clauses).

R18a  ghost-pair parity in the vector-stack decoder: every push onto the value vector is preceded, on its path
      and after the value was successfully obtained, by exactly one add_ghost_pair(1) (the pair the list-stack
      decoder allocates for the stack cell); the cons step allocates one real pair plus one ghost (the legacy
      decoder's two); when a stack cell is materialised each new_pair is preceded by exactly one
      remove_ghost_pair(1) and the cell is cached. A failing parse must not have changed the pair count.
R18b  both decoders call parse_path / parse_atom under the same marker tests and invoke the callback exactly
      once per back-reference, with the resolved node.
R18c  the two path walkers (traverse_path_with_vec, traverse_path) have the same loop control: the same set of
      comparisons over byte index / bit mask / first-non-zero byte / msb mask, and select `right` on a set bit.
R18d  the length probe mirrors the list-stack decoder: same marker tests, same path walker, one stack cell per
      value, two allocations per cons, and it reports the cursor position on success.
"""
from lib import mir
from lib.mir import strip, show, walk, compare_norm, show_norm

NEW = "serde::de_br::node_from_stream_backrefs"
OLD = "serde::de_br::node_from_stream_backrefs_old"
TPV = "serde::de_br::traverse_path_with_vec"
TP = "traverse_path::traverse_path"
PROBE = "serde::tools::serialized_length_from_bytes"
A = "allocator::Allocator::"


def marker_tests(f):
    """tests on the first byte read from the stream (by role: element 0 of a one-byte buffer / a u8 parameter)"""
    return f.byte_tests()


def loop_norms(f):
    """normal forms of every comparison the function branches on, with local names removed (roles / expansions)"""
    import re
    return sorted(set(re.sub(r"(%[^#\s\])]+)#\d+", r"\1", show_norm(compare_norm(f.denamed(f.switch_cond(b))))) for b in f.reachable_blocks()
                      if f.term(b)["k"] == "switch" and compare_norm(f.denamed(f.switch_cond(b)))))


def run(ctx):
    ck = ctx.check
    cr = ctx.crate("default")
    ck.rule("R18z", "every index, slice range and division reachable from the two back-reference decoders and the length probe is in bounds (proved, or by a listed invariant)")
    from rules import c25
    counts, n_sites = c25.check_bounds(ck, cr, "R18z", c25.reach_fns(cr, [NEW, OLD, PROBE]))
    ck.floor("back-reference decoder indexing sites", n_sites, 20)
    ck.rule("R18a", "ghost-pair parity: one ghost pair per value pushed (after the value was obtained), one removed per materialised stack cell")
    ck.rule("R18b", "both decoders parse under the same marker tests and call the back-reference callback once with the resolved node")
    ck.rule("R18c", "the two path walkers have identical loop control and direction")
    ck.rule("R18d", "the length probe mirrors the list-stack decoder")
    ck.assume("identical trees are a value property; decided are the allocation-count parity and the shared parsing structure")
    new, old, tpv, tp, probe = (cr.fn(p) for p in (NEW, OLD, TPV, TP, PROBE))
    ck.analysed(new, old, tpv, tp, probe)

    # ---------------------------------------------------------------- R18a
    pushes = [(b, t) for b, t in new.calls() if (t.get("callee") or "").endswith("Vec::<T, A>::push")
              and "values" in show(new.expr_op(t["args"][0], deep=False))]
    ghosts = [b for b, t in new.calls_to(A + "add_ghost_pair")]
    producers = {"parse_atom": "serde::parse_atom::parse_atom", "backref": TPV, "cons": A + "new_pair"}
    ck.floor("value pushes in the vector-stack decoder", len(pushes), 3)
    for pb, pt in pushes:
        val = show(new.expr_op(pt["args"][1], deep=False))
        # the ghost calls between loop entry and this push: those dominating the push and not dominating the loop header
        hdrs = [h for h, body in new.loops().items() if pb in body]
        hdr = max(hdrs, key=lambda h: len(new.loops()[h])) if hdrs else 0
        gs = [g for g in ghosts if new.dominates(g, pb) and new.dominates(hdr, g) and g != hdr]
        # only those of this iteration arm: the ghost must be dominated by the arm's producer call
        prod = None
        for name, callee in producers.items():
            for cb, ct in new.calls_to(callee):
                if new.dominates(cb, pb) and new.dominates(hdr, cb):
                    q = new.question_mark(cb)
                    prod = (name, cb, q)
        okp = prod is not None and prod[2] is not None
        arm_gs = [g for g in gs if okp and new.dominates(prod[2][0], g)]
        early = [g for g in gs if g not in arm_gs]
        amt_ok = all(show(new.expr_op(new.term(g)["args"][1])) == "1" for g in arm_gs)
        ck.ob("R18a", f"{NEW}|push {val}", okp and len(arm_gs) == 1 and not early and amt_ok and new.question_mark(arm_gs[0]) is not None,
              "exactly one add_ghost_pair(1)? between obtaining the value (fallible step succeeded) and pushing it",
              site=new.where(pb), detail={"producer": prod[0] if prod else None, "ghost calls after producer": len(arm_gs),
                                          "ghost calls before the producer succeeded": [new.where(g) for g in early]})
    # cons arm: pops two, one real pair
    pops = [b for b, t in new.calls() if (t.get("callee") or "").endswith("Vec::<T, A>::pop") and "values" in show(new.expr_op(t["args"][0], deep=False))]
    nps = new.calls_to(A + "new_pair")
    ck.ob("R18a", f"{NEW}|cons", len(nps) == 1 and len(pops) == 3, "the cons step pops two values and allocates exactly one real pair (final pop returns the root)",
          site=new.where(nps[0][0]) if nps else new.where(0), detail={"new_pair calls": len(nps), "value pops": len(pops)})
    # materialisation in traverse_path_with_vec
    rg = [b for b, t in tpv.calls_to(A + "remove_ghost_pair")]
    np2 = [b for b, t in tpv.calls_to(A + "new_pair")]
    okm = len(rg) == 1 and len(np2) == 1 and tpv.dominates(rg[0], np2[0]) and tpv.in_loop(np2[0]) and \
        show(tpv.expr_op(tpv.term(rg[0])["args"][1])) == "1"
    cached = False
    for b in tpv.reach_from(np2) if np2 else []:
        for st in tpv.stmts(b):
            d = st.get("d")
            if d and "Some(" in show(tpv.expr_rvalue(st["rv"], deep=False)) and (
                    mir.place_fields(d) == ["1"] or
                    # the same slot reached through a destructured `&mut Option<NodePtr>` binding
                    (d["p"] == ["*"] and "Option<allocator::NodePtr>" in tpv.local_ty(d["l"]) and tpv.local_ty(d["l"]).startswith("&mut"))):
                cached = True
    skip_cached = any(tpv.term(b)["k"] == "switch" and tpv.discr_variants(b) and set(tpv.discr_variants(b).values()) == {"None", "Some"}
                      for b in tpv.reachable_blocks())
    ck.ob("R18a", f"{TPV}|materialise", okm and cached and skip_cached,
          "each materialised stack cell: remove_ghost_pair(1)? then new_pair, the cell is cached and cached cells are reused (not allocated twice)",
          site=tpv.where(np2[0]) if np2 else tpv.where(0), detail={"remove_ghost": len(rg), "new_pair": len(np2), "cached": cached})
    # legacy decoder: one cell per value, two per cons
    onp = old.calls_to(A + "new_pair")
    ck.ob("R18a", f"{OLD}|allocations", len(onp) == 4, "the list-stack decoder allocates one pair per atom, one per back-reference and two per cons",
          site=old.where(0), detail=len(onp))

    # ---------------------------------------------------------------- R18b
    mt_new, mt_old = marker_tests(new), marker_tests(old)
    ck.ob("R18b", "marker tests", mt_new == mt_old == {("==0", 0xFF), ("==0", 0xFE)}, "both decoders test the cons marker and the back-reference marker, nothing else",
          detail={"new": sorted(mt_new), "old": sorted(mt_old)})
    for f, walker in ((new, TPV), (old, TP)):
        pp = f.calls_to("serde::parse_atom::parse_path")
        pa = f.calls_to("serde::parse_atom::parse_atom")
        wk = f.calls_to(walker)
        cbs = [(b, t) for b, t in f.calls() if (t.get("raw") or "").endswith("FnMut::call_mut") or (t.get("callee") or "").endswith("FnMut::call_mut")]
        ok = len(pp) == 1 and len(pa) == 1 and len(wk) == 1 and len(cbs) == 1 and f.dominates(wk[0][0], cbs[0][0])
        arg = show(f.expr_op(cbs[0][1]["args"][1], deep=False)) if cbs else None
        ck.ob("R18b", f.path + "|callback", ok and arg is not None and "back_reference" in arg,
              "one parse_path, one parse_atom, one path walk, and the callback is invoked once with the resolved back-reference",
              site=f.where(cbs[0][0]) if cbs else f.where(0), detail={"callback arg": arg})

    # ---------------------------------------------------------------- R18c
    a, b_ = loop_norms(tpv), loop_norms(tp)
    common = [x for x in b_]
    missing = [x for x in b_ if x not in a]
    ck.ob("R18c", "loop control", not missing,
          "every loop-control comparison of traverse_path (byte index vs first non-zero byte, bit mask vs msb mask, mask wrap at 0x80, empty path) appears identically in traverse_path_with_vec",
          detail={"traverse_path": b_, "missing in traverse_path_with_vec": missing})
    extra = [x for x in a if x not in b_]
    ck.ob("R18c", "extra comparisons", extra == ["+%usize ==0"], "the vector walker adds only the end-of-stack test", detail=extra)
    # direction: bit set -> right / keep walking the vector (from expressions, not names)
    sel = tpv.bit_direction()
    ck.ob("R18c", "direction", sel == [("clear", "left"), ("set", "right")], "in tree mode a set bit selects the right child", detail=sel)

    # ---------------------------------------------------------------- R18d
    mt_p = marker_tests(probe)
    ck.ob("R18d", PROBE + "|markers", {("==0", 0xFF), ("==0", 0xFE)} <= mt_p and all(v in (0xFF, 0xFE, 0x80, 0x7F) for _, v in mt_p),
          "the probe tests the same markers (plus the literal-atom shortcuts)", site=probe.where(0), detail=sorted(mt_p))
    pnp = probe.calls_to(A + "new_pair")
    ok = len(probe.calls_to(TP)) == 1 and len(probe.calls_to("serde::parse_atom::parse_path")) == 1 and len(pnp) == 5
    ck.ob("R18d", PROBE + "|stack effects", ok,
          "the probe walks back-references with traverse_path on a list stack: one cell per value (3 atom forms + back-reference) and two allocations per cons",
          site=probe.where(0), detail={"new_pair": len(pnp)})
    rets = []
    for b in probe.reachable_blocks():
        for st in probe.stmts(b):
            if st.get("d") and st["d"]["l"] == 0 and not st["d"]["p"]:
                rets.append(show(probe.expr_rvalue(st["rv"], deep=False)))
    ck.ob("R18d", PROBE + "|result", any(r.startswith("Ok(") and "position" in r for r in rets),
          "on success the probe reports the cursor position (bytes consumed)", site=probe.where(0), detail=rets[:6])
