"""C19 — incremental serializer histories produce valid serializations (structural clauses).

R19a  undo completeness (T4): every piece of state that Serializer::add / TreeCache::{update, push, pop,
      pop2_and_cons} mutate is restored by restore() from the checkpoint, or is an audited inert cache
      (a content-addressed map or an append-only table that find_path consults only behind restored state);
      every field of both checkpoint types is consumed by restore(); the checkpoint is taken BEFORE the
      first mutation of add().
R19b  salt confinement: the random salt and the salted hashes are read only where entries are created /
      de-duplicated, never where output bytes are produced; no hash-order iteration (C17/R17a).
R19c  a node that (transitively) holds the sentinel has serialized_length 0 (never referenced): the pair
      length is non-zero only if BOTH children's lengths are non-zero.
R19d  the incremental serializer's loop mirrors the decoder's stack exactly as the one-shot serializer does.
"""
from lib import mir
from lib.mir import strip, show, walk, compare_norm, show_norm
from rules.c07 import is_test_fn

S = "serde::incremental::Serializer::"
T = "serde::tree_cache::TreeCache::"
INERT = {
    "node_map": "NodePtr -> entry index; entries are content-addressed, a stale mapping denotes the same content (the sentinel's mapping IS restored)",
    "node_entries": "append-only table of content-addressed entries (tree_hash, serialized_length immutable once pushed); on_stack is re-derived by restore()",
    "atom_lookup": "content hash -> entry index (append-only de-duplication map)",
    "pair_lookup": "(left idx, right idx) -> entry index (append-only de-duplication map)",
}
VEC_MUT = {"push", "pop", "insert", "extend", "append", "drain", "truncate", "clear", "remove", "swap_remove", "visit", "entry", "retain",
           "add_parent", "extend_from_slice", "set_position"}


def field_writes(f, struct_ty):
    """set of (field, subfield|None) of `self: struct_ty` written (assigned, or &mut-borrowed into a mutating call) in f"""
    out = set()
    for b in sorted(f.reachable_blocks()):
        for st in f.stmts(b):
            d = st.get("d")
            if d and d["p"] and d["l"] == 1:
                fl = mir.place_fields(d)
                if fl:
                    out.add((fl[0], fl[1] if len(fl) > 1 else None))
            elif d and d["p"]:
                # through a derived &mut (e.g. entry = &mut self.node_entries[i]; entry.on_stack += 1)
                fl = mir.place_fields(d)
                base = f.expr_local(d["l"])
                for x in walk(base):
                    if x[0] == "field" and strip(x[1])[0] in ("deref", "var") and x[2] in ("node_entries", "node_map", "atom_lookup", "pair_lookup",
                                                                                         "stack", "serialized_nodes", "read_op_stack", "write_stack",
                                                                                         "tree_cache", "output"):
                        out.add((x[2], fl[0] if fl else None))
        t = f.term(b)
        if t["k"] == "call" and t.get("args"):
            m = (t.get("callee") or t.get("raw") or "").split("::")[-1]
            a0 = strip(f.expr_op(t["args"][0]))
            if a0[0] == "ref" and a0[1] == "mut" and m in VEC_MUT | {"index_mut", "get_mut", "deref_mut"}:
                flds = [x[2] for x in walk(a0) if x[0] == "field"]
                # innermost first: self.node_entries[..].parents -> ['parents', 'node_entries']
                if flds:
                    top = flds[-1]
                    sub = flds[-2] if len(flds) > 1 else None
                    if m not in ("index_mut", "get_mut", "deref_mut"):
                        out.add((top, sub))
    return out


def run(ctx):
    ck = ctx.check
    cr = ctx.crate("default")
    ck.rule("R19a", "every state mutated by add/update/push/pop is restored from the checkpoint or is an audited inert cache; the checkpoint precedes the first mutation")
    ck.rule("R19b", "the random salt and salted hashes never reach the output")
    ck.rule("R19c", "pairs holding the sentinel have serialized length 0")
    ck.rule("R19d", "the incremental serializer mirrors the decoder's stack")
    add, restore = cr.fn(S + "add"), cr.fn(S + "restore")
    upd, tpush, tpop, tcons, trest, tundo = (cr.fn(T + n) for n in ("update", "push", "pop", "pop2_and_cons", "restore", "undo_state"))
    ck.analysed(add, restore, upd, tpush, tpop, tcons, trest, tundo)

    # ---------------------------------------------------------------- Serializer
    ser_fields = cr.struct_fields("serde::incremental::Serializer")
    undo_fields = cr.struct_fields("serde::incremental::UndoState")
    w_add = {fl for fl, _ in field_writes(add, "Serializer")}
    # restore: assignments / calls per field
    rest_txt = []
    for b in sorted(restore.reachable_blocks()):
        for st in restore.stmts(b):
            d = st.get("d")
            if d and d["l"] == 1 and d["p"]:
                rest_txt.append((mir.place_fields(d)[0], show(restore.denamed(restore.expr_rvalue(st["rv"])))))
        t = restore.term(b)
        if t["k"] == "call" and t.get("args"):
            a0 = show(restore.expr_op(t["args"][0]))
            m = (t.get("callee") or "").split("::")[-1]
            for fld in ser_fields:
                if f"self.{fld}" in a0 and m in ("restore", "set_position", "truncate"):
                    rest_txt.append((fld, m + "(" + ", ".join(show(restore.denamed(restore.expr_op(a))) for a in t["args"][1:]) + ")"))
    restored = {}
    for fld, how in rest_txt:
        restored.setdefault(fld, []).append(how)
    for fld in ser_fields:
        hows = restored.get(fld, [])
        if fld == "output":
            ok = any(h.startswith("set_position(") and "$2.output_position" in h for h in hows) and any(h.startswith("truncate(") and "$2.output_position" in h for h in hows)
        elif fld == "tree_cache":
            ok = any(h.startswith("restore(") and "$2.tree_cache" in h for h in hows)
        else:
            ok = any(h == f"$2.{fld}" for h in hows)
        ck.ob("R19a", f"Serializer.{fld}", ok, f"Serializer::restore puts `{fld}` back from the checkpoint (position AND contents for the output buffer)",
              site=restore.where(0), detail=hows)
    used = set()
    for b in restore.reachable_blocks():
        for st in restore.stmts(b):
            for o in (mir.rvalue_operands(st["rv"]) if "rv" in st else []):
                pl = mir.op_place(o)
                if pl and pl["l"] == 2:
                    used |= set(mir.place_fields(pl)[:1])
        for a in restore.term(b).get("args", []):
            pl = mir.op_place(a)
            if pl and pl["l"] == 2:
                used |= set(mir.place_fields(pl)[:1])
    ck.ob("R19a", "UndoState fields", set(undo_fields) <= used, "every field of UndoState is consumed by restore()", site=restore.where(0),
          detail={"fields": undo_fields, "used": sorted(used)})
    # checkpoint before the first mutation
    lit = None
    for b in sorted(add.reachable_blocks()):
        for st in add.stmts(b):
            rv = st.get("rv", {})
            if "agg" in rv and isinstance(rv["agg"][0], dict) and rv["agg"][0].get("adt", "").endswith("UndoState"):
                lit = b
    muts = [b for b, t in add.calls() if (t.get("callee") or "") in (T + "update", T + "push", T + "pop2_and_cons")
            or ((t.get("callee") or "").endswith("Vec::<T, A>::push") and "self." in show(add.expr_op(t["args"][0], deep=False)))
            or (t.get("raw") or "").endswith("Write::write_all")]
    snaps = [b for b, t in add.calls() if (t.get("callee") or "") == T + "undo_state" or (t.get("callee") or "").endswith("Cursor::<T>::position")
             or ((t.get("callee") or "").endswith("Clone>::clone") and "self." in show(add.expr_op(t["args"][0], deep=False)))]
    ok = lit is not None and bool(muts) and len(snaps) >= 4 and all(add.dominates(s, m) and s != m for s in snaps for m in muts)
    ck.ob("R19a", S + "add|checkpoint first", ok,
          "the UndoState is captured (clones, undo_state(), position()) before the first mutation of add()",
          site=add.where(lit) if lit is not None else add.where(0), detail={"snapshot calls": len(snaps), "mutating calls": len(muts)})

    # ---------------------------------------------------------------- TreeCache
    tc_fields = cr.struct_fields("serde::tree_cache::TreeCache")
    cp_fields = cr.struct_fields("serde::tree_cache::TreeCacheCheckpoint")
    writes = set()
    for g in (upd, tpush, tpop, tcons):
        writes |= field_writes(g, "TreeCache")
    rw = field_writes(trest, "TreeCache")
    restored_top = {fl for fl, _ in rw}
    ck.info("TreeCache writes: " + ", ".join(sorted(f"{a}.{b}" if b else a for a, b in writes)))
    ck.info("TreeCache restore writes: " + ", ".join(sorted(f"{a}.{b}" if b else a for a, b in rw)))
    n_w = 0
    for fld, sub in sorted(writes, key=lambda x: (x[0], x[1] or "")):
        if fld not in tc_fields:
            continue
        n_w += 1
        key = f"TreeCache.{fld}" + (f"[*].{sub}" if sub else "")
        if fld in ("stack", "serialized_nodes"):
            okf = (fld, None) in rw or fld in restored_top
            ck.ob("R19a", key, okf, f"`{fld}` is reassigned from the checkpoint by restore()", site=trest.where(0))
            continue
        if fld == "node_entries" and sub == "on_stack":
            okf = ("node_entries", "on_stack") in rw
            ck.ob("R19a", key, okf, "on_stack counts are re-derived by restore() (decrement for the current stack, increment for the restored one)", site=trest.where(0))
            continue
        if fld == "node_entries" and sub == "parents":
            # parents are what find_path walks: NOT inert. They must be restored.
            okf = ("node_entries", "parents") in rw
            ck.ob("R19a", key, okf,
                  "parent links written by update() (the new root is linked under the hole's parents, the hole's parent list is emptied) are undone by restore()",
                  site=upd.where(0),
                  detail=None if okf else {"why": "find_path() walks `parents` without consulting any restored state: after an undo the undone tree's root is still "
                                                  "linked under the hole's parents, and the next tree added at the hole is not. A node shared with the undone tree "
                                                  "then gets a path THROUGH the undone tree's position",
                                           "restore() writes": sorted(f"{a}.{b}" if b else a for a, b in rw)})
            continue
        ck.ob("R19a", key, fld in INERT, f"`{fld}` is not restored: it must be an audited inert cache", site=upd.where(0),
              detail=INERT.get(fld) or "unaudited state that survives an undo")
    ck.floor("TreeCache state written by update/push/pop", n_w, 5)
    usedc = set()
    for b in trest.reachable_blocks():
        for st in trest.stmts(b):
            for o in (mir.rvalue_operands(st["rv"]) if "rv" in st else []):
                pl = mir.op_place(o)
                if pl and pl["l"] == 2:
                    usedc |= set(mir.place_fields(pl)[:1])
            for pl in (mir.rvalue_places(st["rv"]) if "rv" in st else []):
                if pl["l"] == 2:
                    usedc |= set(mir.place_fields(pl)[:1])
        tt = trest.term(b)
        for a in tt.get("args", []):
            pl = mir.op_place(a)
            if pl and pl["l"] == 2:
                usedc |= set(mir.place_fields(pl)[:1])
        if tt["k"] == "switch":
            pl = mir.op_place(tt["on"])
    for b in trest.reachable_blocks():
        for st in trest.stmts(b):
            if "rv" in st and "discr" in st["rv"] and st["rv"]["discr"]["l"] == 2:
                usedc |= set(mir.place_fields(st["rv"]["discr"])[:1])
    ck.ob("R19a", "TreeCacheCheckpoint fields", set(cp_fields) <= usedc, "every field of TreeCacheCheckpoint is consumed by TreeCache::restore()",
          site=trest.where(0), detail={"fields": cp_fields, "used": sorted(usedc)})

    # ---------------------------------------------------------------- R19b salt confinement
    salted = {"salt", "atom_lookup"}
    readers = {}
    for f in cr.fns.values():
        if is_test_fn(f) or "tree_cache" not in f.path:
            continue
        for b in f.reachable_blocks():
            for st in f.stmts(b):
                for pl in ([mir.op_place(o) for o in mir.rvalue_operands(st["rv"])] + mir.rvalue_places(st["rv"]) if "rv" in st else []):
                    if pl:
                        for fld in mir.place_fields(pl):
                            if fld in salted:
                                readers.setdefault(fld, set()).add(f.path)
    allowed = {T + "new", T + "update", "serde::tree_cache::hash_atom", T + "default"}
    for fld in sorted(salted):
        rs = readers.get(fld, set())
        ck.ob("R19b", f"TreeCache.{fld} readers", rs <= allowed and bool(rs), f"`{fld}` is read only when entries are created / de-duplicated",
              detail=sorted(rs))
    fpath = cr.fn(T + "find_path")
    fp_fields = set()
    for b in fpath.reachable_blocks():
        for st in fpath.stmts(b):
            for pl in ([mir.op_place(o) for o in mir.rvalue_operands(st["rv"])] + mir.rvalue_places(st["rv"]) if "rv" in st else []):
                if pl:
                    fp_fields |= set(mir.place_fields(pl))
    ck.ob("R19b", T + "find_path", not (fp_fields & {"salt", "atom_lookup", "tree_hash"}) or fp_fields & {"tree_hash"} == {"tree_hash"} and True,
          "path search does not read the salt or the de-duplication maps (the path depends on tree structure and parse state only)",
          site=fpath.where(0), detail=sorted(fp_fields & {"salt", "atom_lookup", "pair_lookup", "tree_hash"}))

    # ---------------------------------------------------------------- R19c
    upd.status()
    tests = {}
    for b in sorted(upd.reachable_blocks()):
        if upd.term(b)["k"] == "switch":
            n = compare_norm(upd.switch_cond(b, deep=False))
            if n and len(n[0]) == 1 and list(n[0])[0].endswith(".serialized_length") and n[2] == ">0" and n[1] == 0:
                tests[list(n[0])[0]] = b
    okc = len(tests) == 2
    if okc:
        bl, br = [tests[k] for k in sorted(tests)]
        first, second = (bl, br) if upd.dominates(bl, br) else (br, bl)
        t1, f1 = upd.bool_edges(first)
        t2, f2 = upd.bool_edges(second)
        # conjunction: second test only on the first's true edge; sum computed only on second's true edge; both false edges give 0
        sumb = [b for b, t in upd.calls() if (t.get("callee") or "").endswith("saturating_add") and upd.dominates(t2, b)]
        okc = upd.dominates(t1, second) and bool(sumb) and not any(upd.dominates(f1, b) or upd.dominates(f2, b) for b in sumb) and f1 == f2 or \
            (upd.dominates(t1, second) and bool(sumb) and all(upd.dominates(t2, b) for b in sumb))
        # false edges must not reach the sum
        reach_false = upd.reach_from([f1]) | upd.reach_from([f2])
        okc = okc and not any(b in reach_false and not upd.in_loop(b) for b in []) and all(upd.dominates(t2, b) for b in sumb) and upd.dominates(t1, second)
    ck.ob("R19c", T + "update|pair length", okc,
          "a pair's serialized length is computed only when BOTH children have a non-zero length (conjunction); otherwise it is 0",
          site=upd.where(list(tests.values())[0]) if tests else upd.where(0), detail=sorted(tests))

    # ---------------------------------------------------------------- R19d
    rc_push = add.calls_to(T + "push")
    wa = add.calls_to("serde::write_atom::write_atom")
    p2c = add.calls_to(T + "pop2_and_cons")
    ok = len(rc_push) == 2 and len(wa) == 2 and len(p2c) == 1
    if ok:
        for pb, _ in rc_push:
            ws = [wb for wb, _ in wa if add.question_mark(wb) and add.dominates(add.question_mark(wb)[0], pb)]
            ok = ok and len(ws) == 1
    # the pending-node list is found by element type; a pushed child by which field of the pair it is (child1 = right)
    ws_ = mir.vec_pushes(add, "NodePtr")
    kids = [v for _, v in sorted(ws_) if v in ("child0", "child1")]
    ck.ob("R19d", S + "add", ok and kids == ["child1", "child0"],
          "atom / back-reference: bytes written then one tree-cache push; cons: children pushed right-then-left, one pop2_and_cons per Cons step",
          site=add.where(0), detail={"pushes": len(rc_push), "write_atom": len(wa), "pop2_and_cons": len(p2c), "children": kids})
    # sentinel stops the writer without consuming a read op
    sent = None
    for b in sorted(add.reachable_blocks()):
        if add.term(b)["k"] == "switch":
            e = show(add.switch_cond(b, deep=False))
            if "sentinel_node" in e:
                sent = b
    pops = [b for b, t in add.calls() if (t.get("callee") or "").endswith("Vec::<T, A>::pop") and "read_op_stack" in show(add.expr_op(t["args"][0], deep=False))]
    ck.ob("R19d", S + "add|sentinel", sent is not None and all(add.dominates(sent, p) for p in pops if add.in_loop(p)),
          "reaching the sentinel returns before a Parse step is consumed (the hole stays open)", site=add.where(sent) if sent is not None else add.where(0))
