"""C20 — serde_2026 round-trips, is total, and is recognisable (structural clauses).

R20a  magic prefix: with the constants of the current source, the classic prefix decoder provably rejects the
      2026 magic: MAGIC[0] is neither marker, has n <= 6 leading ones so a size field of n bytes is read from
      the magic itself, and that size is >= the decoder's size cap (or n exceeds the prefix cap); inputs
      shorter than the size field fail read_exact. All classic / back-reference decoders use that decoder (C16).
R20b  instruction numbering agrees between writer and reader: nil = 0, cons = +1 / -1 (the two operand orders),
      atom i = i + 2, pair j = -(j + 2); the reader inverts exactly these offsets and bounds-checks the tables.
R20c  the length probe mirrors the decoder's header validation: the same sequence of validation calls over the
      varints it reads, and the same set of rejection tests (negative length = group, i64::MIN, zero length,
      zero count, zero instruction count); it reports magic length + cursor position.
R20d  untrusted lengths are bounded before allocation: every resize / with_capacity / reserve in the decoder
      takes a constant or a value that passed checked_bounded_usize(max_atom_len).
R20e  varint range tests are the same in the writer (write_varint) and in the strict-mode size function
      (varint_size): both accept exactly min <= value <= max for 7 + 7k bits, k = 0..7.
"""
from lib import mir
from lib.mir import strip, show, walk, compare_norm, show_norm, linear, const_eval
from rules.c07 import is_test_fn, forward_reach
from rules.c13 import negate

DE = "serde_2026::de::deserialize_2026_body_from_stream"
PROBE = "serde_2026::de::serialized_length_serde_2026"
ALIAS = {"atom_len": "length"}


def validation_seq(f):
    out = []
    for b in sorted(f.reachable_blocks()):
        t = f.term(b)
        if t["k"] == "call":
            c = (t.get("callee") or "").split("::")[-1]
            if c in ("read_varint", "checked_usize", "checked_bounded_usize"):
                extra = ""
                if c == "checked_bounded_usize" and len(t["args"]) > 1:
                    extra = ":" + show(f.expr_op(t["args"][1], deep=False))
                    a0 = strip(f.expr_op(t["args"][0], deep=False))
                    if a0[0] == "un" and a0[1] == "Neg":
                        extra += ":neg"
                out.append(c + extra)
    return out


def reject_tests(f):
    """set of normalised conditions (over named locals) whose taken edge is an error return"""
    f.status()
    out = set()
    for b in sorted(f.reachable_blocks()):
        if f.term(b)["k"] != "switch":
            continue
        n = compare_norm(f.switch_cond(b, deep=False))
        be = f.bool_edges(b)
        if not n or not be:
            continue
        for edge, cond in ((be[0], n), (be[1], negate(n))):
            if f.is_error_block(edge):
                terms = {ALIAS.get(k, k): v for k, v in cond[0].items()}
                out.add(show_norm((terms, cond[1], cond[2])))
    # branch tests that select the group form (not an error by themselves)
    for b in sorted(f.reachable_blocks()):
        if f.term(b)["k"] == "switch":
            n = compare_norm(f.switch_cond(b, deep=False))
            if n and list(n[0]) == ["length_val"] and n[2] == ">0" and n[1] == 0:
                out.add("branch:" + show_norm(n))
    return out


def run(ctx):
    ck = ctx.check
    cr = ctx.crate("default")
    ck.rule("R20z", "every index, slice range and division reachable from the serde_2026 decoders and the length probe is in bounds (proved, or by a listed invariant)")
    from rules import c25
    counts, n_sites = c25.check_bounds(ck, cr, "R20z", c25.reach_fns(cr, [DE, PROBE, "serde_2026::de::deserialize_2026"]))
    ck.floor("serde_2026 decoder indexing sites", n_sites, 5)
    ck.rule("R20a", "the classic prefix decoder rejects the 2026 magic prefix (constant relation)")
    ck.rule("R20b", "instruction numbering agrees between writer and reader")
    ck.rule("R20c", "the length probe mirrors the decoder's header validation")
    ck.rule("R20d", "untrusted lengths are bounded before allocation")
    ck.rule("R20e", "varint range tests agree between writer and strict size function")
    ck.assume("round-trip of serialize_2026 and totality beyond the explicit-panic inventory are not decided; with a permissive max_atom_len a hostile length can still request a large buffer (caller contract)")

    # ---------------------------------------------------------------- R20a
    magic = bytes.fromhex(cr.const("serde_2026::SERDE_2026_MAGIC_PREFIX").get("bytes", ""))
    if len(magic) < 2:
        raise mir.AnchorMissing("SERDE_2026_MAGIC_PREFIX not extracted")
    from rules import c15
    d, caps, _raw = c15.decoder_caps(cr)
    ck.analysed(d)
    b0 = magic[0]
    ones = 0
    for i in range(7, -1, -1):
        if b0 & (1 << i):
            ones += 1
        else:
            break
    cons = cr.const_val("serde::de::CONS_BOX_MARKER")
    backref = cr.const_val("serde::de_br::BACK_REFERENCE")
    maxsb = cr.const_val("serde::parse_atom::MAX_SINGLE_BYTE")
    rejected = False
    why = ""
    if b0 in (cons, backref) or b0 <= maxsb or b0 == 0x80:
        why = "first magic byte is a marker / literal atom"
    elif "prefix" in caps and ones > caps["prefix"]:
        rejected, why = True, f"{ones}-byte size prefix exceeds the prefix cap {caps['prefix']}"
    elif ones <= len(magic) and "size" in caps:
        size = b0 & (0xFF >> ones)
        for x in magic[1:ones]:
            size = (size << 8) | x
        rejected = size >= caps["size"]
        why = f"size field {size:#x} decoded from the magic itself vs cap {caps['size']:#x}"
    else:
        why = "magic shorter than its own size field"
    ck.ob("R20a", "SERDE_2026_MAGIC_PREFIX", rejected, "decode_size_with_offset rejects any input that starts with the 2026 magic",
          detail={"magic": magic.hex(), "leading ones": ones, "caps": caps, "why": why})

    # ---------------------------------------------------------------- R20b
    de = cr.fn(DE)
    ck.analysed(de)
    sw = None
    for b in sorted(de.reachable_blocks()):
        t = de.term(b)
        if t["k"] == "switch" and t.get("ty") == "i64" and len(t["targets"]) >= 3:
            sw = b
    arms = {}
    if sw is not None:
        for tgt, v in de.succ(sw):
            arms[v] = tgt
    vals = sorted((v if v == "otherwise" else (v - (1 << 64) if v >= (1 << 63) else v)) for v in arms if v != "otherwise")
    ck.ob("R20b", DE + "|literal instructions", vals == [-1, 0, 1], "the reader's literal instructions are 0 (nil), 1 and -1 (the two cons orders)",
          site=de.where(sw) if sw is not None else de.where(0), detail=vals)
    # offsets in the reader
    subs = []
    for b in sorted(de.reachable_blocks()):
        for st in de.stmts(b):
            rv = st.get("rv", {})
            if "bin" in rv and rv["bin"][0].startswith("Sub"):
                e = show(de.expr_rvalue(rv, deep=False))
                if e.endswith(" Sub 2)"):
                    subs.append(e)
        t = de.term(b)
        if t["k"] == "call" and (t.get("callee") or "").endswith("checked_sub") and show(de.expr_op(t["args"][1])) == "2":
            subs.append("checked_sub(2)")
    negs = [1 for b, t in de.calls() if (t.get("callee") or "").endswith("checked_neg")]
    ge2 = [show_norm(compare_norm(de.switch_cond(b, deep=False))) for b in de.reachable_blocks() if de.term(b)["k"] == "switch"
           and compare_norm(de.switch_cond(b, deep=False)) and show_norm(compare_norm(de.switch_cond(b, deep=False))).startswith("+n -1 >0")]
    closure_sub = any((t.get("callee") or "").endswith("checked_sub") for p, g in cr.fns.items() if p.startswith(DE + "::{closure") for _, t in g.calls())
    ck.ob("R20b", DE + "|offsets", len([s for s in subs if "Sub 2" in s]) >= 1 and (closure_sub or "checked_sub(2)" in subs) and bool(negs) and bool(ge2),
          "atom index = n - 2 for n >= 2; pair index = (-n) - 2 otherwise", site=de.where(0), detail={"subs": subs, "n>=2 test": ge2})
    gets = [b for b, t in de.calls() if (t.get("callee") or "").endswith("::get") and ("atoms" in show(de.expr_op(t["args"][0])) or "pairs" in show(de.expr_op(t["args"][0])))]
    ck.ob("R20b", DE + "|bounds", len(gets) == 2, "both table lookups are bounds-checked (get + error)", site=de.where(0), detail=len(gets))
    # writer side
    em = [f for p, f in cr.fns.items() if p.startswith("serde_2026::ser::emit_instructions") and f.d["kind"] != "Closure"]
    if not em:
        raise mir.AnchorMissing("serde_2026::ser::emit_instructions not found")
    wtxt = []
    for f in em:
        ck.analysed(f)
        for b in sorted(f.reachable_blocks()):
            t = f.term(b)
            if t["k"] == "call" and (t.get("callee") or "").endswith("Vec::<T, A>::push") and "instructions" in show(f.expr_op(t["args"][0], deep=False)):
                wtxt.append(show(f.expr_op(t["args"][1])))
    plus2 = [w for w in wtxt if w.endswith(" Add 2)") and "Neg" not in w]
    neg2 = [w for w in wtxt if w.startswith("Neg(") and " Add 2)" in w]
    consop = [w for w in wtxt if "cons_opcode" in w]
    zero = [w for w in wtxt if w == "0"]
    ck.ob("R20b", "serde_2026::ser::emit_instructions|offsets", bool(plus2) and bool(neg2) and bool(consop),
          "the writer emits atom_index + 2, -(pair_index + 2) and the cons opcode", detail=sorted(set(w[:70] for w in wtxt)))
    co = [f for p, f in cr.fns.items() if p.endswith("::cons_opcode")]
    vals = set()
    for f in co:
        for b in f.reachable_blocks():
            for st in f.stmts(b):
                if st.get("d") and st["d"]["l"] == 0 and "use" in st["rv"] and "c" in st["rv"]["use"]:
                    vals.add(st["rv"]["use"]["c"].get("val"))
    ck.ob("R20b", "cons_opcode", vals == {1, -1}, "the cons opcode is +1 or -1", detail=sorted(vals))
    # which operand order each opcode denotes in the reader: 1 -> right popped first ; -1 -> left popped first
    order = {}
    for v, tgt in arms.items():
        if v == "otherwise":
            continue
        sv = v - (1 << 64) if v >= (1 << 63) else v
        if sv in (1, -1):
            names = []
            reg = forward_reach(de, tgt)
            for b in sorted(reg):
                t = de.term(b)
                if t["k"] == "call" and (t.get("callee") or "").endswith("::unwrap"):
                    nm = de.local_name(t["dst"]["l"])
                    if nm in ("left", "right"):
                        names.append(nm)
                if t["k"] == "call" and (t.get("callee") or "").endswith("Allocator::new_pair"):
                    names.append("pair(" + ",".join(show(de.expr_op(a, deep=False)) for a in t["args"][1:]) + ")")
                    break
            order[sv] = names
    ck.ob("R20b", DE + "|cons orders", order.get(1, [])[:3] == ["right", "left", "pair(left,right)"] and order.get(-1, [])[:3] == ["left", "right", "pair(left,right)"],
          "opcode 1 pops right then left, opcode -1 pops left then right; both build (left . right)", site=de.where(sw) if sw is not None else None, detail=order)

    # ---------------------------------------------------------------- R20c
    pr = cr.fn(PROBE)
    ck.analysed(pr)
    s1, s2 = validation_seq(de), validation_seq(pr)
    ck.ob("R20c", "validation call sequence", s1 == s2 and len(s1) >= 9, "decoder and probe validate the header varints with the same calls in the same order",
          detail={"decoder": s1, "probe": s2})
    r1, r2 = reject_tests(de), reject_tests(pr)
    hdr1 = {t for t in r1 if any(k in t for k in ("length", "count", "length_val", "instruction_count", "group"))}
    hdr2 = {t for t in r2 if any(k in t for k in ("length", "count", "length_val", "instruction_count", "group"))}
    ck.ob("R20c", "rejection tests", hdr1 == hdr2 and len(hdr1) >= 5, "decoder and probe reject the same header values",
          detail={"decoder only": sorted(hdr1 - hdr2), "probe only": sorted(hdr2 - hdr1), "common": sorted(hdr1 & hdr2)})
    rets = []
    for b in pr.reachable_blocks():
        for st in pr.stmts(b):
            if st.get("d") and st["d"]["l"] == 0 and not st["d"]["p"]:
                rets.append(show(pr.expr_rvalue(st["rv"], deep=False)))
    ck.ob("R20c", PROBE + "|result", any(r.startswith("Ok(") and "position" in r and " Add " in r for r in rets),
          "the probe reports magic length + cursor position", site=pr.where(0), detail=[r for r in rets if r.startswith("Ok(")])
    sk = [show_norm(compare_norm(pr.switch_cond(b, deep=False))) for b in pr.reachable_blocks() if pr.term(b)["k"] == "switch"
          and compare_norm(pr.switch_cond(b, deep=False)) and "new_pos" in show_norm(compare_norm(pr.switch_cond(b, deep=False)))]
    ck.ob("R20c", PROBE + "|skip bound", len(sk) == 1 and "+new_pos" in sk[0] and "-len(data)" in sk[0] and sk[0].endswith(" >0"),
          "skipping atom bodies is bounded by the data length (truncated blobs are rejected like read_exact does)", site=pr.where(0), detail=sk)

    # ---------------------------------------------------------------- R20d
    n_alloc = 0
    for b, t in de.calls():
        m = (t.get("callee") or "").split("::")[-1]
        if m in ("resize", "with_capacity", "reserve", "reserve_exact") and t.get("args"):
            n_alloc += 1
            arg = t["args"][1] if m != "with_capacity" else t["args"][0]
            e = de.expr_op(arg)
            okb = const_eval(e) is not None
            if not okb:
                l = mir.op_place(arg)
                # value originates from checked_bounded_usize on every definition
                seen, work, origins = set(), [l["l"]] if l else [], set()
                while work:
                    x = work.pop()
                    if x in seen:
                        continue
                    seen.add(x)
                    for site in de.defs(x):
                        rv = de.def_rvalue(site)
                        if "call" in rv:
                            cn = (rv["call"].get("callee") or "").split("::")[-1]
                            origins.add(cn)
                            if cn == "branch":  # `?` passes the value through
                                for o in rv["call"]["args"]:
                                    pl = mir.op_place(o)
                                    if pl:
                                        work.append(pl["l"])
                            continue
                        for o in mir.rvalue_operands(rv):
                            pl = mir.op_place(o)
                            if pl:
                                work.append(pl["l"])
                        for pl in mir.rvalue_places(rv):
                            work.append(pl["l"])
                okb = "checked_bounded_usize" in origins and not (origins - {"checked_bounded_usize", "checked_usize", "branch", "read_varint", "from_residual"})
                if not okb:
                    ck.info("resize origins: " + ",".join(sorted(origins)))
            ck.ob("R20d", f"{DE}|{m}", okb, "allocation size is a constant or passed checked_bounded_usize(max_atom_len)", site=de.where(b),
                  detail=show(e)[:120])
    ck.floor("allocation sites in the 2026 decoder", n_alloc, 2)

    # ---------------------------------------------------------------- R20e
    wv, vs = cr.fn("serde_2026::varint::write_varint"), cr.fn("serde_2026::varint::varint_size")
    rd = cr.fn("serde_2026::varint::read_varint")
    ck.analysed(wv, vs, rd)

    def accept_conds(f, emit_pred):
        out = set()
        emit_blocks = {b for b in f.reachable_blocks() if emit_pred(f, b)}
        for b in sorted(f.reachable_blocks()):
            if f.term(b)["k"] != "switch":
                continue
            n = compare_norm(f.switch_cond(b, deep=False))
            if not n or not any(k in ("min_value", "max_value") for k in n[0]):
                continue
            be = f.bool_edges(b)
            t_acc = bool(forward_reach(f, be[0]) & emit_blocks)
            f_acc = bool(forward_reach(f, be[1]) & emit_blocks)
            if t_acc and not f_acc:
                out.add(show_norm(n))
            elif f_acc and not t_acc:
                out.add(show_norm(negate(n)))
            else:
                out.add("ambiguous:" + show_norm(n))
        return out
    a1 = accept_conds(wv, lambda f, b: f.term(b)["k"] == "call" and (f.term(b).get("raw") or "").endswith("Write::write_all"))
    a2 = accept_conds(vs, lambda f, b: any(st.get("d") and st["d"]["l"] == 0 for st in f.stmts(b)))
    want = {"-min_value +value +1 >0", "+max_value -value +1 >0"}
    ck.ob("R20e", "range tests", a1 == a2 == want, "write_varint and varint_size accept exactly min_value <= value <= max_value",
          detail={"write_varint": sorted(a1), "varint_size": sorted(a2)})
    forms = {}
    for f in (wv, vs, rd):
        for nm in ("total_value_bits", "min_value", "max_value"):
            for l in f.local_by_name(nm):
                for s in f.defs(l):
                    forms.setdefault(nm, {}).setdefault(f.path.split("::")[-1], set()).add(show(f.expr_rvalue(f.def_rvalue(s), deep=False)))
    okf = all(len({frozenset(v) for v in per.values()}) == 1 for per in forms.values()) and \
        forms.get("total_value_bits", {}).get("write_varint") == {"(7 Add (7 Mul leading_ones))"}
    ck.ob("R20e", "bit widths", okf, "all three varint functions use 7 + 7k value bits and the same min/max expressions",
          detail={k: {f: sorted(v) for f, v in per.items()} for k, per in forms.items()})
