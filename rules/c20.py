"""C20 — serde_2026 round-trips, is total, and is recognisable (structural clauses).

R20a  magic prefix: with the constants of the current source, the classic prefix decoder provably rejects the
      2026 magic: MAGIC[0] is neither marker, has n <= 6 leading ones so a size field of n bytes is read from
      the magic itself, and that size is >= the decoder's size cap (or n exceeds the prefix cap); inputs
      shorter than the size field fail read_exact. All classic / back-reference decoders use that decoder (C16).
R20b  instruction numbering agrees between writer and reader: nil = 0, cons = +1 / -1 (the two operand orders),
      atom i = i + 2, pair j = -(j + 2); the reader inverts exactly these offsets and bounds-checks the tables.
R20c  the length probe mirrors the decoder's header validation: the same sequence of validation calls over the
      varints it reads, and the same set of rejection tests (negative length = group, i64::MIN, zero length,
      zero count, zero instruction count); it reports magic length + cursor position.
R20d  untrusted lengths are bounded before allocation: every resize / with_capacity / reserve in the decoder
      takes a constant or a value that passed checked_bounded_usize(max_atom_len).
R20e  varint range tests are the same in the writer (write_varint) and in the strict-mode size function
      (varint_size): both accept exactly min <= value <= max for 7 + 7k bits, k = 0..7.
"""
import re
from lib import mir
from lib.mir import strip, show, walk, compare_norm, show_norm, linear, const_eval
from rules.c07 import is_test_fn, forward_reach
from rules.c13 import negate

DE = "serde_2026::de::deserialize_2026_body_from_stream"
PROBE = "serde_2026::de::serialized_length_serde_2026"
ALIAS = {"atom_len": "length"}


def rpo(f):
    """{block: position in reverse post-order}: execution order of the CFG, independent of how blocks are numbered (inlined
    code is numbered last) and of where a helper's lines sit in the file"""
    if hasattr(f, "_rpo_index"):
        return f._rpo_index
    seen, post = set(), []
    stack = [(0, iter([tb for tb, _ in f.succ(0)]))]
    seen.add(0)
    while stack:
        b, it = stack[-1]
        adv = False
        for tb in it:
            if tb not in seen:
                seen.add(tb)
                stack.append((tb, iter([x for x, _ in f.succ(tb)])))
                adv = True
                break
        if not adv:
            post.append(b)
            stack.pop()
    f._rpo_index = {b: i for i, b in enumerate(reversed(post))}
    return f._rpo_index


def validation_seq(f):
    out = []
    order = rpo(f)
    for b in sorted(f.reachable_blocks(), key=lambda x: order.get(x, 10 ** 6)):
        t = f.term(b)
        if t["k"] == "call":
            c = (t.get("callee") or "").split("::")[-1]
            if c in ("read_varint", "checked_usize", "checked_bounded_usize"):
                extra = ""
                if c == "checked_bounded_usize" and len(t["args"]) > 1:
                    extra = ":" + show(f.expr_op(t["args"][1], deep=False))
                    a0 = strip(f.expr_op(t["args"][0], deep=False))
                    if a0[0] == "un" and a0[1] == "Neg":
                        extra += ":neg"
                out.append(c + extra)
    return out


def varint_quantities(f):
    """{local: 'V<k>'}: every local whose value derives from exactly one read_varint call site is named after the ORDINAL of that
    call (k-th read_varint of the function, in source order) - the identity of a header quantity is where it was read, not what
    the local holding it is called.  Tuples are followed field by field (`let (length, count) = if .. {(a, b)} else {(c, 1)}`)."""
    order = rpo(f)
    sites = sorted((order.get(b, 10 ** 6), b) for b, t in f.calls() if (t.get("callee") or "").split("::")[-1] == "read_varint")
    sites = [b for _, b in sites]
    memo = {}

    def origin(l, fld, seen):
        k = (l, fld)
        if k in memo:
            return memo[k]
        if k in seen or l <= f.nargs:
            return set()
        seen = seen | {k}
        out = set()
        for site in f.defs(l):
            rv = f.def_rvalue(site)
            if "call" in rv:
                if (rv["call"].get("callee") or "").split("::")[-1] == "read_varint":
                    out.add(site[0])
                    continue
                ops = rv["call"]["args"]
            elif fld is not None and "agg" in rv and rv["agg"][0] == "tuple" and fld < len(rv["agg"][1]):
                ops = [rv["agg"][1][fld]]
            else:
                ops = list(mir.rvalue_operands(rv)) + [{"cp": pl} for pl in mir.rvalue_places(rv)]
            for o in ops:
                pl = mir.op_place(o)
                if pl:
                    pf = None
                    if pl["p"] and isinstance(pl["p"][0], dict) and "f" in pl["p"][0] and str(pl["p"][0]["f"]).isdigit():
                        pf = int(pl["p"][0]["f"])
                    out |= origin(pl["l"], pf, seen)
        memo[k] = out
        return out
    m = {}
    for l in range(f.nargs + 1, len(f.locals)):
        if f.local_name(l):
            o = origin(l, None, frozenset())
            if len(o) == 1:
                m[l] = "V%d" % sites.index(next(iter(o)))
    return m


def reject_tests(f):
    """set of normalised conditions whose taken edge is an error return; header quantities are rendered V<k> (see above)"""
    f.status()
    q = varint_quantities(f)
    out = set()
    for b in sorted(f.reachable_blocks()):
        if f.term(b)["k"] != "switch":
            continue
        n = compare_norm(f.switch_cond(b, deep=False))
        be = f.bool_edges(b)
        if not n or not be:
            continue
        for edge, cond in ((be[0], n), (be[1], negate(n))):
            if f.is_error_block(edge):
                out.add(f.unname(show_norm(cond), q))
    # branch tests that select the group form (not an error by themselves)
    for b in sorted(f.reachable_blocks()):
        if f.term(b)["k"] == "switch":
            n = compare_norm(f.switch_cond(b, deep=False))
            if n and len(n[0]) == 1 and n[2] == ">0" and n[1] == 0:
                t = f.unname(show_norm(n), q)
                if re.match(r"^[+-]V\d+ >0$", t):
                    out.add("branch:" + t)
    return out


def run(ctx):
    ck = ctx.check
    cr = ctx.crate("default")
    ck.rule("R20z", "every index, slice range and division reachable from the serde_2026 decoders and the length probe is in bounds (proved, or by a listed invariant)")
    from rules import c25
    counts, n_sites = c25.check_bounds(ck, cr, "R20z", c25.reach_fns(cr, [DE, PROBE, "serde_2026::de::deserialize_2026"]))
    ck.floor("serde_2026 decoder indexing sites", n_sites, 5)
    ck.rule("R20a", "the classic prefix decoder rejects the 2026 magic prefix (constant relation)")
    ck.rule("R20b", "instruction numbering agrees between writer and reader")
    ck.rule("R20c", "the length probe mirrors the decoder's header validation")
    ck.rule("R20d", "untrusted lengths are bounded before allocation")
    ck.rule("R20e", "varint range tests agree between writer and strict size function")
    ck.assume("round-trip of serialize_2026 and totality beyond the explicit-panic inventory are not decided; with a permissive max_atom_len a hostile length can still request a large buffer (caller contract)")

    # ---------------------------------------------------------------- R20a
    magic = bytes.fromhex(cr.const("serde_2026::SERDE_2026_MAGIC_PREFIX").get("bytes", ""))
    if len(magic) < 2:
        raise mir.AnchorMissing("SERDE_2026_MAGIC_PREFIX not extracted")
    from rules import c15
    d, caps, _raw = c15.decoder_caps(cr)
    ck.analysed(d)
    b0 = magic[0]
    ones = 0
    for i in range(7, -1, -1):
        if b0 & (1 << i):
            ones += 1
        else:
            break
    cons = cr.const_val("serde::de::CONS_BOX_MARKER")
    backref = cr.const_val("serde::de_br::BACK_REFERENCE")
    maxsb = cr.const_val("serde::parse_atom::MAX_SINGLE_BYTE")
    rejected = False
    why = ""
    if b0 in (cons, backref) or b0 <= maxsb or b0 == 0x80:
        why = "first magic byte is a marker / literal atom"
    elif "prefix" in caps and ones > caps["prefix"]:
        rejected, why = True, f"{ones}-byte size prefix exceeds the prefix cap {caps['prefix']}"
    elif ones <= len(magic) and "size" in caps:
        size = b0 & (0xFF >> ones)
        for x in magic[1:ones]:
            size = (size << 8) | x
        rejected = size >= caps["size"]
        why = f"size field {size:#x} decoded from the magic itself vs cap {caps['size']:#x}"
    else:
        why = "magic shorter than its own size field"
    ck.ob("R20a", "SERDE_2026_MAGIC_PREFIX", rejected, "decode_size_with_offset rejects any input that starts with the 2026 magic",
          detail={"magic": magic.hex(), "leading ones": ones, "caps": caps, "why": why})

    # ---------------------------------------------------------------- R20b
    de = cr.fn(DE)
    ck.analysed(de)
    sw = None
    for b in sorted(de.reachable_blocks()):
        t = de.term(b)
        if t["k"] == "switch" and t.get("ty") == "i64" and len(t["targets"]) >= 3:
            sw = b
    arms = {}
    if sw is not None:
        for tgt, v in de.succ(sw):
            arms[v] = tgt
    vals = sorted((v if v == "otherwise" else (v - (1 << 64) if v >= (1 << 63) else v)) for v in arms if v != "otherwise")
    ck.ob("R20b", DE + "|literal instructions", vals == [-1, 0, 1], "the reader's literal instructions are 0 (nil), 1 and -1 (the two cons orders)",
          site=de.where(sw) if sw is not None else de.where(0), detail=vals)
    # offsets in the reader
    subs = []
    for b in sorted(de.reachable_blocks()):
        for st in de.stmts(b):
            rv = st.get("rv", {})
            if "bin" in rv and rv["bin"][0].startswith("Sub"):
                e = show(de.expr_rvalue(rv, deep=False))
                if e.endswith(" Sub 2)"):
                    subs.append(e)
        t = de.term(b)
        if t["k"] == "call" and (t.get("callee") or "").endswith("checked_sub") and show(de.expr_op(t["args"][1])) == "2":
            subs.append("checked_sub(2)")
    negs = [1 for b, t in de.calls() if (t.get("callee") or "").endswith("checked_neg")]
    qd = varint_quantities(de)
    n_inst = len([1 for b_, t_ in de.calls() if (t_.get("callee") or "").split("::")[-1] == "read_varint"]) - 1   # the instruction is the last varint read
    ge2 = [de.unname(show_norm(compare_norm(de.switch_cond(b, deep=False))), qd) for b in de.reachable_blocks() if de.term(b)["k"] == "switch"
           and compare_norm(de.switch_cond(b, deep=False))]
    ge2 = [t_ for t_ in ge2 if t_.startswith(f"+V{n_inst} -1 >0")]
    closure_sub = any((t.get("callee") or "").endswith("checked_sub") for p, g in cr.fns.items() if p.startswith(DE + "::{closure") for _, t in g.calls())
    ck.ob("R20b", DE + "|offsets", len([s for s in subs if "Sub 2" in s]) >= 1 and (closure_sub or "checked_sub(2)" in subs) and bool(negs) and bool(ge2),
          "atom index = n - 2 for n >= 2; pair index = (-n) - 2 otherwise", site=de.where(0), detail={"subs": subs, "n>=2 test": ge2})
    # the two node tables, by type: slices of NodePtr
    gets = [b for b, t in de.calls() if (t.get("callee") or "").endswith("::get") and mir.op_place(t["args"][0])
            and de.local_ty(mir.op_place(t["args"][0])["l"]).endswith("[allocator::NodePtr]")]
    ck.ob("R20b", DE + "|bounds", len(gets) == 2, "both table lookups are bounds-checked (get + error)", site=de.where(0), detail=len(gets))
    # writer side
    em = [f for p, f in cr.fns.items() if p.startswith("serde_2026::ser::emit_instructions") and f.d["kind"] != "Closure"]
    if not em:
        raise mir.AnchorMissing("serde_2026::ser::emit_instructions not found")
    wtxt = []
    for f in em:
        ck.analysed(f)
        for b in sorted(f.reachable_blocks()):
            t = f.term(b)
            # the instruction list, by type: the Vec<i64>
            if t["k"] == "call" and (t.get("callee") or "").endswith("Vec::<T, A>::push") and mir.op_place(t["args"][0]) \
                    and "Vec<i64>" in f.local_ty(mir.op_place(t["args"][0])["l"]):
                pl_ = mir.op_place(t["args"][1])
                ds_ = f.defs(pl_["l"]) if pl_ and not pl_["p"] else []
                if len(ds_) > 1 and not f.local_name(pl_["l"]):
                    # a pushed temporary assigned on several paths (e.g. the result of an inlined helper with two returns):
                    # every value it can hold is an emitted instruction
                    for d_ in ds_:
                        wtxt.append(show(f.expr_rvalue(f.def_rvalue(d_))) if d_[1] != "T" else "call")
                else:
                    wtxt.append(show(f.expr_op(t["args"][1])))
    plus2 = [w for w in wtxt if w.endswith(" Add 2)") and "Neg" not in w]
    neg2 = [w for w in wtxt if w.startswith("Neg(") and " Add 2)" in w]
    consop = [w for w in wtxt if "cons_opcode" in w]
    zero = [w for w in wtxt if w == "0"]
    ck.ob("R20b", "serde_2026::ser::emit_instructions|offsets", bool(plus2) and bool(neg2) and bool(consop),
          "the writer emits atom_index + 2, -(pair_index + 2) and the cons opcode", detail=sorted(set(w[:70] for w in wtxt)))
    co = [f for p, f in cr.fns.items() if p.endswith("::cons_opcode")]
    vals = set()
    for f in co:
        for b in f.reachable_blocks():
            for st in f.stmts(b):
                if st.get("d") and st["d"]["l"] == 0 and "use" in st["rv"] and "c" in st["rv"]["use"]:
                    vals.add(st["rv"]["use"]["c"].get("val"))
    ck.ob("R20b", "cons_opcode", vals == {1, -1}, "the cons opcode is +1 or -1", detail=sorted(vals))
    # which operand order each opcode denotes in the reader.  Decided from WHERE the two children of the new pair come from
    # (first or second value popped in that arm), not from local names; a private helper that pops two values is followed.
    from lib.bounds import Eval

    def unval(e):
        while e[0] == "val":
            e = e[2]
        return e

    def pop_site(fn, ev, e):
        """('pop', block) if e is unwrap(pop(..)) / (pop(..) as Some).0 evaluated in fn"""
        e = unval(e)
        if e[0] == "call" and e[1].endswith("::unwrap") and e[2]:
            inner = unval(e[2][0])
            if inner[0] == "call" and inner[1].endswith("Vec::<T, A>::pop") and len(inner) > 3:
                return inner[3][0]
        if e[0] == "fld" and e[2] == "0" and unval(e[1])[0] == "dc" and unval(e[1])[2] == "Some":
            inner = unval(unval(e[1])[1])
            if inner[0] == "call" and inner[1].endswith("Vec::<T, A>::pop") and len(inner) > 3:
                return inner[3][0]
        return None

    def helper_ranks(path):
        """for a local fn returning Ok((x, y)) with x, y popped values: {tuple index: rank of the pop (1 = first)}"""
        h = cr.fns.get(path)
        if h is None:
            return None
        evh = Eval(h, cr)
        for bb in h.reachable_blocks():
            for st in h.stmts(bb):
                rv = st.get("rv", {})
                if st["d"]["l"] == 0 and "agg" in rv and isinstance(rv["agg"][0], dict) and rv["agg"][0].get("variant") == "Ok":
                    tup = unval(evh.operand(rv["agg"][1][0], (bb, len(h.stmts(bb)))))
                    if tup[0] == "agg" and tup[1] == "tuple" and len(tup[2]) == 2:
                        sites = [pop_site(h, evh, x) for x in tup[2]]
                        if None not in sites and sites[0] != sites[1]:
                            first = sites[0] if h.dominates(sites[0], sites[1]) else sites[1]
                            return {i: (1 if sx == first else 2) for i, sx in enumerate(sites)}
        return None
    order = {}
    evd = Eval(de, cr)
    for v, tgt in arms.items():
        if v == "otherwise":
            continue
        sv = v - (1 << 64) if v >= (1 << 63) else v
        if sv not in (1, -1):
            continue
        reg = forward_reach(de, tgt)
        nps = [bb for bb in sorted(reg) if de.term(bb)["k"] == "call" and (de.term(bb).get("callee") or "").endswith("Allocator::new_pair")
               and de.dominates(tgt, bb)]
        if not nps:
            order[sv] = "no new_pair in this arm"
            continue
        npb = nps[0]
        ranks = []
        for a_ in de.term(npb)["args"][1:]:
            e = unval(evd.operand(a_, (npb, "T")))
            sb = pop_site(de, evd, e)
            if sb is not None:
                others = [bb for bb in reg if de.term(bb)["k"] == "call" and (de.term(bb).get("callee") or "").endswith("Vec::<T, A>::pop")
                          and de.dominates(tgt, bb) and de.dominates(bb, npb)]
                ranks.append(1 + sum(1 for o in others if o != sb and de.dominates(o, sb)))
                continue
            # (helper(..)? ).k
            r_ = None
            if e[0] == "fld" and e[2] in ("0", "1"):
                base = unval(e[1])
                if base[0] == "fld" and base[2] == "0" and unval(base[1])[0] == "dc" and unval(base[1])[2] == "Continue":
                    br = unval(unval(base[1])[1])
                    if br[0] == "call" and br[1].endswith("Try>::branch"):
                        hc = unval(br[2][0])
                        if hc[0] == "call":
                            hr = helper_ranks(hc[1])
                            if hr:
                                r_ = hr.get(int(e[2]))
            ranks.append(r_)
        order[sv] = ranks
    # opcode 1: the right child was pushed last, so it is popped first: new_pair(second popped, first popped); opcode -1 the reverse
    ck.ob("R20b", DE + "|cons orders", order.get(1) == [2, 1] and order.get(-1) == [1, 2],
          "opcode 1 builds (second popped . first popped), opcode -1 builds (first popped . second popped)", site=de.where(sw) if sw is not None else None,
          detail={str(k): v for k, v in order.items()})

    # ---------------------------------------------------------------- R20c
    pr = cr.fn(PROBE)
    ck.analysed(pr)
    s1, s2 = validation_seq(de), validation_seq(pr)
    ck.ob("R20c", "validation call sequence", s1 == s2 and len(s1) >= 9, "decoder and probe validate the header varints with the same calls in the same order",
          detail={"decoder": s1, "probe": s2})
    r1, r2 = reject_tests(de), reject_tests(pr)
    hdr1 = {t for t in r1 if re.search(r"\bV\d", t)}
    hdr2 = {t for t in r2 if re.search(r"\bV\d", t)}
    ck.ob("R20c", "rejection tests", hdr1 == hdr2 and len(hdr1) >= 5, "decoder and probe reject the same header values",
          detail={"decoder only": sorted(hdr1 - hdr2), "probe only": sorted(hdr2 - hdr1), "common": sorted(hdr1 & hdr2)})
    rets = []
    for b in pr.reachable_blocks():
        for st in pr.stmts(b):
            if st.get("d") and st["d"]["l"] == 0 and not st["d"]["p"]:
                rets.append(show(pr.expr_rvalue(st["rv"])))
    ck.ob("R20c", PROBE + "|result", any(r.startswith("Ok(") and "::position(" in r and " Add " in r for r in rets),
          "the probe reports magic length + cursor position", site=pr.where(0), detail=[r for r in rets if r.startswith("Ok(")])
    # the new cursor position (position() + skip, by provenance) is compared with the length of the data
    sk = [show_norm(compare_norm(pr.switch_cond(b))) for b in pr.reachable_blocks() if pr.term(b)["k"] == "switch"
          and compare_norm(pr.switch_cond(b)) and "::position(" in show_norm(compare_norm(pr.switch_cond(b))) and "len(" in show_norm(compare_norm(pr.switch_cond(b)))]
    ck.ob("R20c", PROBE + "|skip bound", len(sk) == 1 and re.search(r"\+\S*checked_add\(\S*::position\(", sk[0]) is not None and " -len(" in sk[0] and sk[0].endswith(" >0"),
          "skipping atom bodies is bounded by the data length (truncated blobs are rejected like read_exact does)", site=pr.where(0), detail=sk)

    # ---------------------------------------------------------------- R20d
    n_alloc = 0
    for b, t in de.calls():
        m = (t.get("callee") or "").split("::")[-1]
        if m in ("resize", "with_capacity", "reserve", "reserve_exact") and t.get("args"):
            n_alloc += 1
            arg = t["args"][1] if m != "with_capacity" else t["args"][0]
            e = de.expr_op(arg)
            okb = const_eval(e) is not None
            if not okb:
                l = mir.op_place(arg)
                # value originates from checked_bounded_usize on every definition
                seen, work, origins = set(), [l["l"]] if l else [], set()
                while work:
                    x = work.pop()
                    if x in seen:
                        continue
                    seen.add(x)
                    for site in de.defs(x):
                        rv = de.def_rvalue(site)
                        if "call" in rv:
                            cn = (rv["call"].get("callee") or "").split("::")[-1]
                            origins.add(cn)
                            if cn == "branch":  # `?` passes the value through
                                for o in rv["call"]["args"]:
                                    pl = mir.op_place(o)
                                    if pl:
                                        work.append(pl["l"])
                            continue
                        for o in mir.rvalue_operands(rv):
                            pl = mir.op_place(o)
                            if pl:
                                work.append(pl["l"])
                        for pl in mir.rvalue_places(rv):
                            work.append(pl["l"])
                okb = "checked_bounded_usize" in origins and not (origins - {"checked_bounded_usize", "checked_usize", "branch", "read_varint", "from_residual"})
                if not okb:
                    ck.info("resize origins: " + ",".join(sorted(origins)))
            ck.ob("R20d", f"{DE}|{m}", okb, "allocation size is a constant or passed checked_bounded_usize(max_atom_len)", site=de.where(b),
                  detail=show(e)[:120])
    ck.floor("allocation sites in the 2026 decoder", n_alloc, 2)

    # ---------------------------------------------------------------- R20e
    # writer and strict-size function share one range table: decided by the (name-free) rule of C21
    from rules import c21
    ck.analysed(cr.fn("serde_2026::varint::write_varint"), cr.fn("serde_2026::varint::varint_size"))
    c21.range_table(ck, cr, "R20e")
