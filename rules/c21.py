"""C21 — serde_2026 varints: writer/reader agreement and consumed length (structural clauses).

The bijection itself is arithmetic over 2^56 values and is NOT decided.  Decided are the clauses of the statement whose
truth is in the shape of the three functions (write_varint, varint_size, read_varint), with K = number of leading ones:

R21a  consumed length: read_varint reads exactly 1 + K bytes (one 1-byte read, then one read of extra[..K] under K > 0) and
      nothing else from the stream; 8 leading ones are rejected.
R21b  emitted length: write_varint writes exactly 1 + K bytes (one 1-element write, then one 1-element write per i in
      (0..K).rev()) and returns; nothing is written for a K whose range does not contain the value.
R21c  same range table: writer and strict-size function accept a value for K iff -(1 << (6+7K)) <= value <= (1 << (6+7K)) - 1,
      K = 0..7, first fit wins (the loop counts up from 0): shortest encoding.
R21d  same layout: the writer's first byte is (ones(K) << (8-K)) | (u >> 8K), then bytes u >> 8i for i = K-1 .. 0, with
      u = value (+ 1 << (7+7K) when negative); the reader rebuilds u = (b0 & ((1 << (7-K)) - 1)), then (u << 8) | byte for the
      extra bytes in stream order, and subtracts 1 << (7+7K) iff u >= 1 << (6+7K).
R21e  strictness: the only rejection after assembly is `strict && varint_size(value) != K + 1`; lenient mode returns the value.
"""
import re
from lib import mir
from lib.mir import strip, show, walk, compare_norm, show_norm
from rules.c07 import forward_reach
from rules.c13 import negate

W = "serde_2026::varint::write_varint"
S = "serde_2026::varint::varint_size"
R = "serde_2026::varint::read_varint"


def range_table(ck, cr, RULE="R21c"):
    """writer and strict-size function share the range table (shared with C20's R20e); returns the rendering of the loop
    counter K of write_varint"""
    w, s = cr.fn(W), cr.fn(S)

    def dn(f, e):
        return show(f.denamed(e))

    # ---------------------------------------------------------------- writer and size function: range table
    def table(f, accept_pred):
        """-> (bits expr, accept conditions, counter source)"""
        acc_blocks = {b for b in f.reachable_blocks() if accept_pred(f, b)}
        conds = set()
        for b in sorted(f.reachable_blocks()):
            if f.term(b)["k"] != "switch":
                continue
            n = compare_norm(f.denamed(f.switch_cond(b)))
            if not n or "$" not in show_norm(n) or "Shl" not in show_norm(n):
                continue
            be = f.bool_edges(b)
            t_acc = bool(forward_reach(f, be[0]) & acc_blocks)
            f_acc = bool(forward_reach(f, be[1]) & acc_blocks)
            if t_acc and not f_acc:
                conds.add(show_norm(n))
            elif f_acc and not t_acc:
                conds.add(show_norm(negate(n)))
            else:
                conds.add("ambiguous:" + show_norm(n))
        return conds
    KW = "(Range>::next(&mut ::into_iter(Range(0, 8))) as Some).0"
    wacc = table(w, lambda f, b: f.term(b)["k"] == "call" and (f.term(b).get("raw") or "").endswith("Write::write_all"))
    sacc = table(s, lambda f, b: any(st.get("d") and st["d"]["l"] == 0 and not st["d"]["p"] for st in f.stmts(b)))
    pv_w, pv_s = "$2", "$1"
    half = lambda K: f"(1 Shl ((7 Add (7 Mul {K})) Sub 1))"
    want_w = {f"-Neg({half(KW)}) +{pv_w} +1 >0", f"+{half(KW)} -{pv_w} >0"}
    want_s = {c.replace(pv_w, pv_s) for c in want_w}
    # normal forms may order the terms differently: compare as sets of (sorted tokens)
    def canon(cs):
        out = []
        for c in cs:
            # split the top-level terms of "+a -b +1 >0" (terms start with +/- at parenthesis depth 0)
            terms, cur, depth = [], "", 0
            for ch in c:
                if ch == "(":
                    depth += 1
                elif ch == ")":
                    depth -= 1
                if ch == " " and depth == 0:
                    terms.append(cur)
                    cur = ""
                else:
                    cur += ch
            terms.append(cur)
            out.append(" ".join(sorted(terms)))
        return sorted(out)
    ck.ob(RULE, "range table", canon(wacc) == canon(want_w) and canon(sacc) == canon(want_s),
          "write_varint and varint_size accept K iff -(1 << (6+7K)) <= value <= (1 << (6+7K)) - 1", site=w.where(0),
          detail={"write_varint": sorted(wacc), "varint_size": sorted(sacc)})
    rng = []
    for f in (w, s):
        for b, t in f.calls():
            if (t.get("callee") or "").endswith("IntoIterator>::into_iter") and b in f.dominators(max(f.reachable_blocks())) or \
                    ((t.get("callee") or "").endswith("IntoIterator>::into_iter") and not f.in_loop(b)):
                rng.append((f.path.split("::")[-1], dn(f, f.expr_op(t["args"][0]))))
    rng = [x for x in rng if not x[1].startswith("Iterator::rev(")]
    ck.ob(RULE, "candidates", sorted(rng) == [("varint_size", "Range(0, 8)"), ("write_varint", "Range(0, 8)")],
          "both try K = 0, 1, .. 7 in ascending order, so the first fit is the shortest encoding", site=w.where(0), detail=rng)
    # varint_size returns K + 1
    sret = sorted(dn(s, s.expr_rvalue(st["rv"])) for b in s.reachable_blocks() for st in s.stmts(b) if st.get("d") and st["d"]["l"] == 0 and not st["d"]["p"] and "rv" in st)
    ck.ob(RULE, S + "|result", sret == [f"({KW} Add 1)"], "varint_size returns K + 1 for the accepted K", site=s.where(0), detail=sret)

    return KW


def run(ctx):
    ck = ctx.check
    cr = ctx.crate("default")
    ck.rule("R21a", "read_varint consumes exactly 1 + K bytes; 8 leading ones are rejected")
    ck.rule("R21b", "write_varint emits exactly 1 + K bytes for the first K whose range contains the value")
    ck.rule("R21c", "writer and strict-size function share the range table min/max(7 + 7K bits), K = 0..7 ascending")
    ck.rule("R21d", "writer and reader agree on the byte layout and on the two's-complement conversion")
    ck.rule("R21e", "the strict check is the only rejection after assembly and compares varint_size(value) with K + 1")
    ck.assume("that the shared table and layout make encode/decode inverse of each other on every 56-bit value is an arithmetic fact that is not decided here")
    w, s, r = cr.fn(W), cr.fn(S), cr.fn(R)
    ck.analysed(w, s, r)

    def dn(f, e):
        return show(f.denamed(e))

    # ---------------------------------------------------------------- reader
    KR = "(::leading_zeros(Not([0; 1][0])) as usize)"
    reads = [(b, t) for b, t in r.calls() if "Read" in (t.get("raw") or "") or (t.get("callee") or "").startswith("std::io::Read")]
    shapes = []
    for b, t in reads:
        shapes.append(((t.get("raw") or t.get("callee")).split("::")[-1], dn(r, r.expr_op(t["args"][1]))))
    first_ok = len(shapes) == 2 and shapes[0] == ("read_exact", "(&mut [0; 1] as &mut [u8])")
    second = shapes[1][1] if len(shapes) == 2 else ""
    second_ok = len(shapes) == 2 and shapes[1][0] == "read_exact" and "index_mut(&mut [0; 7], RangeTo(" + KR + "))" in second.replace("IndexMut for [T; N]>::", "")
    guard = False
    if len(reads) == 2:
        for x in r.dominators(reads[1][0]):
            if r.term(x)["k"] == "switch":
                n = compare_norm(r.denamed(r.switch_cond(x)))
                be = r.bool_edges(x)
                if n and show_norm(n) == "+::leading_zeros(Not([0; 1][0])) >0" and be and (be[0] == reads[1][0] or r.dominates(be[0], reads[1][0])):
                    guard = True
    ck.ob("R21a", R + "|reads", first_ok and second_ok and guard,
          "one read of the first byte, one read of extra[..K] under K > 0, nothing else", site=r.where(0), detail={"reads": shapes, "K > 0 guard": guard})
    r.status()
    rej = []
    for x in sorted(r.reachable_blocks()):
        if r.term(x)["k"] == "switch":
            n = compare_norm(r.denamed(r.switch_cond(x)))
            be = r.bool_edges(x)
            if n and be and r.is_error_block(be[0]):
                rej.append(show_norm(n))
    ck.ob("R21a", R + "|eight ones", "+::leading_zeros(Not([0; 1][0])) -7 >0" in rej,
          "a first byte with 8 leading ones is rejected", site=r.where(0), detail=rej)

    # assembly of the unsigned value: the u64 local assigned in the loop
    uacc = None
    for l in range(r.nargs + 1, len(r.locals)):
        if r.local_ty(l) == "u64" and len(r.defs(l)) == 2:
            uacc = l
    if uacc is None:
        raise mir.AnchorMissing("read_varint: the u64 accumulator (assigned before and inside the byte loop) was not found")
    udefs = sorted(show(r.denamed(r.expr_rvalue(r.def_rvalue(d_)), keep={uacc: "U"})) for d_ in r.defs(uacc) if d_[1] != "T")
    want_u = sorted([f"(([0; 1][0] BitAnd ((1 Shl (7 Sub {KR})) Sub 1)) as u64)",
                     f"((U Shl 8) BitOr (*(Iterator>::next(&mut ::into_iter(&*Index for [T; N]>::index(&[0; 7], RangeTo({KR})))) as Some).0 as u64))"])
    it_src = [dn(r, r.expr_op(t["args"][0])) for b, t in r.calls() if (t.get("callee") or "").endswith("IntoIterator for &'a [T]>::into_iter")]
    ck.ob("R21d", R + "|assembly", udefs == want_u and len(it_src) == 1 and ("index(&[0; 7], RangeTo(" + KR + "))") in it_src[0].replace("Index for [T; N]>::", ""),
          "u = b0 & ((1 << (7-K)) - 1), then u = (u << 8) | byte for each of the K extra bytes in stream order", site=r.where(0),
          detail={"updates": udefs, "iterates": it_src})
    # sign conversion
    vdefs = []
    vl = None
    for l in range(r.nargs + 1, len(r.locals)):
        if r.local_ty(l) == "i64" and len(r.defs(l)) == 2 and all(d_[1] != "T" for d_ in r.defs(l)):
            vl = l
    if vl is None:
        raise mir.AnchorMissing("read_varint: the i64 value (two assignments) was not found")
    sign_ok = False
    sign_sw = None
    for d_ in r.defs(vl):
        vdefs.append(show(r.denamed(r.expr_rvalue(r.def_rvalue(d_)), keep={uacc: "U"})))
    bits = f"(7 Add (7 Mul {KR}))"
    want_v = sorted(["(U as i64)", f"((U as i64) Sub (1 Shl {bits}))"])
    for x in sorted(r.reachable_blocks()):
        if r.term(x)["k"] == "switch":
            c = show(r.denamed(r.switch_cond(x), keep={uacc: "U"}))
            if c == f"(U Ge (1 Shl ({bits} Sub 1)))":
                be = r.bool_edges(x)
                tdef = [d_ for d_ in r.defs(vl) if be and (d_[0] == be[0] or r.dominates(be[0], d_[0]))]
                sign_ok = len(tdef) == 1 and "Sub (1 Shl" in show(r.denamed(r.expr_rvalue(r.def_rvalue(tdef[0])), keep={uacc: "U"}))
                sign_sw = x
    ck.ob("R21d", R + "|sign", sorted(vdefs) == want_v and sign_ok,
          "value = u - (1 << (7+7K)) iff u >= 1 << (6+7K), else u", site=r.where(0), detail={"assignments": sorted(vdefs), "negative branch under the sign test": sign_ok})

    # strict check
    errs_after = []
    ok_ret = []
    for b in sorted(r.reachable_blocks()):
        for st in r.stmts(b):
            rv = st.get("rv", {})
            if st["d"]["l"] == 0 and not st["d"]["p"] and "agg" in rv and isinstance(rv["agg"][0], dict):
                if rv["agg"][0].get("variant") == "Ok":
                    ok_ret.append(show(r.denamed(r.expr_op(rv["agg"][1][0], deep=False), keep={vl: "VALUE"})))
                elif rv["agg"][0].get("variant") == "Err" and sign_sw is not None and r.dominates(sign_sw, b):
                    conds = []
                    for x in r.dominators(b):
                        if r.term(x)["k"] == "switch" and all(r.dominates(d_[0], x) or True for d_ in r.defs(vl)):
                            be = r.bool_edges(x)
                            if be and (be[0] == b or r.dominates(be[0], b)) and r.dominates(sign_sw, x) and x != sign_sw:
                                conds.append(show(r.denamed(r.switch_cond(x), keep={vl: "VALUE"})))
                    errs_after.append(sorted(conds))
    want_strict = sorted(["$2", f"(varint::varint_size(VALUE) Ne ({KR} Add 1))"])
    ck.ob("R21e", R + "|strict", errs_after == [want_strict] and ok_ret == ["VALUE"],
          "after assembly the only rejection is `strict && varint_size(value) != K + 1`; otherwise Ok(value)", site=r.where(0),
          detail={"rejections after assembly": errs_after, "returns": ok_ret})

    KW = range_table(ck, cr, "R21c")

    # ---------------------------------------------------------------- writer layout and length
    writes = [(b, t) for b, t in w.calls() if (t.get("raw") or "").endswith("Write::write_all")]
    ul = None
    for l in range(w.nargs + 1, len(w.locals)):
        if w.local_ty(l) == "u64" and len(w.defs(l)) == 2:
            ul = l
    if ul is None:
        raise mir.AnchorMissing("write_varint: the unsigned value (two assignments) was not found")
    wr = [show(w.denamed(w.expr_op(t["args"][1]), keep={ul: "U"})) for b, t in writes]
    fb = None
    for l in range(w.nargs + 1, len(w.locals)):
        if w.local_ty(l) == "u8" and len(w.defs(l)) >= 2:
            fb = l
    KI = f"(Iterator>::next(&mut ::into_iter(Iterator::rev(Range(0, {KW})))) as Some).0"
    want_wr = [f"(&array((%u8#0 BitOr ((U Shr ({KW} Mul 8)) as u8))) as &[u8])", f"(&array(((U Shr ({KI} Mul 8)) as u8)) as &[u8])"]
    in_loop = [any(b in body and h != min(w.loops()) for h, body in w.loops().items()) for b, t in writes]
    ck.ob("R21b", W + "|writes", wr == want_wr and len(writes) == 2,
          "one byte (prefix | u >> 8K), then one byte u >> 8i per i of the reversed range", site=w.where(0), detail=wr)
    rev = [dn(w, w.expr_op(t["args"][0])) for b, t in w.calls() if (t.get("callee") or "").endswith("Iterator::rev")]
    ck.ob("R21b", W + "|tail order", rev == [f"Range(0, {KW})"], "the K following bytes are written for i = K-1 down to 0 (big-endian)", site=w.where(0), detail=rev)
    fbd = sorted(show(w.denamed(w.expr_rvalue(w.def_rvalue(d_)), keep={ul: "U", fb: "FB"})) for d_ in w.defs(fb) if d_[1] != "T") if fb is not None else []
    want_fb = sorted(["0", f"(((1 Shl {KW}) Sub 1) Shl (8 Sub {KW}))"])     # the OR with the top bits of u is in the byte written (R21b)
    ck.ob("R21d", W + "|first byte", fbd == want_fb, "first byte = K ones, a zero, then the top bits of u", site=w.where(0), detail=fbd)
    ud = sorted(show(w.denamed(w.expr_rvalue(w.def_rvalue(d_)), keep={ul: "U"})) for d_ in w.defs(ul) if d_[1] != "T")
    want_ud = sorted(["($2 as u64)", f"(($2 Add (1 Shl (7 Add (7 Mul {KW})))) as u64)"])
    neg_ok = False
    for x in sorted(w.reachable_blocks()):
        if w.term(x)["k"] == "switch" and show(w.denamed(w.switch_cond(x))) == "($2 Lt 0)":
            be = w.bool_edges(x)
            td = [d_ for d_ in w.defs(ul) if be and (d_[0] == be[0] or w.dominates(be[0], d_[0]))]
            neg_ok = len(td) == 1 and "Add (1 Shl" in show(w.denamed(w.expr_rvalue(w.def_rvalue(td[0]))))
    ck.ob("R21d", W + "|unsigned", ud == want_ud and neg_ok, "u = value + (1 << (7+7K)) iff value < 0, else value", site=w.where(0),
          detail={"assignments": ud, "under value < 0": neg_ok})
    # after the writes the function returns Ok (no second candidate is ever written)
    oks = [b for b in w.reachable_blocks() for st in w.stmts(b) if st.get("d") and st["d"]["l"] == 0 and "agg" in st.get("rv", {})
           and isinstance(st["rv"]["agg"][0], dict) and st["rv"]["agg"][0].get("variant") == "Ok"]
    outer = min(w.loops()) if w.loops() else None
    ret_ok = len(oks) == 1 and bool(writes) and w.dominates(writes[0][0], oks[0]) and outer is not None and \
        outer not in forward_reach(w, oks[0])
    ck.ob("R21b", W + "|returns after writing", ret_ok, "after the bytes of the first fitting K are written the function returns (no second encoding)",
          site=w.where(oks[0]) if oks else w.where(0))
