"""C22 — all tree-hash implementations agree with the recursive definition (structural clauses).

R22a  prefixes and shape: every hasher feeds the byte 01 followed by the atom bytes, or the byte 02 followed by
      two 32-byte hashes, and nothing else (direct Sha256::update sequences and blob-list helpers; Python's
      tree_hash.py likewise).
R22b  child order: wherever a pair hash is formed, the first hash argument is the LEFT child's hash:
      allocator walkers that push left then right process right first (so the first value popped is left's);
      stream decoders process left first (so the second value popped is left's); cache/triple based hashers
      name the children directly.
R22c  shortcut tables: the precomputed-hash table is indexed only by the VALUE of an inline small integer
      (never by a byte of a heap atom), and it is correct row by row (shared with C05/R05d).
R22d  stream hashing reads the atom body AFTER its length prefix has been consumed.
"""
import ast
import hashlib
import re
from lib import mir
from lib.mir import strip, show, walk
from rules.c07 import is_test_fn

DIRECT = {"treehash::tree_hash_atom": 1, "serde::tools::hash_atom": 1, "treehash::tree_hash_pair": 2, "serde::tools::hash_pair": 2}
BLOBLIST = ("serde::bytes32::hash_blobs", "serde::de_tree::sha_blobs")


def first_byte_of(e):
    """value of a constant one-byte blob expression (&[1] / b"\\x01" / [1, b]) -> (first byte, n elements) or None"""
    for x in walk(e):
        if x[0] == "bytes" and len(x[1]) >= 2:
            return int(x[1][:2], 16), len(x[1]) // 2
        if x[0] == "agg" and x[1] == "array" and x[2]:
            v = mir.const_eval(x[2][0])
            if v is not None:
                return v, len(x[2])
    return None


def ordered_calls(f, pred):
    cs = [(b, t) for b, t in f.calls() if pred(t)]
    # order by dominance (straight-line code) then block number
    cs.sort(key=lambda x: (len(f.dominators(x[0])), x[0]))
    return cs


def run(ctx):
    ck = ctx.check
    cr = ctx.crate("default")
    ck.rule("R22a", "hashers feed 01||atom or 02||left||right and nothing else")
    ck.rule("R22b", "the first hash argument of every pair hash is the left child's hash")
    ck.rule("R22c", "the precomputed-hash table is indexed only by the value of an inline small integer and is correct row by row")
    ck.rule("R22d", "the stream hasher slices the atom body after consuming its length prefix")
    ck.assume("SHA-256 itself (chia_sha2) is trusted; `intern` delegates to the object cache")

    # ---------------------------------------------------------------- R22a direct hashers
    for p, prefix in DIRECT.items():
        f = cr.fn(p)
        ck.analysed(f)
        ups = ordered_calls(f, lambda t: (t.get("callee") or "").endswith("Sha256::update"))
        args = [f.expr_op(t["args"][1], deep=False) for _, t in ups]
        fb = first_byte_of(args[0]) if args else None
        want_n = 2 if prefix == 1 else 3
        names = [show(a) for a in args[1:]]
        ok = fb == (prefix, 1) and len(args) == want_n and all(strip(a)[0] in ("var", "named", "ref", "deref") for a in args[1:])
        if prefix == 2 and ok:
            ok = names == [f.local_name(1) and ("&" + f.local_name(1)) or names[0], names[1]] or (f.local_name(1) in names[0] and f.local_name(2) in names[1])
        ck.ob("R22a", p, ok, f"feeds the byte {prefix:02x} then " + ("the atom bytes" if prefix == 1 else "the first parameter then the second parameter"),
              site=f.where(0), detail={"updates": [show(a)[:60] for a in args]})
    # blob-list hashers
    n_bl = 0
    for callee in BLOBLIST:
        g = cr.fn(callee)
        ck.analysed(g)
        # the helper hashes the blobs in order, nothing else
        ups = [t for _, t in g.calls() if (t.get("callee") or "").endswith("Sha256::update")]
        ck.ob("R22a", callee, len(ups) == 1 and g.in_loop([b for b, t in g.calls() if t is ups[0]][0]),
              "hashes the given blobs in order and nothing else", site=g.where(0))
        for f, b in cr.callers_of(callee):
            if is_test_fn(f):
                continue
            n_bl += 1
            ck.analysed(f)
            t = f.term(b)
            e = f.expr_op(t["args"][0])
            arr = None
            for x in walk(e):
                if x[0] == "agg" and x[1] == "array":
                    arr = x
                    break
            okc = False
            det = show(e)[:200]
            if arr is not None:
                fb = first_byte_of(arr[2][0])
                if fb and fb[0] == 1 and (len(arr[2]) == 2 and fb[1] == 1 or len(arr[2]) == 1 and fb[1] == 2):
                    okc = True  # [01, atom]  or the one-blob form [[01, b]]
                elif fb and fb[0] == 2 and fb[1] == 1 and len(arr[2]) == 3:
                    okc = True
            ck.ob("R22a", f"{f.path}|{callee.split('::')[-1]}", okc, "blob list is [01, atom bytes] or [02, left hash, right hash]", site=f.where(b), detail=det)
    ck.floor("blob-list hash call sites", n_bl, 4)
    sk = cr.fn("serde::de_tree::skip_or_sha_bytes")
    ck.analysed(sk)
    ups = [f_ for f_ in [sk.expr_op(t["args"][1], deep=False) for _, t in sk.calls() if (t.get("callee") or "").endswith("Sha256::update")]]
    ck.ob("R22a", sk.path, len(ups) == 1 and first_byte_of(ups[0]) == (1, 1) and len(sk.calls_to("serde::utils::copy_exactly")) == 1,
          "streams 01 then exactly the atom body into the hasher", site=sk.where(0))
    # Python
    src = ctx.read("wheel/python/clvm_rs/tree_hash.py")
    tree = ast.parse(src)
    pyconst = {}
    hasher_args = None
    for n in tree.body:
        if isinstance(n, ast.Assign) and len(n.targets) == 1 and isinstance(n.targets[0], ast.Name) and isinstance(n.value, ast.Call):
            c = n.value
            if isinstance(c.func, ast.Attribute) and c.func.attr == "fromhex" and c.args and isinstance(c.args[0], ast.Constant):
                pyconst[n.targets[0].id] = bytes.fromhex(c.args[0].value)
            elif isinstance(c.func, ast.Name) and c.func.id == "Treehasher":
                hasher_args = [pyconst.get(a.id) if isinstance(a, ast.Name) else None for a in c.args]
    upd = {}
    for n in ast.walk(tree):
        if isinstance(n, ast.FunctionDef) and n.name in ("shatree_atom", "shatree_pair"):
            upd[n.name] = [ast.unparse(c.args[0]) for c in ast.walk(n) if isinstance(c, ast.Call) and isinstance(c.func, ast.Attribute)
                           and c.func.attr == "update"]
    okpy = hasher_args == [b"\x01", b"\x02"] and upd.get("shatree_atom") == ["self.atom_prefix", "atom"] and \
        upd.get("shatree_pair") == ["self.pair_prefix", "left_hash", "right_hash"]
    ck.ob("R22a", "wheel/python/clvm_rs/tree_hash.py", okpy,
          "the Python hasher is built with prefixes (01, 02) and feeds prefix||atom and prefix||left||right",
          detail={"Treehasher args": [a.hex() if a else None for a in (hasher_args or [])], "updates": upd})
    ck.analysed("py:wheel/python/clvm_rs/tree_hash.py")

    # ---------------------------------------------------------------- R22b
    # Everything below is decided from WHICH pop feeds WHICH argument and WHICH field of the pair is pushed first - never
    # from what a local is called (lib.bounds.arg_pop_sites, lib.mir.vec_pushes).
    from lib.bounds import arg_pop_sites
    # (1) allocator walker: tree_hash_costed
    th = cr.fn("treehash::tree_hash_costed")
    ck.analysed(th)
    pushes = mir.vec_pushes(th, "TreeOp")
    sexp_order = [v for b, v in sorted(pushes, key=lambda x: (len(th.dominators(x[0])), x[0])) if v in ("SExp(child0)", "SExp(child1)")]
    pair = th.calls_to("treehash::tree_hash_pair")
    ok = sexp_order == ["SExp(child0)", "SExp(child1)"] and len(pair) == 1
    det = {"child pushes": sexp_order}
    if ok:
        s0, s1 = arg_pop_sites(th, cr, pair[0][0])[:2]
        det.update({"arg0 pop block": s0, "arg1 pop block": s1})
        # left pushed first => right processed first => left's hash is on top => arg0 comes from the FIRST pop
        ok = s0 is not None and s1 is not None and s0 != s1 and th.dominates(s0, s1)
    ck.ob("R22b", th.path, ok, "children pushed left then right (right is hashed first), so the first hash popped is the left child's and is passed first",
          site=th.where(pair[0][0]) if pair else th.where(0), detail=det)
    # (2) stream decoder: tree_hash_from_stream
    ts = cr.fn("serde::tools::tree_hash_from_stream")
    ck.analysed(ts)
    hp = ts.calls_to("serde::tools::hash_pair")
    ok = len(hp) == 1
    det = {}
    if ok:
        s0, s1 = arg_pop_sites(ts, cr, hp[0][0])[:2]
        det = {"arg0 pop block": s0, "arg1 pop block": s1}
        # the stream yields left first => left's hash is deeper => arg0 comes from the SECOND pop
        ok = s0 is not None and s1 is not None and s0 != s1 and ts.dominates(s1, s0)
    ck.ob("R22b", ts.path, ok, "a stream yields the left child first, so the second hash popped is the left child's and is passed first",
          site=ts.where(hp[0][0]) if hp else ts.where(0), detail=det)
    # (3) read-cache: the stack's top is the right child
    pc = cr.fn("serde::read_cache_lookup::ReadCacheLookup::pop2_and_cons")
    ck.analysed(pc)
    hb = pc.calls_to("serde::bytes32::hash_blobs")
    ok = len(hb) == 1
    det = {}
    if ok:
        els = arg_pop_sites(pc, cr, hb[0][0])[0]
        arr = [x for x in walk(pc.expr_op(hb[0][1]["args"][0])) if x[0] == "agg" and x[1] == "array"]
        first = show(arr[0][2][0]) if arr and arr[0][2] else ""
        det = {"blob pop blocks": els, "prefix": first}
        # 02 || (second pop) || (first pop): the first pop is the right child
        ok = isinstance(els, list) and len(els) == 3 and els[0] is None and els[1] is not None and els[2] is not None and els[1] != els[2] \
            and pc.dominates(els[2], els[1]) and "b'02'" in first
    ck.ob("R22b", pc.path, ok, "the stack's top is the right child: right is popped first, and the pair hash is 02||left||right", site=pc.where(0), detail=det)
    # (4) object cache: 02 || cached hash of child 0 || cached hash of child 1.  Two idioms: the right lookup mapped through a closure
    # that captured the left hash, or two `?` on the lookups followed by the hash in the function itself.
    oc = cr.fn("serde::object_cache::treehash")
    occ = cr.fns.get("serde::object_cache::treehash::{closure#0}")
    ck.analysed(oc)
    gets = ordered_calls(oc, lambda t: (t.get("callee") or "").endswith("get_from_cache"))
    args = [re.sub(r"^.* as Pair\)\.([01])$", r"child\1", show(oc.expr_op(t["args"][1]))) for _, t in gets]
    if occ is not None:
        ck.analysed(occ)
        maps = [t for _, t in oc.calls() if (t.get("callee") or "").endswith("Option::<T>::map")]
        form_ok = len(maps) == 1 and "as Pair).1)" in show(oc.expr_op(maps[0]["args"][0])) and "as Pair).0)" in show(oc.expr_op(maps[0]["args"][1])) \
            and "as Pair).1)" not in show(oc.expr_op(maps[0]["args"][1]))
        arr = [x for b, t in occ.calls_to("serde::bytes32::hash_blobs") for x in walk(occ.expr_op(t["args"][0], deep=False)) if x[0] == "agg" and x[1] == "array"]
        els = [occ.unparam(show(x)) for x in arr[0][2]] if arr else []
        form_ok = form_ok and len(els) == 3 and "$2" in els[2] and "arg1.0" in els[1] and "b'02'" in els[0]
    else:
        arr = [x for b, t in oc.calls_to("serde::bytes32::hash_blobs") for x in walk(oc.expr_op(t["args"][0])) if x[0] == "agg" and x[1] == "array" and len(x[2]) == 3]
        els = [show(x) for x in arr[0][2]] if len(arr) == 1 else []
        form_ok = len(els) == 3 and "b'02'" in els[0] and "get_from_cache(" in els[1] and "as Pair).0)" in els[1] and "as Pair).1)" not in els[1] \
            and "get_from_cache(" in els[2] and "as Pair).1)" in els[2] and "as Pair).0)" not in els[2]
    ck.ob("R22b", oc.path, args == ["child0", "child1"] and form_ok,
          "the pair hash is 02 || cached hash of the left child || cached hash of the right child (left looked up first)",
          site=oc.where(0), detail={"lookups": args, "blobs": [e_[:160] for e_ in els], "form": "closure" if occ is not None else "inline"})

    # ---------------------------------------------------------------- R22c
    tbl = cr.const("more_ops::PRECOMPUTED_HASHES")
    raw = bytes.fromhex(tbl.get("bytes", ""))
    rows = [raw[i:i + 32] for i in range(0, len(raw), 32)]
    bad = [n for n, row in enumerate(rows) if hashlib.sha256(b"\x01" + ((b"" if n == 0 else bytes([n])) if n < 0x80 else b"\x00" + bytes([n]))).digest() != row]
    ck.ob("R22c", "more_ops::PRECOMPUTED_HASHES", len(rows) > 1 and not bad, "every row is sha256(01 || minimal encoding of the row index)", detail={"rows": len(rows), "bad": bad})
    n_ix = 0
    for f in sorted(cr.fns.values(), key=lambda x: x.path):
        if is_test_fn(f):
            continue
        for b in sorted(f.reachable_blocks()):
            uses = False
            for st in f.stmts(b):
                ops = mir.rvalue_operands(st["rv"]) if "rv" in st else []
                if any(isinstance(o, dict) and "c" in o and o["c"].get("bytes") == tbl.get("bytes") for o in ops):
                    uses = True
            if not uses:
                continue
            # index projections on the table in this block / its successors
            for bb in [b] + f.succ_blocks(b) + [s2 for s in f.succ_blocks(b) for s2 in f.succ_blocks(s)]:
                for st in f.stmts(bb):
                    for pl in ([st["d"]] if st.get("d") else []) + (mir.rvalue_places(st["rv"]) if "rv" in st else []) + \
                            [mir.op_place(o) for o in (mir.rvalue_operands(st["rv"]) if "rv" in st else []) if mir.op_place(o)]:
                        for pr in pl["p"]:
                            if isinstance(pr, dict) and "ix" in pr:
                                ix = f.expr_local(pr["ix"])
                                n_ix += 1
                                from_small = any((x[0] == "downcast" and x[2] == "U32") or (x[0] == "call" and x[1].endswith("::small_number")) for x in walk(ix))
                                ck.ob("R22c", f"{f.path}|table index", from_small,
                                      "the table is indexed by the value of an inline small integer (NodeVisitor::U32 payload / small_number())",
                                      site=f.where(bb, st["ln"]), detail=show(ix)[:160])
    # every function that mentions the table at all must be one whose accesses were recognised above, and any access through
    # a method (`.get(i)`, iterators, ...) instead of plain indexing needs the same provenance
    users = {}
    for f in sorted(cr.fns.values(), key=lambda x: x.path):
        if is_test_fn(f):
            continue
        for b in sorted(f.reachable_blocks()):
            mention = False
            for st in f.stmts(b):
                ops = mir.rvalue_operands(st["rv"]) if "rv" in st else []
                if any(isinstance(o, dict) and "c" in o and o["c"].get("bytes") == tbl.get("bytes") for o in ops):
                    mention = True
            t = f.term(b)
            if t["k"] == "call" and any(isinstance(o, dict) and "c" in o and o["c"].get("bytes") == tbl.get("bytes") for o in t["args"]):
                mention = True
            if mention:
                users.setdefault(f.path, []).append(b)
        for b, t in f.calls():
            c = t.get("callee") or ""
            if not t["args"]:
                continue
            a0 = show(f.expr_op(t["args"][0]))
            if tbl.get("bytes") and ("b'" + tbl["bytes"][:16]) in a0 and not c.endswith(("::len", "::as_slice")) and "Index" not in c:
                ix = f.expr_op(t["args"][1]) if len(t["args"]) > 1 else None
                from_small = ix is not None and any((x[0] == "downcast" and x[2] == "U32") or (x[0] == "call" and x[1].endswith("::small_number")) for x in walk(ix))
                n_ix += 1
                ck.ob("R22c", f"{f.path}|table access via {c.split('::')[-1]}", from_small,
                      "the table is accessed with the value of an inline small integer (NodeVisitor::U32 payload / small_number())",
                      site=f.where(b), detail=show(ix)[:160] if ix is not None else c)
    want_users = {"treehash::tree_hash_costed", "more_ops::op_sha256"}
    ck.ob("R22c", "more_ops::PRECOMPUTED_HASHES|users", set(users) <= want_users,
          "only the two audited functions use the precomputed table (it maps integer VALUES to hashes, not bytes)",
          detail=sorted(users))
    ck.floor("precomputed-table index sites", n_ix, 2)

    # ---------------------------------------------------------------- R22d
    ds = ts.calls_to("serde::parse_atom::decode_size")
    pos = [b for b, t in ts.calls() if (t.get("callee") or "").endswith("Cursor::<T>::position")]
    ok = len(ds) == 1 and ts.question_mark(ds[0][0]) is not None
    if ok:
        cont = ts.question_mark(ds[0][0])[0]
        # every position() read that feeds the body slice happens after the prefix was decoded
        body_pos = [p for p in pos if ts.dominates(ds[0][0], p) or ts.dominates(cont, p)]
        early = [p for p in pos if p not in body_pos and ts.dominates(p, ds[0][0]) and not ts.dominates(ds[0][0], p)]
        # positions read before decode_size inside the same arm
        arm_early = [p for p in early if ts.in_loop(p) and len(ts.dominators(p)) > len(ts.dominators(ds[0][0])) - 6 and
                     any(ts.term(x)["k"] == "switch" for x in [p])]
        ok = bool(body_pos) and not [p for p in pos if ts.dominates(p, ds[0][0]) and p != ds[0][0] and ts.in_loop(p) and
                                     any(d == p for d in ts.dominators(ds[0][0])) and _same_arm(ts, p, ds[0][0])]
    ck.ob("R22d", ts.path + "|body after prefix", ok, "the cursor position used to slice the atom body is read after decode_size consumed the prefix",
          site=ts.where(ds[0][0]) if ds else ts.where(0))


def _same_arm(f, p, d):
    """p precedes d with no switch between them (same straight-line arm)"""
    chain = f.dominators(d)
    i = chain.index(p) if p in chain else -1
    if i < 0:
        return False
    between = chain[:i]
    return not any(f.term(x)["k"] == "switch" for x in between if x != d)
