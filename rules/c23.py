"""C23 — native sha256tree never costs more than its ChiaLisp equivalent.

R23 (T9, static cost arithmetic)  A small abstract interpreter of CLVM's COST RULES (not of clvm_rs: which
constant is charged for quote, apply, an operator call, a path lookup, cons, listp, if, sha256) is run on
the fixed ChiaLisp program embedded in tools/src/bin/sha256tree-benching.rs, over an abstract argument
("atom of length l" | "pair of two sub-trees"), with EVERY constant read from the current source. It yields
        lisp(tree)   = S  + sum_atoms (A  + B  * l) + sum_pairs P
        native(tree) = S' + sum_atoms (A' + B' * l) + sum_pairs P'
and the obligations  B' <= B,  A' <= A,  P' < P,  S' + A' < S + A  (every tree has #atoms = #pairs + 1 >= 1)
are discharged per cost model. As a cross-check the derived formula must reproduce the "CLVM" figures
printed in docs/sha256tree.md.
"""
import re
from lib import mir
from lib.mir import strip, show
from lib.flagregion import flag_tests
from rules.c07 import forward_reach

PROGRAM_FILE = "tools/src/bin/sha256tree-benching.rs"


# ------------------------------------------------------------------ tiny CLVM reader
def parse(b, i=0):
    c = b[i]
    if c == 0xFF:
        l, i = parse(b, i + 1)
        r, i = parse(b, i)
        return ("pair", l, r), i
    if c == 0x80:
        return ("atom", b""), i + 1
    if c < 0x80:
        return ("atom", bytes([c])), i + 1
    n = c & 0x3F
    assert c & 0xC0 == 0x80, "long atoms are not expected in the benchmark program"
    return ("atom", b[i + 1:i + 1 + n]), i + 1 + n


def as_int(a):
    return int.from_bytes(a[1], "big") if a[1] else 0


# ------------------------------------------------------------------ symbolic costs: {term: coeff}
def cadd(*cs):
    out = {}
    for c in cs:
        for k, v in c.items():
            out[k] = out.get(k, 0) + v
    return {k: v for k, v in out.items() if v}


def const(n):
    return {"1": n}


class Interp:
    """abstract interpreter of the cost rules. Values: ('atom', bytes) | ('pair', l, r) | ('absatom',) an atom of
    symbolic length `len` | ('hash',) a 32-byte atom | ('sub', name) an abstract sub-tree that is only ever passed
    to the recursive call."""

    def __init__(self, K, self_fn=None):
        self.K = K
        self.self_fn = self_fn

    def alen(self, v):
        if v[0] == "atom":
            return const(len(v[1]))
        if v[0] == "hash":
            return const(32)
        if v[0] == "absatom":
            return {"len": 1}
        raise ValueError("length of non-atom")

    def path(self, p, env):
        """environment lookup: cost = base + per-bit + steps * per-bit + zero-byte surcharge (traverse_path rule)"""
        K = self.K
        cost = K["TRAVERSE_BASE_COST"] + K["TRAVERSE_COST_PER_BIT"]
        if p == 0:
            return const(cost), ("atom", b"")
        steps = p.bit_length() - 1
        cost += steps * K["TRAVERSE_COST_PER_BIT"]
        if p.bit_length() % 8 == 0:
            cost += K["TRAVERSE_COST_PER_ZERO_BYTE"]
        node = env
        while p > 1:
            if node[0] != "pair":
                raise ValueError("path into atom")
            node = node[2] if p & 1 else node[1]
            p >>= 1
        return const(cost), node

    def eval(self, prog, env):
        K = self.K
        if prog[0] != "pair":
            return self.path(as_int(prog), env)
        op, args = prog[1], prog[2]
        if op[0] != "atom":
            raise ValueError("operator is not an atom")
        o = as_int(op)
        if o == 1:  # quote
            return const(K["QUOTE_COST"]), args
        cost = const(K["OP_COST"])
        vals = []
        while args[0] == "pair":
            c, v = self.eval(args[1], env)
            cost = cadd(cost, c)
            vals.append(v)
            args = args[2]
        c, v = self.apply(o, vals)
        return cadd(cost, c), v

    def apply(self, o, vals):
        K = self.K
        if o == 2:  # apply
            prog, env = vals
            if self.self_fn is not None and prog == self.self_fn and env[0] == "pair" and env[2][0] == "pair" and env[2][1][0] == "sub":
                # the recursive call on an abstract sub-tree: its cost is F(sub), its value a 32-byte hash
                return cadd(const(K["APPLY_COST"]), {"F(" + env[2][1][1] + ")": 1}), ("hash",)
            c, v = self.eval(prog, env)
            return cadd(const(K["APPLY_COST"]), c), v
        if o == 3:  # if
            cond, a, b = vals
            truthy = not (cond[0] == "atom" and cond[1] == b"")
            return const(K["IF_COST"]), (a if truthy else b)
        if o == 4:  # cons
            return const(K["CONS_COST"]), ("pair", vals[0], vals[1])
        if o == 7:  # listp
            (x,) = vals
            return const(K["LISTP_COST"]), (("atom", b"\x01") if x[0] == "pair" else ("atom", b""))
        if o == 11:  # sha256
            cost = const(K["SHA256_BASE_COST"])
            for v in vals:
                cost = cadd(cost, const(K["SHA256_COST_PER_ARG"]))
                ln = self.alen(v)
                cost = cadd(cost, {k: c * K["SHA256_COST_PER_BYTE"] for k, c in ln.items()})
            cost = cadd(cost, const(32 * K["MALLOC_COST_PER_BYTE"]))
            return cost, ("hash",)
        raise ValueError(f"operator {o} is not part of the benchmark program's cost rules")


def retype(f, e, special):
    """replace local names by roles: the cost accumulator, the per-byte rate, the visited node; other locals by their type"""
    if not isinstance(e, tuple):
        return e
    if e and e[0] == "named":
        return retype(f, e[3], special)
    if e and e[0] == "var":
        l = e[2]
        if l in special:
            return ("var", special[l], l)
        return ("var", "<" + f.local_ty(l) + ">", l)
    # the node being visited: the SExp payload of the item popped from the work list
    if e and e[0] == "field" and show(e).endswith(" as SExp).0") and "::pop(" in show(e):
        return ("var", "NODE", -1)
    return tuple(retype(f, x, special) if isinstance(x, tuple) else x for x in e)


def run(ctx):
    ck = ctx.check
    ck.level = "proof"
    cr = ctx.crate("default")
    ck.rule("R23", "coefficient-wise inequality between the native sha256tree cost formula and a static cost analysis of the ChiaLisp sha256tree program, constants read from source")
    src = ctx.read(PROGRAM_FILE)
    m = re.search(r'hex::decode\(\s*"([0-9a-f]+)"', src)
    if not m:
        raise mir.AnchorMissing("ChiaLisp sha256tree program not found in " + PROGRAM_FILE)
    prog, _ = parse(bytes.fromhex(m.group(1)))

    def cv(name):
        found = [c for p, cl in cr.consts.items() for c in cl if p.split("::")[-1] == name and "val" in c]
        if not found:
            raise mir.AnchorMissing(f"constant {name} not found")
        return found[0]["val"]

    common = {n: cv(n) for n in ("QUOTE_COST", "APPLY_COST", "OP_COST", "TRAVERSE_BASE_COST", "TRAVERSE_COST_PER_BIT", "TRAVERSE_COST_PER_ZERO_BYTE",
                                 "CONS_COST", "MALLOC_COST_PER_BYTE", "SHA256TREE_BASE_COST", "SHA256TREE_PAIR_COST")}
    models = {
        "classic": dict(common, IF_COST=cv("IF_COST"), LISTP_COST=cv("LISTP_COST"), SHA256_BASE_COST=cv("SHA256_BASE_COST"),
                        SHA256_COST_PER_ARG=cv("SHA256_COST_PER_ARG"), SHA256_COST_PER_BYTE=cv("SHA256_COST_PER_BYTE"),
                        TREE_PER_BYTE=cv("SHA256TREE_COST_PER_BYTE")),
        "new": dict(common, IF_COST=cv("NEW_IF_COST"), LISTP_COST=cv("NEW_LISTP_COST"), SHA256_BASE_COST=cv("NEW_SHA256_BASE_COST"),
                    SHA256_COST_PER_ARG=cv("NEW_SHA256_COST_PER_ARG"), SHA256_COST_PER_BYTE=cv("NEW_SHA256_COST_PER_BYTE"),
                    TREE_PER_BYTE=cv("NEW_SHA256TREE_COST_PER_BYTE")),
    }
    # ---- native formula, derived from the MIR of tree_hash_costed (not assumed)
    ck.rule("R23n", "the native cost is BASE + sum_atoms (len+1)*PER_BYTE + sum_pairs PAIR + 32*MALLOC: one cost update per node kind, in the work loop only")
    th = cr.fn("treehash::tree_hash_costed")
    ck.analysed(th)
    from rules.c02 import cost_accumulator
    cost_l = [cost_accumulator(th)]
    loops = th.loops()
    cpb = []
    special = {cost_l[0]: "COST"}
    # the per-byte rate: the only u64 local assigned from the two SHA256TREE per-byte constants
    for l in range(1, len(th.locals)):
        vs = sorted(show(th.expr_rvalue(th.def_rvalue(d_), deep=False)) for d_ in th.defs(l) if d_[1] != "T")
        if vs == ["NEW_SHA256TREE_COST_PER_BYTE", "SHA256TREE_COST_PER_BYTE"]:
            special[l] = "RATE"
            cpb = [l]
    ups = {"init": [], "Buffer": [], "U32": [], "Pair": [], "after": [], "other": []}
    for (b, i) in th.defs(cost_l[0]):
        if i == "T":
            ups["other"].append(("call result", th.where(b)))
            continue
        e = retype(th, strip(mir.inline_pure(cr, th.expr_rvalue(th.def_rvalue((b, i)), deep=True))), special)
        nest = [h for h, blks in loops.items() if b in blks]
        arm = None
        for x in th.dominators(b):
            dv = th.discr_variants(x)
            if dv and th.discr_enum(x) and th.discr_enum(x).endswith("NodeVisitor"):
                for tgt, v in th.succ(x):
                    if v in dv and (tgt == b or th.dominates(tgt, b)) and len(th.pred(tgt)) == 1:
                        arm = dv[v]
        txt = show(e)
        if not nest:
            before = any(th.dominates(b, h) for h in loops)
            ups["init" if before else "after"].append((txt, th.where(b)))
        elif len(nest) > 1 or arm is None:
            ups["other"].append((txt + f" (loop nesting {len(nest)}, arm {arm})", th.where(b)))
        else:
            ups[arm].append((txt, th.where(b)))
    # the accumulator may also be changed through a mutable borrow (`cost += &x` is a call of AddAssign::add_assign)
    for b in th.reachable_blocks():
        for st in th.stmts(b):
            rv = st.get("rv", {})
            for k in ("ref", "rawptr"):
                if k in rv and rv[k][0] not in ("shr", "const", "fake") and rv[k][1]["l"] == cost_l[0]:
                    ups["other"].append(("&mut borrow of the cost accumulator", th.where(b)))
    want = {"init": ["SHA256TREE_BASE_COST"],
            "Buffer": ["(COST Add (((::len(&*(Allocator::node(&<&mut allocator::Allocator>, NODE) as Buffer).0) Add 1) as u64) Mul RATE))"],
            "U32": ["(COST Add (((Allocator::atom_len(&<&mut allocator::Allocator>, NODE) Add 1) as u64) Mul RATE))"],
            "Pair": ["(COST Add SHA256TREE_PAIR_COST)"],
            "after": ["(COST Add (MALLOC_COST_PER_BYTE Mul 32))"], "other": []}
    for k in want:
        ck.ob("R23n", f"treehash::tree_hash_costed|cost updates: {k}", [t for t, _ in ups[k]] == want[k],
              {"init": "the cost starts at SHA256TREE_BASE_COST", "Buffer": "a heap atom is charged (len+1)*cost_per_byte, once",
               "U32": "an inline atom is charged (atom_len+1)*cost_per_byte, once", "Pair": "a pair is charged SHA256TREE_PAIR_COST, once",
               "after": "the 32-byte result is charged 32*MALLOC_COST_PER_BYTE", "other": "no other cost update exists (none in a nested loop, none outside a node arm)"}[k],
              site=ups[k][0][1] if ups[k] else th.where(0), detail=[t for t, _ in ups[k]])
    ck.ob("R23n", "treehash::tree_hash_costed|one work loop", len(loops) == 1, "tree_hash_costed has exactly one loop (the work list)", site=th.where(0), detail=len(loops))
    vals = sorted(show(th.expr_rvalue(th.def_rvalue(d_), deep=False)) for l in cpb for d_ in th.defs(l) if d_[1] != "T")
    tests = [t for t in flag_tests(th)]
    okc = vals == ["NEW_SHA256TREE_COST_PER_BYTE", "SHA256TREE_COST_PER_BYTE"] and len(tests) == 1 and tests[0]["flag"] == "NEW_COST_MODEL"
    if okc:
        t = tests[0]
        setr = forward_reach(th, t["set_edge"]) - forward_reach(th, t["clear_edge"])
        for l in cpb:
            for d_ in th.defs(l):
                if d_[1] != "T":
                    v = show(th.expr_rvalue(th.def_rvalue(d_), deep=False))
                    okc = okc and ((d_[0] in setr) == v.startswith("NEW_"))
    ck.ob("R23n", "treehash::tree_hash_costed|cost_per_byte", okc,
          "cost_per_byte is NEW_SHA256TREE_COST_PER_BYTE under NEW_COST_MODEL and SHA256TREE_COST_PER_BYTE otherwise", site=th.where(0), detail=vals)

    ck.extra["trusted_base"] = ["the CLVM cost-rule interpreter in rules/c23.py (which constant is charged where; pinned by C02/C10)",
                                "constant extraction by the mirfacts driver", "the program bytes embedded in " + PROGRAM_FILE]
    doc = ctx.read("docs/sha256tree.md")
    for model, K in models.items():
        # 1. discover the recursive function body: top level is (a (q . WRAP) (c (q . F) 1)) ; run it on a concrete tiny tree first
        it = Interp(K)
        # the program run with env = tree: evaluate symbolically on an abstract ATOM to obtain S + A + B*len
        try:
            # find F: value of the quoted second element; we obtain it by evaluating the env-building expression
            top_args = prog[2]
            wrap_q = top_args[1]            # (q . WRAP)
            envexpr = top_args[2][1]        # (c (q . F) 1)
            _, wrap = it.eval(wrap_q, ("atom", b""))
            _, env0 = it.eval(envexpr, ("absatom",))
            F = env0[1]
        except Exception as e:  # noqa: BLE001
            raise mir.AnchorMissing(f"benchmark program has an unexpected shape: {e}")
        it = Interp(K, self_fn=F)
        total_atom, v1 = it.eval(prog, ("absatom",))
        # F on an abstract atom and on an abstract pair (children abstract sub-trees)
        f_atom, _ = Interp(K, self_fn=F).eval(F, ("pair", F, ("pair", ("absatom",), ("atom", b""))))
        f_pair, _ = Interp(K, self_fn=F).eval(F, ("pair", F, ("pair", ("pair", ("sub", "L"), ("sub", "R")), ("atom", b""))))
        A, B = f_atom.get("1", 0), f_atom.get("len", 0)
        P = f_pair.get("1", 0)
        S = total_atom.get("1", 0) - A
        shape_ok = set(f_atom) <= {"1", "len"} and set(f_pair) == {"1", "F(L)", "F(R)"} and f_pair["F(L)"] == 1 and f_pair["F(R)"] == 1 \
            and total_atom.get("len", 0) == B
        ck.ob("R23", f"{model}|formula shape", shape_ok,
              "lisp(tree) = S + sum_atoms(A + B*len) + sum_pairs P  (one recursive call per child, cost linear in the atom length)",
              detail={"S": S, "A": A, "B": B, "P": P, "F(atom)": f_atom, "F(pair)": f_pair})
        # native
        S2 = K["OP_COST"] + K["QUOTE_COST"] + K["SHA256TREE_BASE_COST"] + 32 * K["MALLOC_COST_PER_BYTE"]
        A2 = K["TREE_PER_BYTE"]
        B2 = K["TREE_PER_BYTE"]
        P2 = K["SHA256TREE_PAIR_COST"]
        vals = {"lisp": {"S": S, "A": A, "B": B, "P": P}, "native": {"S": S2, "A": A2, "B": B2, "P": P2}}
        ck.ob("R23", f"{model}|per byte", B2 <= B, "native per-byte coefficient <= ChiaLisp per-byte coefficient (B' <= B)", detail=vals)
        ck.ob("R23", f"{model}|per atom", A2 <= A, "native per-atom constant <= ChiaLisp per-atom constant (A' <= A)", detail=vals)
        ck.ob("R23", f"{model}|per pair", P2 < P, "native per-pair cost < ChiaLisp per-pair cost (P' < P)", detail=vals)
        ck.ob("R23", f"{model}|fixed", S2 + A2 < S + A, "native fixed cost + one atom < ChiaLisp fixed cost + one atom (S' + A' < S + A), so native < lisp for every tree",
              detail=vals)
        if model == "classic":
            # cross-check the interpreter against the figures printed in the documentation (512 leaves, 511 pairs)
            for leaf, want in (("0", 1560188), ("2", 1562236), ("1000", 2584188), ("100000", 103960188)):
                got = S + 512 * (A + B * int(leaf)) + 511 * P
                in_doc = re.search(r"CLVM:\s+\d+\s+" + str(want) + r"\b", doc) is not None
                ck.ob("R23", f"classic|docs CLVM figure leaf={leaf}", got == want and in_doc,
                      f"the derived ChiaLisp formula reproduces the documented cost {want} of the 512-leaf tree with {leaf}-byte leaves",
                      detail={"formula": got, "printed in docs": in_doc})
    ck.assume("the interpreter charges costs as the cost rules say (quote, apply, operator call, path lookup, cons, listp, if, sha256): those rules are pinned by C02 and C10")
