"""C24 — interning preserves the tree and deduplicates maximally (structural clauses).

R24a  keys: the atom de-duplication map is keyed by atom CONTENT (key type Atom, whose Eq/Hash are by bytes,
      C03/R03b); the pair map is keyed by the INTERNED children (the values looked up in node_to_interned for
      `left` and `right`, in that order), never by source-side nodes.
R24b  creation only when new: new_atom + atoms.push happen only in the Vacant arm of the atom entry, new_pair +
      pairs.push only in the Vacant arm of the pair entry; the Occupied arms return the stored node; every
      created node is recorded in its table exactly once.
R24c  preservation: the created atom has the bytes of the source atom; the created pair is (interned left .
      interned right) — the same two values that form the key; every processed source node is mapped
      exactly once; the root is the mapping of the requested node.
"""
from lib import mir
from lib.mir import strip, show, walk
from rules.c07 import forward_reach

F = "serde::intern::intern_tree_limited"


def run(ctx):
    ck = ctx.check
    cr = ctx.crate("default")
    ck.rule("R24a", "atom map keyed by content, pair map keyed by interned children (left, right)")
    ck.rule("R24b", "nodes are created and recorded only in the Vacant arm of their de-duplication entry")
    ck.rule("R24c", "created nodes have the source's bytes / the interned children; every node is mapped once; the root is the mapping of the request")
    ck.assume("identical serialization of the interned tree is a value property; decided are the keys, the creation discipline and the child order")
    f = cr.fn(F)
    ck.analysed(f)

    def named(n):
        ls = f.local_by_name(n)
        if not ls:
            raise mir.AnchorMissing(f"{F}: local `{n}` not found")
        return ls[0]

    def by_type(prefix, what):
        ls = [l for l in range(f.nargs + 1, len(f.locals)) if f.local_name(l) and f.local_ty(l).startswith("std::collections::HashMap<" + prefix)]
        if len(ls) != 1:
            raise mir.AnchorMissing(f"{F}: expected exactly one {what} (HashMap<{prefix}..>), found {len(ls)}")
        return ls[0]
    a_map = by_type("allocator::Atom<", "atom de-duplication map")
    p_map = by_type("(allocator::NodePtr, allocator::NodePtr)", "pair de-duplication map")
    n_map = by_type("allocator::NodePtr, allocator::NodePtr>", "source-node -> interned-node map")
    KEEP = {a_map: "ATOMS", p_map: "PAIRS", n_map: "DONE"}

    def dn(e):
        return show(f.denamed(e, KEEP))
    ck.ob("R24a", F + "|atom map type", "HashMap<allocator::Atom" in f.local_ty(a_map),
          "atom_to_interned is keyed by Atom (content equality and hash)", site=f.where(0), detail=f.local_ty(a_map))
    ck.ob("R24a", F + "|pair map type", "HashMap<(allocator::NodePtr, allocator::NodePtr)" in f.local_ty(p_map),
          "pair_to_interned is keyed by a pair of nodes", site=f.where(0), detail=f.local_ty(p_map))
    # the key type's Hash and Eq see the same thing - the bytes - whichever representation holds them (inline small atom
    # or heap slice); otherwise equal atoms miss each other in the map and are interned twice
    from rules import c14
    for h, method, ok, callees in c14.atom_content_impls(cr, (("std::hash::Hash", "hash"), ("std::cmp::PartialEq", "eq"))):
        ck.analysed(h)
        ck.ob("R24a", F + f"|atom key {method}", ok, f"the atom map's key type implements {method} on the atom's bytes only (as_ref + slice {method})",
              site=h.where(0), detail=callees)
    # entries
    entries = [(b, t) for b, t in f.calls() if (t.get("callee") or "").endswith("HashMap::<K, V, S, A>::entry")]
    a_entry = [(b, t) for b, t in entries if mir.op_place(t["args"][0]) is not None and any(x[0] in ("var", "named") and x[2] == a_map for x in walk(f.expr_op(t["args"][0], deep=False)))]
    p_entry = [(b, t) for b, t in entries if any(x[0] in ("var", "named") and x[2] == p_map for x in walk(f.expr_op(t["args"][0], deep=False)))]
    if len(a_entry) != 1 or len(p_entry) != 1:
        raise mir.AnchorMissing(f"{F}: expected one entry() call per de-duplication map")
    # pair key = (DONE[left], DONE[right]) where (left, right) are the children of the source pair being processed
    CUR_PAIR = "(Allocator::sexp(&$1, CUR) as Pair)"
    key = strip(f.expr_op(p_entry[0][1]["args"][1]))
    # the node being processed: the value popped from the work stack (any name)
    import re as _re

    def canon(t):
        """replace every `(Allocator::sexp(&$1, <node>) as Pair)` by SRCPAIR (balanced parentheses)"""
        head = "(Allocator::sexp(&$1, "
        out = ""
        i = 0
        while True:
            j = t.find(head, i)
            if j < 0:
                return out + t[i:]
            depth, k = 0, j
            while k < len(t):
                if t[k] == "(":
                    depth += 1
                elif t[k] == ")":
                    depth -= 1
                    if depth == 0:
                        break
                k += 1
            seg = t[j:k + 1]
            if seg.endswith(" as Pair)"):
                out += t[i:j] + "SRCPAIR"
            else:
                out += t[i:k + 1]
            i = k + 1
    def unopt(t):
        """`*opt_ref` and `opt.copied()` denote the same value"""
        t = t.replace("(::copied(::get(&DONE, &SRCPAIR.0)) as Some).0", "*(::get(&DONE, &SRCPAIR.0) as Some).0")
        t = t.replace("(::copied(::get(&DONE, &SRCPAIR.1)) as Some).0", "*(::get(&DONE, &SRCPAIR.1) as Some).0")
        t = t.replace("(::cloned(::get(&DONE, &SRCPAIR.0)) as Some).0", "*(::get(&DONE, &SRCPAIR.0) as Some).0")
        t = t.replace("(::cloned(::get(&DONE, &SRCPAIR.1)) as Some).0", "*(::get(&DONE, &SRCPAIR.1) as Some).0")
        return t
    ktxt = unopt(canon(dn(key)))
    want_key = "tuple(*(::get(&DONE, &SRCPAIR.0) as Some).0, *(::get(&DONE, &SRCPAIR.1) as Some).0)"
    ck.ob("R24a", F + "|pair key", ktxt == want_key,
          "the pair key is (interned(left), interned(right)): the entries of the done-map for the source pair's first and second child, in that order",
          site=f.where(p_entry[0][0]), detail=ktxt[:300])
    akey = canon(dn(f.expr_op(a_entry[0][1]["args"][1])))
    ck.ob("R24a", F + "|atom key", _re.fullmatch(r"Allocator::atom\(&\$1, .+\)", akey) is not None and "sexp" not in akey,
          "the atom key is source.atom(node being processed)", site=f.where(a_entry[0][0]), detail=akey[:200])

    # the two result tables = the locals stored in InternedTree.atoms / .pairs; CUR = the node being processed (argument of sexp)
    tree_fields = {}
    for b in f.reachable_blocks():
        for st in f.stmts(b):
            rv = st.get("rv", {})
            if "agg" in rv and isinstance(rv["agg"][0], dict) and rv["agg"][0].get("adt", "").endswith("InternedTree"):
                for fname, o in zip(rv["agg"][0]["fields"], rv["agg"][1]):
                    pl = mir.op_place(o)
                    tree_fields[fname] = (pl["l"] if pl and not pl["p"] else None, o)
    def origin(l_):
        seen_ = set()
        while l_ is not None and l_ not in seen_ and len(f.defs(l_)) == 1 and f.defs(l_)[0][1] != "T" and "use" in f.def_rvalue(f.defs(l_)[0]) \
                and mir.op_place(f.def_rvalue(f.defs(l_)[0])["use"]) and not mir.op_place(f.def_rvalue(f.defs(l_)[0])["use"])["p"]:
            seen_.add(l_)
            l_ = mir.op_place(f.def_rvalue(f.defs(l_)[0])["use"])["l"]
        return l_
    for fname, role in (("atoms", "ATOMS_VEC"), ("pairs", "PAIRS_VEC")):
        if tree_fields.get(fname, (None,))[0] is None:
            raise mir.AnchorMissing(f"{F}: InternedTree.{fname} is not built from a local")
        for l_ in {tree_fields[fname][0], origin(tree_fields[fname][0])}:
            KEEP[l_] = role
    cur_l = None
    for b, t in f.calls_to("allocator::Allocator::sexp"):
        e = strip(f.expr_op(t["args"][1], deep=False))
        if e[0] in ("var", "named"):
            cur_l = e[2]
    if cur_l is None:
        raise mir.AnchorMissing(f"{F}: the node being processed (argument of source.sexp()) is not a local")
    CURX = show(f.denamed(f.expr_local(cur_l), KEEP))     # what CUR is, spelled out (uses of it through temporaries show this)
    KEEP[cur_l] = "CUR"
    # arms
    for name, (eb, et), creator, table in (("atom", a_entry[0], "allocator::Allocator::new_atom", "ATOMS_VEC"),
                                           ("pair", p_entry[0], "allocator::Allocator::new_pair", "PAIRS_VEC")):
        sw = None
        for b in sorted(forward_reach(f, et["target"])):
            dv = f.discr_variants(b)
            if dv and set(dv.values()) == {"Occupied", "Vacant"}:
                sw = (b, dv)
                break
        if not sw:
            raise mir.AnchorMissing(f"{F}: match on the {name} entry not found")
        b, dv = sw
        edges = {dv[v]: tgt for tgt, v in f.succ(b) if v != "otherwise"}
        vac = forward_reach(f, edges["Vacant"]) - forward_reach(f, edges["Occupied"])
        occ = forward_reach(f, edges["Occupied"]) - forward_reach(f, edges["Vacant"])
        creates = [cb for cb, ct in f.calls_to(creator)]
        tpush = [cb for cb, ct in f.calls() if (ct.get("callee") or "").endswith("Vec::<T, A>::push")
                 and show(f.denamed(f.expr_op(ct["args"][0], deep=False), KEEP)).endswith(table)]
        vins = [cb for cb, ct in f.calls() if (ct.get("callee") or "").endswith("VacantEntry::<'a, K, V, A>::insert") or (ct.get("callee") or "").endswith("VacantEntry::<'a, K, V>::insert")]
        vins = [cb for cb in vins if cb in vac]
        ok = len(creates) == 1 and len(tpush) == 1 and creates[0] in vac and tpush[0] in vac and len(vins) == 1 \
            and f.dominates(creates[0], tpush[0]) and f.question_mark(creates[0]) is not None
        ck.ob("R24b", F + f"|{name} creation", ok,
              f"{creator.split('::')[-1]} and {table}.push occur exactly once, only when the entry is Vacant, and the new node is stored in the entry",
              site=f.where(creates[0]) if creates else f.where(b), detail={"creates": len(creates), f"{table}.push": len(tpush), "entry inserts": len(vins)})
        occ_calls = [(f.term(x).get("callee") or "") for x in occ if f.term(x)["k"] == "call"]
        ck.ob("R24b", F + f"|{name} reuse", all(c.endswith("::get") or c.endswith("OccupiedEntry::<'a, K, V, A>::get") or "drop" in c for c in occ_calls),
              "an existing entry is returned as is (nothing is created)", site=f.where(edges["Occupied"]), detail=occ_calls)
        # pushed value = created node
        pv = show(f.expr_op(f.term(tpush[0])["args"][1], deep=False)) if tpush else None
        created = None
        if tpush:
            pl = mir.op_place(f.term(tpush[0])["args"][1])
            l_ = pl["l"] if pl and not pl["p"] else None
            seen_ = set()
            while l_ is not None and l_ not in seen_ and len(f.defs(l_)) == 1 and f.defs(l_)[0][1] != "T" and "use" in f.def_rvalue(f.defs(l_)[0]) \
                    and mir.op_place(f.def_rvalue(f.defs(l_)[0])["use"]) and not mir.op_place(f.def_rvalue(f.defs(l_)[0])["use"])["p"]:
                seen_.add(l_)
                l_ = mir.op_place(f.def_rvalue(f.defs(l_)[0])["use"])["l"]
            created = show(f.expr_local(l_)) if l_ is not None else None
        pv = "new_node" if created is not None and (creator.split("::")[-1] + "(") in created else pv
        ck.ob("R24b", F + f"|{name} recorded", pv == "new_node", f"the node pushed to `{table}` is the node just created", site=f.where(tpush[0]) if tpush else None, detail=pv)
    # R24c
    na = f.calls_to("allocator::Allocator::new_atom")[0][1]
    arg = show(f.expr_op(na["args"][1]))
    argd = show(f.denamed(f.expr_op(na["args"][1]), KEEP)).replace(CURX, "CUR")
    ck.ob("R24c", F + "|atom bytes", "as_ref(&Allocator::atom(&$1, CUR))" in argd.replace("AsRef>::", ""),
          "the interned atom is created from the source atom's bytes", detail=arg[:160])
    np_ = f.calls_to("allocator::Allocator::new_pair")[0][1]
    pa = [unopt(canon(dn(f.expr_op(a)))) for a in np_["args"][1:]]
    okp = pa == ["*(::get(&DONE, &SRCPAIR.0) as Some).0", "*(::get(&DONE, &SRCPAIR.1) as Some).0"]
    ck.ob("R24c", F + "|pair children", okp, "the interned pair is (interned(left) . interned(right)) — the two values of its key, in order",
          detail=[x[:140] for x in pa])
    ins = [(b, t) for b, t in f.calls() if (t.get("callee") or "").endswith("HashMap::<K, V, S, A>::insert")
           and any(x[0] in ("var", "named") and x[2] == n_map for x in walk(f.expr_op(t["args"][0], deep=False)))]
    keys = [show(f.denamed(f.expr_op(t["args"][1], deep=False), KEEP)) for _, t in ins]
    vals = []
    for _, t in ins:
        pl = mir.op_place(t["args"][2])
        l_ = pl["l"] if pl and not pl["p"] else None
        seen_ = set()
        while l_ is not None and l_ not in seen_ and len(f.defs(l_)) == 1 and f.defs(l_)[0][1] != "T" and "use" in f.def_rvalue(f.defs(l_)[0]) \
                and mir.op_place(f.def_rvalue(f.defs(l_)[0])["use"]) and not mir.op_place(f.def_rvalue(f.defs(l_)[0])["use"])["p"]:
            seen_.add(l_)
            l_ = mir.op_place(f.def_rvalue(f.defs(l_)[0])["use"])["l"]
        srcs = []
        for d_ in (f.defs(l_) if l_ is not None else []):
            dx = "call" if d_[1] == "T" else show(f.expr_rvalue(f.def_rvalue(d_)))
            srcs.append("created" if "Allocator::new_" in dx else "existing" if ("OccupiedEntry" in dx or " as Occupied)" in dx) else "?")
        vals.append("/".join(sorted(srcs)))
    ck.ob("R24c", F + "|mapping", keys == ["CUR", "CUR"] and vals == ["created/existing", "created/existing"],
          "each processed source node is mapped to its interned node (existing entry or node just created), once in the atom arm, once in the pair arm", detail=list(zip(keys, vals)))
    root = {k: show(f.denamed(f.expr_op(o), KEEP)) for k, (l_, o) in tree_fields.items()}
    node_params = [i for i in range(1, f.nargs + 1) if f.local_ty(i) == "allocator::NodePtr"]
    ck.ob("R24c", F + "|result", len(node_params) == 1 and root.get("root", "").replace("Index>::", "") == f"*index(&DONE, &${node_params[0]})"
          and root.get("atoms") == "ATOMS_VEC" and root.get("pairs") == "PAIRS_VEC",
          "the result's root is the done-map entry of the requested node; its tables are the recorded ones", detail=root)
    skip = [show(f.denamed(f.switch_cond(b, deep=False), KEEP)) for b in f.reachable_blocks() if f.term(b)["k"] == "switch" and "contains_key" in show(f.switch_cond(b, deep=False))]
    ck.ob("R24c", F + "|visited", len(skip) == 1 and "contains_key(&DONE, &CUR)" in skip[0],
          "a source node already mapped is skipped (shared sub-trees are processed once)", detail=skip)
