"""C24 — interning preserves the tree and deduplicates maximally (structural clauses).

R24a  keys: the atom de-duplication map is keyed by atom CONTENT (key type Atom, whose Eq/Hash are by bytes,
      C03/R03b); the pair map is keyed by the INTERNED children (the values looked up in node_to_interned for
      `left` and `right`, in that order), never by source-side nodes.
R24b  creation only when new: new_atom + atoms.push happen only in the Vacant arm of the atom entry, new_pair +
      pairs.push only in the Vacant arm of the pair entry; the Occupied arms return the stored node; every
      created node is recorded in its table exactly once.
R24c  preservation: the created atom has the bytes of the source atom; the created pair is (interned left .
      interned right) — the same two values that form the key; every processed source node is mapped
      exactly once; the root is the mapping of the requested node.
"""
from lib import mir
from lib.mir import strip, show, walk
from rules.c07 import forward_reach

F = "serde::intern::intern_tree_limited"


def run(ctx):
    ck = ctx.check
    cr = ctx.crate("default")
    ck.rule("R24a", "atom map keyed by content, pair map keyed by interned children (left, right)")
    ck.rule("R24b", "nodes are created and recorded only in the Vacant arm of their de-duplication entry")
    ck.rule("R24c", "created nodes have the source's bytes / the interned children; every node is mapped once; the root is the mapping of the request")
    ck.assume("identical serialization of the interned tree is a value property; decided are the keys, the creation discipline and the child order")
    f = cr.fn(F)
    ck.analysed(f)

    def named(n):
        ls = f.local_by_name(n)
        if not ls:
            raise mir.AnchorMissing(f"{F}: local `{n}` not found")
        return ls[0]

    a_map, p_map, n_map = named("atom_to_interned"), named("pair_to_interned"), named("node_to_interned")
    ck.ob("R24a", F + "|atom map type", "HashMap<allocator::Atom" in f.local_ty(a_map),
          "atom_to_interned is keyed by Atom (content equality and hash)", site=f.where(0), detail=f.local_ty(a_map))
    ck.ob("R24a", F + "|pair map type", "HashMap<(allocator::NodePtr, allocator::NodePtr)" in f.local_ty(p_map),
          "pair_to_interned is keyed by a pair of nodes", site=f.where(0), detail=f.local_ty(p_map))
    # entries
    entries = [(b, t) for b, t in f.calls() if (t.get("callee") or "").endswith("HashMap::<K, V, S, A>::entry")]
    a_entry = [(b, t) for b, t in entries if mir.op_place(t["args"][0]) is not None and any(x[0] in ("var", "named") and x[2] == a_map for x in walk(f.expr_op(t["args"][0], deep=False)))]
    p_entry = [(b, t) for b, t in entries if any(x[0] in ("var", "named") and x[2] == p_map for x in walk(f.expr_op(t["args"][0], deep=False)))]
    if len(a_entry) != 1 or len(p_entry) != 1:
        raise mir.AnchorMissing(f"{F}: expected one entry() call per de-duplication map")
    # pair key: tuple(*l, *r) with l,r from node_to_interned.get(&left)/(&right)
    gets = {}
    for b, t in f.calls():
        if (t.get("callee") or "").endswith("HashMap::<K, V, S, A>::get") and any(x[0] in ("var", "named") and x[2] == n_map for x in walk(f.expr_op(t["args"][0], deep=False))):
            gets[t["dst"]["l"]] = show(f.expr_op(t["args"][1], deep=False))
    key = strip(f.expr_op(p_entry[0][1]["args"][1]))
    det = {"lookups": sorted(gets.values()), "key": show(key)[:200]}
    okk = key[0] == "agg" and key[1] == "tuple" and len(key[2]) == 2
    if okk:
        k0, k1 = show(key[2][0], short=False), show(key[2][1], short=False)
        # left_interned = node_to_interned.get(&left), right_interned = ...get(&right); key = (*left_interned?, *right_interned?)
        by_name = {f.local_name(l): a for l, a in gets.items()}
        okk = by_name.get("left_interned") == "&left" and by_name.get("right_interned") == "&right" and \
            "tuple(left_interned, right_interned).0 as Some" in k0 and "tuple(left_interned, right_interned).1 as Some" in k1
    ck.ob("R24a", F + "|pair key", okk and sorted(gets.values()) == ["&left", "&right"],
          "the pair key is (interned(left), interned(right)): the results of node_to_interned.get(&left) and .get(&right), in that order",
          site=f.where(p_entry[0][0]), detail=det)
    akey = show(f.expr_op(a_entry[0][1]["args"][1], deep=False))
    ck.ob("R24a", F + "|atom key", akey == "atom" and any("Allocator::atom(&source, current)" in show(f.expr_rvalue(f.def_rvalue(d), deep=False)).replace("*", "")
                                                     for l in f.local_by_name("atom") for d in f.defs(l)),
          "the atom key is source.atom(current)", site=f.where(a_entry[0][0]), detail=akey)

    # arms
    for name, (eb, et), creator, table in (("atom", a_entry[0], "allocator::Allocator::new_atom", "atoms"),
                                           ("pair", p_entry[0], "allocator::Allocator::new_pair", "pairs")):
        sw = None
        for b in sorted(forward_reach(f, et["target"])):
            dv = f.discr_variants(b)
            if dv and set(dv.values()) == {"Occupied", "Vacant"}:
                sw = (b, dv)
                break
        if not sw:
            raise mir.AnchorMissing(f"{F}: match on the {name} entry not found")
        b, dv = sw
        edges = {dv[v]: tgt for tgt, v in f.succ(b) if v != "otherwise"}
        vac = forward_reach(f, edges["Vacant"]) - forward_reach(f, edges["Occupied"])
        occ = forward_reach(f, edges["Occupied"]) - forward_reach(f, edges["Vacant"])
        creates = [cb for cb, ct in f.calls_to(creator)]
        tpush = [cb for cb, ct in f.calls() if (ct.get("callee") or "").endswith("Vec::<T, A>::push")
                 and show(f.expr_op(ct["args"][0], deep=False)).endswith(table)]
        vins = [cb for cb, ct in f.calls() if (ct.get("callee") or "").endswith("VacantEntry::<'a, K, V, A>::insert") or (ct.get("callee") or "").endswith("VacantEntry::<'a, K, V>::insert")]
        vins = [cb for cb in vins if cb in vac]
        ok = len(creates) == 1 and len(tpush) == 1 and creates[0] in vac and tpush[0] in vac and len(vins) == 1 \
            and f.dominates(creates[0], tpush[0]) and f.question_mark(creates[0]) is not None
        ck.ob("R24b", F + f"|{name} creation", ok,
              f"{creator.split('::')[-1]} and {table}.push occur exactly once, only when the entry is Vacant, and the new node is stored in the entry",
              site=f.where(creates[0]) if creates else f.where(b), detail={"creates": len(creates), f"{table}.push": len(tpush), "entry inserts": len(vins)})
        occ_calls = [(f.term(x).get("callee") or "") for x in occ if f.term(x)["k"] == "call"]
        ck.ob("R24b", F + f"|{name} reuse", all(c.endswith("::get") or c.endswith("OccupiedEntry::<'a, K, V, A>::get") or "drop" in c for c in occ_calls),
              "an existing entry is returned as is (nothing is created)", site=f.where(edges["Occupied"]), detail=occ_calls)
        # pushed value = created node
        pv = show(f.expr_op(f.term(tpush[0])["args"][1], deep=False)) if tpush else None
        ck.ob("R24b", F + f"|{name} recorded", pv == "new_node", f"the node pushed to `{table}` is the node just created", site=f.where(tpush[0]) if tpush else None, detail=pv)
    # R24c
    na = f.calls_to("allocator::Allocator::new_atom")[0][1]
    arg = show(f.expr_op(na["args"][1]))
    ck.ob("R24c", F + "|atom bytes", "as_ref(&atom)" in arg.replace("AsRef>::", "") or ("as_ref" in arg and "atom" in arg),
          "the interned atom is created from the source atom's bytes", detail=arg[:160])
    np_ = f.calls_to("allocator::Allocator::new_pair")[0][1]
    pa = [show(f.expr_op(a), short=False) for a in np_["args"][1:]]
    okp = len(pa) == 2 and "tuple(left_interned, right_interned).0 as Some" in pa[0] and "tuple(left_interned, right_interned).1 as Some" in pa[1]
    ck.ob("R24c", F + "|pair children", okp, "the interned pair is (interned(left) . interned(right)) — the two values of its key, in order",
          detail=[x[:140] for x in pa])
    ins = [(b, t) for b, t in f.calls() if (t.get("callee") or "").endswith("HashMap::<K, V, S, A>::insert")
           and any(x[0] in ("var", "named") and x[2] == n_map for x in walk(f.expr_op(t["args"][0], deep=False)))]
    keys = [show(f.expr_op(t["args"][1], deep=False)) for _, t in ins]
    vals = [show(f.expr_op(t["args"][2], deep=False)) for _, t in ins]
    ck.ob("R24c", F + "|mapping", keys == ["current", "current"] and vals == ["interned", "interned"],
          "each processed source node is mapped to its interned node (once in the atom arm, once in the pair arm)", detail=list(zip(keys, vals)))
    root = []
    for b in f.reachable_blocks():
        for st in f.stmts(b):
            rv = st.get("rv", {})
            if "agg" in rv and isinstance(rv["agg"][0], dict) and rv["agg"][0].get("adt", "").endswith("InternedTree"):
                root = dict(zip(rv["agg"][0]["fields"], [show(f.expr_op(o)) for o in rv["agg"][1]]))
    ck.ob("R24c", F + "|result", bool(root) and "index(&node_to_interned, &node)" in root.get("root", "").replace("Index>::", "") and root.get("atoms") == "atoms" and root.get("pairs") == "pairs",
          "the result's root is node_to_interned[node]; its tables are the recorded ones", detail=root)
    skip = [show(f.switch_cond(b, deep=False)) for b in f.reachable_blocks() if f.term(b)["k"] == "switch" and "contains_key" in show(f.switch_cond(b, deep=False))]
    ck.ob("R24c", F + "|visited", len(skip) == 1 and "node_to_interned" in skip[0] and "&current" in skip[0],
          "a source node already mapped is skipped (shared sub-trees are processed once)", detail=skip)
