"""C25 — the interpreter is total: no panics, no internal errors (static clauses).

Scope: every function of the crate reachable from run_program (generic over the dialect, so both dialects and every
operator are included).

R25a  explicit panic sites (panic!/assert!/unreachable!/unwrap/expect) reachable from the interpreter are exactly the
      audited ones, each with the guard that makes it unreachable; where the guard is a local condition it is CHECKED
      (the site is dominated by it), otherwise the cross-function invariant is named.
R25b  InternalError constructions reachable from the interpreter are exactly the audited ones.
R25c  the call graph reachable from run_program is recursion-free (no native stack growth with input depth).
R25d  every indexing site (MIR bounds checks, Index/IndexMut calls on slices, arrays, Vecs) is IN BOUNDS: proved from
      the dominating / per-path conditions by lib/bounds.py, or proved under the allocator's storage invariant
      (inside impl Allocator only), or listed in the audited table with the invariant it relies on.  Division and
      remainder sites likewise have a non-zero divisor.
R25e  the Allocator accessors that panic on a pair (atom, atom_len, number, atom_eq) are only called on nodes known
      to be atoms: a dominating/per-path match on sexp()/node() of the same node, the result of an atom constructor,
      or a parameter for which every caller satisfies the same rule (checked recursively), or an audited invariant.
Not decided: arithmetic-overflow assertions (they exist only with overflow-checks, i.e. in debug builds), panics
inside dependency crates, and allocation failure.
"""
import os
import re
from lib import mir
from lib.mir import show
from lib.bounds import Prover, Eval, Lin, key, add, sub
from rules.c07 import is_test_fn
from rules.c16 import panic_sites

ROOT = "run_program::run_program"


def norm_text(t):
    return re.sub(r"@bb\d+", "", t)


# ---- R25d audited indexing goals: (function, normalised goal) -> invariant relied upon
AUDITED_INDEX = {
    ("<allocator::Atom<'_> as std::convert::AsRef<[u8]>>::as_ref", "sub(4, (self as U32).1) <= len((self as U32).0)"):
        "Atom::U32(bytes, len) is only built by Allocator::atom / node with len = len_for_value(v) <= 4 for a 26-bit small atom (C14 R14b)",
    ("<runtime_dialect::RuntimeDialect as dialect::Dialect>::quote_kw", "0 < len(self.quote_kw)"):
        "constructor precondition of RuntimeDialect (not program input): the keyword vectors are non-empty",
    ("<runtime_dialect::RuntimeDialect as dialect::Dialect>::apply_kw", "0 < len(self.apply_kw)"):
        "constructor precondition of RuntimeDialect (not program input)",
    ("<runtime_dialect::RuntimeDialect as dialect::Dialect>::softfork_kw", "0 < len(self.softfork_kw)"):
        "softfork_kw is vec![36] (C30 R30e)",
    ("more_ops::op_add", "random_range(rng(), Range(0, 2)) < 2"): "rand's contract: random_range(0..2) is 0 or 1",
    ("more_ops::op_subtract", "random_range(rng(), Range(0, 2)) < 2"): "rand's contract: random_range(0..2) is 0 or 1",
}
CURSOR_INV = ("Cursor invariant: the position is only advanced by successful reads (never beyond the slice) and by seek/set_position "
              "calls that are guarded by an explicit remaining-length test")
DECODER_AUDITS = {
    ("serde::de_tree::parse_triples", "((pop(box_assume_init_into_vec_unsafe(new_uninit())) as Some).0 as SaveEnd).0 < len(new())"):
        "SaveEnd(index) is pushed with index = r.len() immediately before r.push(pair): index < len(r) when it is popped",
    ("serde::de_tree::parse_triples", "(((pop(box_assume_init_into_vec_unsafe(new_uninit())) as Some).0 as SaveEnd).0 AddWithOverflow 1).0 < len(new())"):
        "tree_hashes has one entry per parsed object and the pair's left child is the object parsed right after it (index + 1 exists when SaveEnd runs)",
    ("serde::de_tree::parse_triples", "((index_mut(new(), ((pop(box_assume_init_into_vec_unsafe(new_uninit())) as Some).0 as SaveEnd).0) as Pair).right_index as usize) < len(new())"):
        "right_index was set by SaveRightIndex to r.len() just before the right child was parsed, so it indexes an existing entry when SaveEnd runs",
    ("serde::de_tree::parse_triples", "((pop(box_assume_init_into_vec_unsafe(new_uninit())) as Some).0 as SaveRightIndex).0 < len(new())"):
        "SaveRightIndex(index) is pushed with the index of a pair already in r",
    ("serde::parse_atom::decode_size_with_offset", "0 < len(index_mut((8,), RangeTo((leading_ones($2) as usize))))"):
        "initial_b & 0x80 != 0 was tested just above (explicit error return), so leading_ones() >= 1; < 8 is tested too",
    ("serde::parse_atom::decode_size_with_offset", "1 <= len(%&mut [u8])"): "same: the prefix length is at least 1",
    ("serde::parse_atom::parse_atom_ptr", "(position($1) as usize) <= len(get_ref($1))"): CURSOR_INV,
    ("serde::parse_atom::parse_atom_ptr", "no wrap: (position($1) as usize) - 1 >= 0"): "the caller has just read first_byte from this cursor, so the position is at least 1",
    ("serde::tools::tree_hash_from_stream", "(position($1) as usize) <= len(get_ref($1))"): CURSOR_INV,
}
SMALL_ATOM = "the value of an inline small atom is < 2^26 (NodePtr index mask, C14 R14b), so len_for_value() <= 4"
AUDITED_INDEX_PATTERNS = [
    # (function, regex on the normalised goal, reason)
    ("allocator::Allocator::new_concat", r"^no wrap: 4 - \(\(len_for_value\(index\(.*\)\) as u32\) as usize\) >= 0$", SMALL_ATOM),
    ("allocator::Allocator::new_substr", r"^no wrap: 4 - \(\(len_for_value\(index\(\$2\)\) as u32\) as usize\) >= 0$", SMALL_ATOM),
    ("allocator::Allocator::new_substr", r"^no wrap: len\(to_be_bytes\(index\(\$2\)\)\) - \(4 SubWithOverflow .*\)\.0 >= 0$", SMALL_ATOM),
    ("allocator::Allocator::new_substr", r"^\(\$3 as usize\) <= \(\$4 as usize\)$", "bounds_check(node, start, end, len) returned Ok: start <= end <= len (nested fn, dominated by its `?`)"),
    ("allocator::Allocator::new_substr", r"^\(\$4 as usize\) <= len\(index\(to_be_bytes\(index\(\$2\)\), RangeFrom\(.*\)\)\)$", "bounds_check(node, start, end, len) returned Ok: end <= len"),
    ("allocator::Allocator::bytes_eq_int", r"^\(\$2\.start as usize\) < len\(self\.u8_vec\)$",
     "val != 0 and len_for_value(val) == end - start imply end - start >= 1; with the storage invariant end <= len(u8_vec)"),
    ("allocator::Allocator::bytes_eq_int", r"^\(\(next\(into_iter\(Range\(\$2\.start, \$2\.end\)\)\) as Some\)\.0 as usize\) < len\(self\.u8_vec\)$",
     "the iterator yields start <= i < end and the storage invariant gives end <= len(u8_vec)"),
]

# ---- R25a audited explicit panic sites: (function, kind, ordinal) -> (reason, guard or None)
# guard: a normalised condition (lib.mir.show_norm of compare_norm) that must hold on an edge dominating the site
AUDITED_PANICS = {
    ("<chia_dialect::ChiaDialect as dialect::Dialect>::op", "unwrap", 0):
        ("try_into() of a slice to [u8; 4] cannot fail when the atom has exactly 4 bytes", "+Allocator::atom_len(&$2, $3) -4 ==0"),
    ("allocator::Allocator::atom", "panic!", 0): ("expected atom, got pair: callers hold R25e", None),
    ("allocator::Allocator::atom_eq", "panic!", 0): ("atom_eq() called on pair: callers hold R25e", None),
    ("allocator::Allocator::atom_len", "panic!", 0): ("expected atom, got pair: callers hold R25e", None),
    ("allocator::Allocator::number", "panic!", 0): ("number() called on pair: callers hold R25e", None),
    ("allocator::Allocator::new_small_number", "panic!", 0): ("debug_assert!(v <= NODE_PTR_IDX_MASK): every caller tests fits_in_small_atom / the mask first (C14 R14b)", None),
    ("allocator::Allocator::restore_transparent_checkpoint", "panic!", 0): ("assert!(u8_vec.len() >= cp.u8s): checkpoints are taken from the same allocator and storage only grows in between (C12)", None),
    ("allocator::Allocator::restore_transparent_checkpoint", "panic!", 1): ("assert!(pair_vec.len() >= cp.pairs): as above", None),
    ("allocator::Allocator::restore_transparent_checkpoint", "panic!", 2): ("assert!(atom_vec.len() >= cp.atoms): as above", None),
    ("allocator::NodePtr::new", "panic!", 0): ("debug_assert!(index <= NODE_PTR_IDX_MASK): the atom/pair count limits (C13) keep indices below 2^26", None),
    ("allocator::NodePtr::object_type", "panic!", 0): ("unreachable!(): the 6-bit tag of a NodePtr is written only by NodePtr::new with one of the three object types", None),
    ("more_ops::op_coinid", "expect", 0): ("a SHA-256 digest is 32 bytes (type-level constant of the hash)", None),
    ("more_ops::op_unknown", "panic!", 0): ("assert!(cost > 0): the cost formulas add a positive base before this point", None),
    ("run_program::RunProgramContext::<'a, D>::exit_guard", "expect", 0): ("softfork stack: ExitGuard is pushed only together with a softfork_stack entry (C31)", None),
    ("run_program::RunProgramContext::<'a, D>::exit_guard", "expect", 1): ("value stack: the guarded program left its result (C04 stack discipline)", None),
    ("run_program::RunProgramContext::<'a, D>::run_program", "unwrap", 0): ("value stack: the loop ends with exactly the result on the stack (C04)", None),
    ("traverse_path::msb_mask", "panic!", 0): ("debug_assert! on a u8 bit trick: holds for every byte value", None),
    ("treehash::tree_hash_costed", "unwrap", 0): ("hashes stack: a Cons item is pushed beneath its two SExp items, each of which pushes one hash (C22)", None),
    ("treehash::tree_hash_costed", "unwrap", 1): ("hashes stack: as above", None),
    ("treehash::tree_hash_costed", "panic!", 0): ("assert!(hashes.len() == 1): one hash per processed tree", None),
}
# InternalError constructions are inventoried by MESSAGE (moving one into a helper changes nothing): message -> (max count, reason)
AUDITED_INTERNAL = {
    "ghost atom accounting error": (2, "maybe_restore_with_node: a transparent restore has just turned the atom into a ghost (C04/C12): defensive"),
    "ghost heap accounting error": (1, "maybe_restore_with_node: the truncated bytes were just added to ghost_heap: defensive"),
    "invalid atom byte range": (1, "maybe_restore_with_node: storage invariant start <= end <= len(u8_vec): defensive"),
    "concat passed invalid new_size": (4, "new_concat: op_concat passes the exact total size: defensive"),
    "concat expected atom, got pair": (1, "new_concat: op_concat passes atoms only: defensive"),
    "substr expected atom, got pair": (1, "new_substr: op_substr passes an atom: defensive"),
    "environment stack empty": (2, "apply_op / swap_eval_op: eval_pair pushes the environment before scheduling them (C04 stack discipline)"),
    "value stack empty": (2, "pop / run_program: value stack discipline (C04)"),
    "allocator checkpoint stack empty": (1, "run_program: a checkpoint is pushed for every GC candidate before its RestoreAllocator item (C04/C31)"),
}

# ---- R25e
PANICS_ON_PAIR = {"allocator::Allocator::atom": 1, "allocator::Allocator::atom_len": 1, "allocator::Allocator::number": 1,
                  "allocator::Allocator::atom_eq": 2}
ATOM_CTORS = ("Allocator::new_number", "Allocator::new_malachite_number", "Allocator::new_atom", "Allocator::new_u64", "Allocator::new_i64",
              "Allocator::new_small_number", "Allocator::new_concat", "Allocator::new_substr", "Allocator::new_g1", "Allocator::new_g2",
              "Allocator::nil", "Allocator::one")
ATOM_VARIANTS = {"SExp": {"Atom"}, "NodeVisitor": {"Buffer", "U32"}, "ObjectType": {"Bytes", "SmallAtom"}}
AUDITED_ATOMS = {
    ("run_program::RunProgramContext::<'a, D>::apply_op", "arg:Dialect::op#2"):
        "the operator on the value stack is pushed by eval_pair only: either op_node in the Atom arm of its sexp() match (eval_op_atom), or "
        "new_operator in the ((X)...) form after `inner` (the same node, via get_args::<1>) was rejected if it is a pair",
    ("allocator::Allocator::new_concat", "$3[0]"): "op_concat collects only arguments whose sexp() is Atom into `terms` before calling new_concat",
}


def storage_invariant(obj_types):
    """facts assumed inside impl Allocator: a NodePtr of kind K indexes below len(K-vector); every AtomBuf stored in
    atom_vec satisfies start <= end <= len(u8_vec)"""
    def inv(pr, L, facts):
        out = []
        f = pr.f
        selfp = ("par", 1, f.local_name(1) or "self")

        def unwrap(e):
            while e[0] in ("val",) or (e[0] == "cast" and e[1] == "IntToInt"):
                e = e[2]
            return e
        for k, e in list(L.atoms.items()):
            ee = unwrap(e)
            if ee[0] == "fld" and ee[2] in ("start", "end"):
                X = ee[1]
                kx = key(X)
                is_buf = "self.atom_vec" in kx
                xb = unwrap(X)
                if xb[0] == "sym":
                    is_buf = is_buf or f.local_ty(xb[2][0]).endswith("AtomBuf")
                if xb[0] == "par":
                    is_buf = is_buf or f.local_ty(xb[1]).endswith("AtomBuf")
                if is_buf:
                    st = L.lin(("cast", "IntToInt", ("fld", X, "start"), "usize", "u32"))
                    en = L.lin(("cast", "IntToInt", ("fld", X, "end"), "usize", "u32"))
                    u8 = L.lin(("len", ("fld", selfp, "u8_vec")))
                    out.append((sub(en, st), ">=0", -1))
                    out.append((sub(u8, en), ">=0", -1))
            if ee[0] == "call" and ee[1].endswith("NodePtr::index") and len(ee[2]) == 1:
                N = key(ee[2][0])
                for (ft, fc), rel, _ in facts:
                    if rel != "==0" or len(ft) != 1:
                        continue
                    (a, co), = ft.items()
                    de = L.atoms.get(a)
                    if de is None or co != 1:
                        continue
                    de = unwrap(de)
                    if de[0] == "discr" and unwrap(de[1])[0] == "call" and unwrap(de[1])[1].endswith("NodePtr::object_type") \
                            and key(unwrap(de[1])[2][0]) == N:
                        kind = obj_types.get(-fc)
                        vec = {"Pair": "pair_vec", "Bytes": "atom_vec"}.get(kind)
                        if vec:
                            ln = L.lin(("len", ("fld", selfp, vec)))
                            ix = L.lin(ee)
                            out.append((add(sub(ln, ix), ({}, -1)), ">=0", -1))
        return out
    return inv


def reach_fns(cr, roots):
    missing = [r for r in roots if r not in cr.fns]
    if missing:
        raise mir.AnchorMissing("root function(s) not found: " + ", ".join(missing))
    return sorted(p for p in cr.reachable(roots) if p in cr.fns and not is_test_fn(cr.fns[p]))


_ENGINE_CHECKED = set()


def engine_selfcheck(ck):
    """the verifier's own controls (/verif/fixtures): every ok_* function must be proved, every bad_* must not be.
    Runs once per check invocation; a wrong verdict here makes the engine's verdicts on /repo worthless (fail closed)."""
    if id(ck) in _ENGINE_CHECKED:
        return
    _ENGINE_CHECKED.add(id(ck))
    from lib import facts
    ck.rule("ENGINE", "the in-bounds verifier proves every positive control and none of the negative controls in /verif/fixtures")
    fx = mir.Crate(facts.fixtures_facts())
    n_ok = n_bad = 0
    for p, f in sorted(fx.fns.items()):
        name = p.split("::")[-1]
        if not name.startswith(("ok_", "bad_")):
            continue
        pr = Prover(f, fx)
        res = []
        for b, _ in pr.sites():
            res += [(t, ok) for t, ok, _, _ in pr.check_site(b)["goals"]]
        proved = bool(res) and all(ok for _, ok in res)
        want = name.startswith("ok_")
        n_ok += want
        n_bad += not want
        ck.ob("ENGINE", "fixture|" + name, proved == want and bool(res),
              "positive control is proved" if want else "negative control is NOT proved (at least one goal stays open)",
              site="fixtures/src/lib.rs", detail=[norm_text(t) for t, ok in res if not ok][:3], trivial=True)
    ck.floor("verifier controls (proved)", n_ok, 13)
    ck.floor("verifier controls (must stay unproved)", n_bad, 16)


def check_bounds(ck, cr, rule, fn_paths):
    """decide every indexing / division site of the given functions (rule id `rule`); returns (counts, number of sites)"""
    engine_selfcheck(ck)
    obj_types = {}
    for p, f in cr.fns.items():
        if not p.startswith("allocator::"):
            continue
        for b in f.reachable_blocks():
            for stt in f.stmts(b):
                rv = stt.get("rv", {})
                if "discr" in rv and (rv.get("enum") or "").endswith("ObjectType"):
                    obj_types = {int(v): n for v, n in rv["variants"]}
    inv = storage_invariant(obj_types)
    counts = {"proved": 0, "storage invariant": 0, "audited": 0}
    n_sites = 0
    for p in fn_paths:
        f = cr.fns[p]
        pr = None
        seen = {}
        for b, kind in Prover(f, cr).sites():
            pr = pr or Prover(f, cr)
            n_sites += 1
            use_inv = inv if p.startswith("allocator::Allocator::") else None
            try:
                r = pr.check_site(b, use_inv)
            except RecursionError:
                r = {"goals": [("analysis gave up (expression too deep)", False, "", None)], "facts": []}
            for text, ok, g, how in r["goals"]:
                nt = norm_text(text)
                o = seen.get(nt, 0)
                seen[nt] = o + 1
                kk = f"{p}|{nt}" + (f" #{o}" if o else "")
                if ok:
                    counts["storage invariant" if how == "storage invariant" else "proved"] += 1
                    ck.ob(rule, kk, True, f"in bounds ({how})", site=f.where(b), detail={"how": how})
                    continue
                # audits are keyed by the goal with every variable name removed (parameters $n, locals %type): renaming a
                # variable must not invalidate an audit
                ant = f.unname(nt)
                if os.environ.get("VERIF_DEBUG_AUDIT"):
                    print("AUDITKEY", repr((p, nt, ant)))
                reason = AUDITED_INDEX.get((p, ant)) or DECODER_AUDITS.get((p, ant))
                if reason is None:
                    for fp, rx, why in AUDITED_INDEX_PATTERNS:
                        if fp == p and re.match(rx, ant):
                            reason = why
                if reason is not None:
                    counts["audited"] += 1
                    ck.ob(rule, kk, True, "in bounds by an audited invariant", site=f.where(b), detail={"audit": reason})
                else:
                    ck.ob(rule, kk, False, f"cannot show: {nt}", site=f.where(b), detail={"goal": g, "facts": r["facts"][-10:]})
        if pr is not None:
            ck.analysed(f)
    ck.info(f"{rule}: indexing / division goals: {counts}")
    return counts, n_sites


def run(ctx):
    ck = ctx.check
    cr = ctx.crate("default")
    ck.rule("R25a", "explicit panic sites reachable from the interpreter are the audited ones; local guards are checked by dominance")
    ck.rule("R25b", "InternalError constructions reachable from the interpreter are the audited ones")
    ck.rule("R25c", "no recursion below run_program")
    ck.rule("R25d", "every index, slice range and division reachable from the interpreter is in bounds / has a non-zero divisor: proved, proved under the allocator storage invariant, or audited")
    ck.rule("R25e", "accessors that panic on a pair are called only on nodes known to be atoms")
    ck.rule("R25f", "every big-integer division / remainder / modpow is dominated by the rejection of a zero divisor (tested on the VALUE: sign() == NoSign)")
    ck.assume("arithmetic-overflow assertions exist only with overflow-checks (debug builds) and are not decided; panics inside dependency crates and allocation failure are out of scope")
    ck.assume("storage invariant (used only inside impl Allocator): a live NodePtr of kind Pair/Bytes indexes below len(pair_vec)/len(atom_vec), and every AtomBuf in atom_vec has start <= end <= len(u8_vec) "
              "— established where nodes are created, preserved because storage is append/truncate-only (C14) and truncation follows the checkpoint discipline (C12, C31)")
    reach = sorted(p for p in cr.reachable([ROOT]) if p in cr.fns and not is_test_fn(cr.fns[p]))
    ck.floor("functions reachable from run_program", len(reach), 150)

    # ------------------------------------------------------------------ R25c
    cg = cr.callgraph()
    rs = set(reach)
    index, low, onst, st, sccs = {}, {}, set(), [], []
    import sys
    sys.setrecursionlimit(10000)

    def strong(v):
        index[v] = low[v] = len(index)
        st.append(v)
        onst.add(v)
        for w in cg.get(v, ()):
            if w not in rs:
                continue
            if w not in index:
                strong(w)
                low[v] = min(low[v], low[w])
            elif w in onst:
                low[v] = min(low[v], index[w])
        if low[v] == index[v]:
            comp = []
            while True:
                w = st.pop()
                onst.discard(w)
                comp.append(w)
                if w == v:
                    break
            if len(comp) > 1 or v in cg.get(v, ()):
                sccs.append(sorted(comp))
    for v in reach:
        if v not in index:
            strong(v)
    ck.ob("R25c", "call graph below run_program", not sccs, "no function reachable from run_program can call itself, directly or indirectly",
          detail=sccs[:5])

    # ------------------------------------------------------------------ R25a / R25b
    seen_p = {}
    n_p = 0
    internal = {}
    for p in reach:
        f = cr.fns[p]
        rb = f.reachable_blocks()
        per_kind = {}
        for b, kind in panic_sites(f):
            if b not in rb:
                continue
            o = per_kind.get(kind, 0)
            per_kind[kind] = o + 1
            n_p += 1
            k = (p, kind, o)
            aud = AUDITED_PANICS.get(k)
            if aud is None:
                ck.ob("R25a", f"{p}|{kind} #{o}", False, "an explicit panic site reachable from the interpreter must be audited (none is expected here)",
                      site=f.where(b))
                continue
            reason, guard = aud
            ok = True
            det = {"audit": reason}
            if guard:
                ok = False
                for x in f.dominators(b):
                    if f.term(x)["k"] != "switch":
                        continue
                    n = mir.compare_norm(f.switch_cond(x))
                    if n and f.unparam(mir.show_norm(n)) == guard:
                        be = f.bool_edges(x)
                        if be and (be[0] == b or f.dominates(be[0], b)):
                            ok = True
                det["guard"] = guard
            ck.ob("R25a", f"{p}|{kind} #{o}", ok, "audited panic site" + (": the guard dominates it" if guard else ""), site=f.where(b), detail=det)
            seen_p[k] = True
        for b in sorted(rb):
            for stt in f.stmts(b):
                rv = stt.get("rv", {})
                if "agg" in rv and isinstance(rv["agg"][0], dict) and rv["agg"][0].get("variant") == "InternalError":
                    msgs = [x[1] for x in mir.walk(f.expr_op(rv["agg"][1][1])) if x[0] == "str"] if len(rv["agg"][1]) > 1 else []
                    m = msgs[0] if len(msgs) == 1 else "?"
                    internal.setdefault(m, []).append(f.where(b))
    ck.floor("explicit panic sites", n_p, 1)
    for m, sites in sorted(internal.items()):
        aud = AUDITED_INTERNAL.get(m)
        ck.ob("R25b", f"InternalError(\"{m}\")", aud is not None and len(sites) <= aud[0],
              "an InternalError construction reachable from the interpreter is audited (by message; count not above the audited number)",
              site=sites[0], detail={"sites": sites, "audited": aud})
    ck.floor("distinct InternalError messages", len(internal), 1)

    # ------------------------------------------------------------------ R25d
    counts, n_sites = check_bounds(ck, cr, "R25d", reach)
    ck.floor("indexing and division sites", n_sites, 60)
    ck.floor("goals proved without an audit", counts["proved"] + counts["storage invariant"], 55)

    # ------------------------------------------------------------------ R25f
    DIVS = ("div_floor", "mod_floor", "div_mod_floor", "div_rem", "modpow", "div_euclid", "rem_euclid", "div", "rem")
    n_div = 0
    for p in reach:
        f = cr.fns[p]
        for b, t in f.calls():
            c = t.get("callee") or t.get("raw") or ""
            if c.split("::")[-1] not in DIVS or "BigInt" not in c + " ".join(t.get("ga") or []) and "Integer" not in c:
                continue
            if b not in f.reachable_blocks() or len(t["args"]) < 2:
                continue
            n_div += 1
            divisor = show(f.denamed(f.expr_op(t["args"][-1])))
            guarded = False
            for x in f.dominators(b):
                if f.term(x)["k"] != "switch":
                    continue
                cnd = show(f.denamed(f.switch_cond(x)))
                be = f.bool_edges(x)
                if be and f"BigInt::sign({divisor})" in cnd and "NoSign" in cnd and "::eq(" in cnd \
                        and f.is_error_block(be[0]) and (be[1] == b or f.dominates(be[1], b)):
                    guarded = True
            const_div = False
            if not guarded:
                # a constant, non-zero divisor (the BLS group order)
                const_div = any(x[0] == "call" and "from_bytes_be" in x[1] or x[0] == "bytes" for x in mir.walk(f.expr_op(t["args"][-1])))
            aud = {("op_utils::mod_group_order", "mod_floor"): "the divisor is the lazy_static GROUP_ORDER, the (non-zero) BLS12-381 group order"}.get((p, c.split("::")[-1]))
            if aud and not guarded:
                const_div = True
            ck.ob("R25f", f"{p}|{c.split('::')[-1]}", guarded or const_div,
                  "the divisor's sign() == NoSign is rejected with an error before the division (or the divisor is a non-zero constant)",
                  site=f.where(b), detail={"divisor": divisor[:120], "guarded": guarded, "constant divisor": const_div})
    ck.floor("big-integer divisions", n_div, 6)

    # ------------------------------------------------------------------ R25e
    # the audited cross-function invariant "the operator that reaches Dialect::op is an atom" rests on eval_pair: in the ((X) ..)
    # form the operator X must have been rejected if it is a pair BEFORE the Apply step is scheduled (checked, not assumed)
    ep = cr.fn("run_program::RunProgramContext::<'a, D>::eval_pair")
    ep.status()
    applies = [b for b, t in ep.calls() if (t.get("callee") or "").endswith("Vec::<T, A>::push") and len(t["args"]) > 1
               and show(ep.expr_op(t["args"][1])).startswith("Apply")]
    guarded = []
    for ab in applies:
        okg = False
        for x in ep.dominators(ab):
            dv = ep.discr_variants(x)
            if not dv or not (ep.discr_enum(x) or "").endswith("SExp"):
                continue
            cond = show(ep.switch_cond(x))
            # the tested node is the single element of the inner list / the first of the operator position
            if "op_utils::get_args(" not in cond and not re.search(r"Allocator::sexp\(.*as Pair\)\.0\) as Pair\)\.0", cond):
                continue
            pair_edges = [tgt for tgt, v in ep.succ(x) if (dv.get(v) == "Pair") or (v == "otherwise" and "Pair" not in [dv.get(v2) for _, v2 in ep.succ(x) if v2 != "otherwise"])]
            atom_edges = [tgt for tgt, v in ep.succ(x) if tgt not in pair_edges]
            if pair_edges and all(ep.is_error_block(t_) for t_ in pair_edges) and any(t_ == ab or ep.dominates(t_, ab) for t_ in atom_edges):
                okg = True
        guarded.append(okg)
    ck.ob("R25e", "run_program::RunProgramContext::<'a, D>::eval_pair|((X) ..) operator is an atom", bool(applies) and all(guarded),
          "an Apply step is scheduled only after the operator of the ((X) ..) form was rejected if it is a pair (the operator reaching Dialect::op is then an atom)",
          site=ep.where(applies[0]) if applies else ep.where(0), detail={"Apply pushes": len(applies), "guarded": guarded})
    ck.analysed(ep)
    memo = {}
    fails = {}
    n_calls = 0

    def variants_on_edge(f, x, tgt):
        dv = f.discr_variants(x)
        if not dv:
            return None
        labels = [v for t2, v in f.succ(x) if t2 == tgt]
        listed = set(dv.keys())
        names = set()
        for v in labels:
            if v == "otherwise":
                taken = {vv for _, vv in f.succ(x) if vv != "otherwise"}
                names |= {n for val, n in dv.items() if val not in taken}
            elif v in dv:
                names.add(dv[v])
        return names

    def scrutinee(pr, f, x):
        """what block x branches on, as (kind, key of the node, node expr):
        kind SExp / NodeVisitor / ObjectType: discr of A.sexp(n) / A.node(n) / n.object_type();
        kind is_pair: the bool n.is_pair();  kind validator: discr(Try::branch(V(.., n, ..))) for an atom validator V"""
        t = f.term(x)
        if t["k"] != "switch":
            return []
        e = pr.ev.operand(t["on"], (x, "T"))
        while e[0] in ("val",):
            e = e[2]
        if e[0] == "call" and e[1].endswith("NodePtr::is_pair") and len(e[2]) == 1:
            return [("is_pair", key(e[2][0]), e[2][0])]
        if e[0] != "discr":
            return []
        s = e[1]
        while s[0] in ("val",):
            s = s[2]
        if s[0] == "call" and s[1].endswith(("Allocator::sexp", "Allocator::node")) and len(s[2]) == 2:
            return [("SExp" if s[1].endswith("sexp") else "NodeVisitor", key(s[2][1]), s[2][1])]
        if s[0] == "call" and s[1].endswith("NodePtr::object_type") and len(s[2]) == 1:
            return [("ObjectType", key(s[2][0]), s[2][0])]
        if s[0] == "call" and s[1].endswith("Try>::branch") and len(s[2]) == 1:
            c = s[2][0]
            while c[0] == "val":
                c = c[2]
            if c[0] == "call" and c[1] in cr.fns:
                out = []
                for i in validator_params(c[1]):
                    if i - 1 < len(c[2]):
                        out.append(("validator", key(c[2][i - 1]), c[2][i - 1]))
                return out
        return []

    vmemo = {}

    def validator_params(path):
        """parameters of a local function that are known atoms whenever it returns Ok"""
        if path in vmemo:
            return vmemo[path]
        vmemo[path] = []
        g = cr.fns[path]
        prg = Prover(g, cr)
        oks = [b for b in g.reachable_blocks() for st in g.stmts(b)
               if st["d"]["l"] == 0 and not st["d"]["p"] and "agg" in st.get("rv", {}) and isinstance(st["rv"]["agg"][0], dict) and st["rv"]["agg"][0].get("variant") == "Ok"]
        res = []
        if oks:
            for i in range(1, g.nargs + 1):
                if g.local_ty(i) != "allocator::NodePtr":
                    continue
                pk = g.local_name(i) or f"arg{i}"
                if all(atom_by_dominance(prg, g, b, pk) for b in oks):
                    res.append(i)
        vmemo[path] = res
        return res

    def atom_by_dominance(pr, f, b, nk):
        for x in f.dominators(b):
            for sc in scrutinee(pr, f, x):
                if sc[1] != nk:
                    continue
                for tgt, lab in f.succ(x):
                    if len(f.pred(tgt)) == 1 and (tgt == b or f.dominates(tgt, b)):
                        if sc[0] == "is_pair":
                            t = f.term(x)
                            truth = ([v for v, _ in t["targets"]] == [0]) if lab == "otherwise" else bool(lab)
                            good = not truth
                            why = "!is_pair()"
                        elif sc[0] == "validator":
                            names = variants_on_edge(f, x, tgt)
                            good = bool(names) and names <= {"Continue"}
                            why = "validated by a callee that returns Ok only for atoms"
                        else:
                            names = variants_on_edge(f, x, tgt)
                            good = bool(names) and names <= ATOM_VARIANTS[sc[0]]
                            why = f"{sc[0]} arm {sorted(names or [])}"
                        if good:
                            L1, L2 = Lin(pr.ev), Lin(pr.ev)
                            L1.atom(sc[2])
                            if not pr._stale(({nk: 1}, 0), L1, L2, pr._between(tgt, b)):
                                return why
        return None

    def is_ctor_result(v):
        while v[0] == "val":
            v = v[2]
        if v[0] == "fld" and v[2] == "0" and v[1][0] == "dc" and v[1][2] in ("Continue", "Ok", "Some"):
            v = v[1][1]
            while v[0] == "val":
                v = v[2]
            if v[0] == "call" and v[1].endswith("Try>::branch"):
                v = v[2][0]
                while v[0] == "val":
                    v = v[2]
        return v[0] == "call" and v[1].endswith(ATOM_CTORS)

    def arg_name(f, op):
        pl = op.get("mv") or op.get("cp")
        seen = set()
        while pl and not pl["p"] and pl["l"] not in seen:
            l = pl["l"]
            seen.add(l)
            if f.local_name(l):
                return f.local_name(l)
            ds = f.defs(l)
            if len(ds) != 1 or ds[0][1] == "T":
                return None
            rv = f.stmts(ds[0][0])[ds[0][1]]["rv"]
            if "use" in rv:
                pl = rv["use"].get("mv") or rv["use"].get("cp")
            else:
                return None
        return None

    def known_atom(p, b, argi, depth=0):
        """is argument argi of the call ending block b of function p known to be an atom?"""
        f = cr.fns[p]
        pr = Prover(f, cr)
        t = f.term(b)
        e = pr.ev.operand(t["args"][argi], (b, "T"))
        while e[0] == "val":
            e = e[2]
        nk = key(e)
        # a named local of the caller (for audited cross-function invariants)
        # audited cross-function invariants are keyed by the call and the argument position, not by a local's name
        site_key = "arg:" + "::".join((t.get("raw") or t.get("callee") or "?").split("::")[-2:]) + f"#{argi}"
        if (p, site_key) in AUDITED_ATOMS:
            return "audited: " + AUDITED_ATOMS[(p, site_key)]
        # a local assigned on several paths: every assignment must be an atom constructor result
        if e[0] == "sym" and e[2][0] > f.nargs:
            vals = []
            for d_ in f.defs(e[2][0]):
                if d_[1] == "T":
                    tt = f.term(d_[0])
                    vals.append(("call", tt.get("callee") or "?", ()))
                else:
                    vals.append(pr.ev.rvalue(f.stmts(d_[0])[d_[1]]["rv"], d_))
            if vals and all(is_ctor_result(v) for v in vals):
                return "every assignment is an atom constructor result"
        # constructor results
        if is_ctor_result(e):
            return "result of an atom constructor"
        inner = e
        if inner[0] == "fld" and inner[2] == "0" and inner[1][0] == "dc" and inner[1][2] in ("Continue", "Ok", "Some"):
            inner = inner[1][1]
            if inner[0] == "call" and inner[1].endswith("Try>::branch"):
                inner = inner[2][0]
        if inner[0] == "call" and inner[1].endswith(ATOM_CTORS):
            return "result of " + inner[1].split("::")[-1]
        # dominating match arms / tests / validators
        w = atom_by_dominance(pr, f, b, nk)
        if w:
            return w
        if (p, f.unname(norm_text(nk))) in AUDITED_ATOMS:
            return "audited: " + AUDITED_ATOMS[(p, f.unname(norm_text(nk)))]
        # a parameter: every caller must pass a known atom
        if e[0] == "par" and depth < 5:
            mk = (p, e[1])
            if mk in memo:
                return memo[mk]
            memo[mk] = "assumed (cycle)"
            callers = []
            for q in reach:
                g = cr.fns[q]
                for cb, ct in g.calls():
                    if cb not in g.reachable_blocks():
                        continue
                    callee = ct.get("callee")
                    targets = [callee] if callee in cr.fns else []
                    if not targets and ct.get("trait") and not ct.get("resolved"):
                        m = (ct.get("raw") or "").split("::")[-1]
                        targets = [c for c in cg.get(q, ()) if c.endswith("::" + m) and c in cr.fns]
                    if p in targets and len(ct["args"]) >= e[1]:
                        callers.append((q, cb))
            res = None
            if callers:
                why = []
                for q, cb in callers:
                    w = known_atom(q, cb, e[1] - 1, depth + 1)
                    if not w:
                        why = None
                        memo[mk] = None
                        fails[mk] = f"caller {q} ({cr.fns[q].where(cb)}) passes {norm_text(key(Prover(cr.fns[q], cr).ev.operand(cr.fns[q].term(cb)['args'][e[1] - 1], (cb, 'T'))))[:120]}"
                        break
                    why.append(w)
                if why is not None:
                    res = f"every caller ({len(callers)}) passes a known atom"
            memo[mk] = res
            return res
        return None

    for p in reach:
        f = cr.fns[p]
        per = {}
        for b, t in f.calls():
            c = t.get("callee")
            if c not in PANICS_ON_PAIR or b not in f.reachable_blocks():
                continue
            for ai in range(1, 1 + PANICS_ON_PAIR[c]):
                n_calls += 1
                pr = Prover(f, cr)
                nk = norm_text(key(pr.ev.operand(t["args"][ai], (b, "T"))))
                o = per.get((c, nk), 0)
                per[(c, nk)] = o + 1
                why = known_atom(p, b, ai)
                ck.ob("R25e", f"{p}|{c.split('::')[-1]}({nk[:80]})" + (f" #{o}" if o else ""), bool(why),
                      f"{c.split('::')[-1]}() panics on a pair: its argument must be known to be an atom", site=f.where(b),
                      detail=why or {"argument": nk, "failing": [v for k, v in fails.items() if k[0] == p][:3]})
    ck.floor("calls of accessors that panic on a pair", n_calls, 15)
