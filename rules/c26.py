"""C26 — the Python bindings reproduce the Rust core (routing clauses).

Every binding is reduced to a NORMAL FORM of the value it returns on success (lib/inline.py: locals expanded,
`?`/map_err/borrows/closures removed, parameters positional) and compared with the form that says "this is the core
function, called with the caller's arguments, unchanged":

R26a  each #[pyfunction] returns exactly the result of the core function its name denotes, applied to its own
      parameters in order (11 bindings; run_serialized_chia_program = adapt_response(run_program(alloc,
      ChiaDialect::new(from_bits_truncate(flags)), node_from_bytes(program), node_from_bytes(args), max_cost))).
R26b  allocator: LIMIT_HEAP set -> Allocator::new_limited(500000000), clear -> Allocator::new(); every other
      binding uses Allocator::new().
R26c  errors: every error leaving a binding is eval_to_py(err) = ValueError(err.to_string()) (one audited closure:
      deser_2026's friendlier message when the magic prefix is missing); adapt_response returns
      (cost, LazyNode(result)) on success and ValueError((err.to_string(), LazyNode(err.node_ptr()))) on failure.
R26d  LazyNode.pair is (LazyNode(first), LazyNode(rest)) of allocator.sexp(node), LazyNode.atom is the bytes of
      allocator.atom(node); both None for the other kind.
R26e  exported flag constants: m.add(NAME, X) has X == ClvmFlags::NAME (MEMPOOL_MODE likewise).
R26f  Python front end (ast): serde.py routes format k to deser_k / ser_k, forwards strict/max_atom_len exactly to
      the bindings that take them (taken from the Rust signatures) and level to ser_2026; Program.run_with_cost
      passes (bytes(self), bytes(args), max_cost, flags) in this order and re-raises (message, node) unchanged.
"""
import ast
import re
from lib import mir
from lib.inline import Norm, render
from lib.flagregion import flag_tests
from rules.c07 import forward_reach

TRANSPARENT = ("as std::ops::Deref>::deref", "::as_slice", "as std::convert::AsRef<[u8]>>::as_ref", "Bound::<'py, T>::unbind",
               "Py::<T>::into_any", "Bound::<'py, T>::into_any", "std::rc::Rc::<T>::new", "as std::clone::Clone>::clone",
               "std::io::Cursor::<T>::new")


def simp(e):
    """drop value-preserving wrappers; abbreviate the two Python-object constructors"""
    if not isinstance(e, tuple) or not e:
        return e
    k = e[0]
    if k == "call":
        args = tuple(simp(a) for a in e[2])
        c = e[1]
        if any(c.endswith(t) for t in TRANSPARENT) and len(args) == 1:
            return args[0]
        if c.endswith("PyBytes::new") and len(args) == 2:
            return ("call", "pybytes", (args[1],))
        if c.endswith("LazyNode::new") and len(args) == 2:
            return ("call", "lazy", args)
        if c.endswith("PyTuple::new") and len(args) == 2:
            return ("call", "pytuple", (args[1],))
        c = c.replace("clvmr::serde::", "").replace("clvmr::", "").replace("lazy_node::", "").replace("adapt_response::", "")
        return ("call", c, args)
    if k == "agg":
        return ("agg", e[1], tuple(simp(a) for a in e[2]))
    if k == "phi":
        return ("phi", tuple(sorted((simp(x) for x in e[1]), key=render)))
    if k in ("field", "downcast"):
        return (k, simp(e[1]), e[2])
    return e


SPEC = {
    "serialized_length": ("serialized_length_from_bytes($1)", 1),
    "run_serialized_chia_program": (
        "adapt_response($1, ALLOC, run_program(ALLOC, ChiaDialect::new(ClvmFlags::from_bits_truncate($5)), "
        "node_from_bytes(ALLOC, $2), node_from_bytes(ALLOC, $3), $4))", 5),
    "deser_legacy": ("Ok(lazy(ALLOC, node_from_bytes(ALLOC, $1)))", 1),
    "deser_backrefs": ("Ok(lazy(ALLOC, node_from_bytes_backrefs(ALLOC, $1)))", 1),
    "deser_2026": ("Ok(lazy(ALLOC, deserialize_2026(ALLOC, $1, $2, $3)))", 3),
    "deser_auto": ("Ok(lazy(ALLOC, phi(deserialize_2026_body_from_stream(ALLOC, (core::slice::<impl [T]>::strip_prefix($1, MAGIC) as Some).0, $2, $3)"
                   " | node_from_bytes_backrefs(ALLOC, $1))))", 3),
    "ser_legacy": ("Ok(pybytes(node_to_bytes(LazyNode::allocator($2), LazyNode::node($2))))", 2),
    "ser_backrefs": ("Ok(pybytes(node_to_bytes_backrefs(LazyNode::allocator($2), LazyNode::node($2))))", 2),
    "ser_2026": ("Ok(pybytes(serialize_2026(LazyNode::allocator($2), LazyNode::node($2), $3)))", 3),
}
# deserialize_as_tree: the core call and the element conversions are checked piecewise
MAGIC_HEX = "fdff32303236"
CORE_NAMES = ["serialized_length_from_bytes", "run_program", "new", "from_bits_truncate", "node_from_bytes", "node_from_bytes_backrefs",
              "deserialize_2026", "deserialize_2026_body_from_stream", "node_to_bytes", "node_to_bytes_backrefs", "serialize_2026"]


def form(cr, f, want_err=False):
    nm = Norm(cr)
    v = nm.ok_value(f, None)
    s = render(simp(v)).replace(f"b'{MAGIC_HEX}'", "MAGIC")
    return s, nm.mappers


def run(ctx):
    ck = ctx.check
    ctx.prefetch(["wheel", "default"])
    cr = ctx.crate("wheel", "clvm_rs")
    core = ctx.crate("default")
    ck.rule("R26a", "each binding returns the result of the core function it names, applied to its parameters unchanged")
    ck.rule("R26b", "heap limit: LIMIT_HEAP -> new_limited(500000000), otherwise Allocator::new()")
    ck.rule("R26c", "error adaptation: ValueError(err.to_string()) / (message, node) unchanged")
    ck.rule("R26d", "LazyNode atom/pair views are the allocator's")
    ck.rule("R26e", "exported flag constants carry the value of the flag of the same name")
    ck.rule("R26f", "Python front end routes to the same-named binding with the caller's arguments")
    ck.assume("pyo3's generated argument extraction (the __pyfunction_* wrappers) passes Python arguments to the Rust function in "
              "signature order; equality of results then follows from the binding being the core call on unchanged arguments")

    # ------------------------------------------------------------------ R26a
    for name, (want, nargs) in SPEC.items():
        f = cr.fn("api::" + name)
        ck.analysed(f)
        got, mappers = form(cr, f)
        ck.ob("R26a", "api::" + name, got == want and f.nargs == nargs,
              f"{name} == {want}", site=f.where(0), detail={"normal form": got, "parameters": f.nargs})
        bad = [m for _, m in mappers if m != "api::eval_to_py" and not (name == "deser_2026" and m == "closure:api::deser_2026::{closure#0}")]
        nm2 = Norm(cr)
        explicit = [render(nm2.norm(f, x)) if False else render(x) for x in nm2.err_values(f)]
        bad += [x for x in explicit if not x.startswith("api::eval_to_py(")]
        ck.ob("R26c", f"api::{name}|error mapping", not bad and bool(mappers or explicit),
              "every core error is converted by eval_to_py", site=f.where(0), detail=[m for _, m in mappers])
        # nothing else touches core state: the calls into the core are those of the normal form, and only the
        # allocator, a read cursor and closure environments are ever borrowed mutably
        fam = [g for pth, g in sorted(cr.fns.items()) if pth == "api::" + name or pth.startswith("api::" + name + "::{closure")]
        core_calls = sorted((t.get("callee") or "?").split("::")[-1] for g in fam for b, t in g.calls()
                            if (t.get("callee") or "").startswith("clvmr::") and not (t.get("callee") or "").endswith(("ClvmFlags>::contains", "Allocator::new", "Allocator::new_limited")))
        in_form = sorted(x for x in CORE_NAMES for _ in re.findall(r"(?<![A-Za-z0-9_])" + re.escape(x) + r"\(", got))
        muts = sorted({g.local_ty(st["rv"]["ref"][1]["l"]) for g in fam for b in g.reachable_blocks() for st in g.stmts(b)
                       if "ref" in st.get("rv", {}) and st["rv"]["ref"][0] == "mut"
                       and not any(k in g.local_ty(st["rv"]["ref"][1]["l"]) for k in ("clvmr::Allocator", "std::io::Cursor<", "{closure@"))})
        # run_program etc. occur once per use in the form; node_from_bytes(ALLOC, $2) twice in the form = two calls
        ck.ob("R26a", f"api::{name}|nothing else", core_calls == in_form and not muts,
              "the binding calls into the core exactly as its normal form says and mutates nothing but the allocator / a read cursor",
              site=f.where(0), detail={"core calls": core_calls, "in normal form": in_form, "other &mut borrows": muts})
    ck.floor("bindings", len(SPEC), 9)
    # deserialize_as_tree
    f = cr.fn("api::deserialize_as_tree")
    ck.analysed(f)
    got, mappers = form(cr, f)
    ok = got.count("parse_triples($2, $3)") == 2 and "parse_triples($2, $3).0" in got and "parse_triples($2, $3).1" in got and f.nargs == 3 \
        and all(m == "api::eval_to_py" for _, m in mappers)
    ck.ob("R26a", "api::deserialize_as_tree", ok, "deserialize_as_tree returns (triples, hashes) of parse_triples(blob, calculate_tree_hashes)",
          site=f.where(0), detail=got[:300])
    g = cr.fn("api::tuple_for_parsed_triple")
    ck.analysed(g)
    tup = {}
    for b in g.reachable_blocks():
        for st in g.stmts(b):
            rv = st.get("rv", {})
            if "agg" in rv and rv["agg"][0] == "array" and len(rv["agg"][1]) == 3:
                vals = [mir.show(g.expr_op(o)) for o in rv["agg"][1]]
                kind = "Atom" if any("Atom" in v for v in vals) else "Pair"
                tup[kind] = [v.split(".")[-1].rstrip(")").split(" ")[0] for v in vals]
    ck.ob("R26a", "api::tuple_for_parsed_triple", tup == {"Atom": ["start", "end", "atom_offset"], "Pair": ["start", "end", "right_index"]} or
          (set(tup) == {"Atom", "Pair"} and all(len(v) == 3 for v in tup.values()) and _triple_fields_ok(g)),
          "a parsed triple becomes (start, end, atom_offset | right_index)", site=g.where(0), detail=tup)

    # ------------------------------------------------------------------ R26b
    f = cr.fn("api::run_serialized_chia_program")
    ts = [t for t in flag_tests(f) if t["flag"] == "LIMIT_HEAP"]
    ok = False
    det = {}
    if len(ts) == 1:
        t = ts[0]
        setr = forward_reach(f, t["set_edge"]) - forward_reach(f, t["clear_edge"])
        clr = forward_reach(f, t["clear_edge"]) - forward_reach(f, t["set_edge"])

        def allocs(region):
            out = []
            for b in sorted(region):
                tt = f.term(b)
                if tt["k"] == "call" and (tt.get("callee") or "").startswith("clvmr::Allocator::"):
                    out.append((tt["callee"].split("::")[-1], [mir.show(f.expr_op(a)) for a in tt["args"]]))
            return out
        det = {"LIMIT_HEAP set": allocs(setr), "clear": allocs(clr)}
        src = [x for x in mir.walk(f.switch_cond(t["block"])) if x[0] == "call" and x[1].endswith("from_bits_truncate")]
        det["flags tested"] = "from_bits_truncate($5)" if src else "?"
        ok = det["LIMIT_HEAP set"] == [("new_limited", ["500000000"])] and det["clear"] == [("new", [])] and bool(src)
        outside = [b for b, tt in f.calls() if (tt.get("callee") or "").startswith("clvmr::Allocator::new") and b not in setr and b not in clr]
        ok = ok and not outside
    ck.ob("R26b", "api::run_serialized_chia_program|allocator", ok,
          "the allocator is new_limited(500000000) iff the converted flag word contains LIMIT_HEAP, else new()", site=f.where(0), detail=det)
    for name in ("deser_legacy", "deser_backrefs", "deser_2026", "deser_auto"):
        f = cr.fn("api::" + name)
        al = [(tt["callee"].split("::")[-1], len(tt["args"])) for b, tt in f.calls() if (tt.get("callee") or "").startswith("clvmr::Allocator::")]
        ck.ob("R26b", f"api::{name}|allocator", al == [("new", 0)], "deserializers use one unlimited Allocator::new()", site=f.where(0), detail=al)

    # ------------------------------------------------------------------ R26c
    f = cr.fn("api::eval_to_py")
    ck.analysed(f)
    got, _ = form(cr, f)
    ck.ob("R26c", "api::eval_to_py", got == "pyo3::exceptions::PyValueError::new_err(<T as std::string::ToString>::to_string($1))",
          "eval_to_py(err) is ValueError(err.to_string())", site=f.where(0), detail=got)
    c = cr.fn("api::deser_2026::{closure#0}")
    ck.analysed(c)
    sw = [b for b in c.reachable_blocks() if c.term(b)["k"] == "switch" and "starts_with" in mir.show(c.switch_cond(b))]
    ok = False
    det = {}
    if len(sw) == 1:
        be = c.bool_edges(sw[0])
        cond = mir.show(c.switch_cond(sw[0]))
        t_true = c.term(be[0])
        t_false = c.term(be[1])
        det = {"cond": cond, "has prefix": (t_true.get("callee") or "") + "(" + ", ".join(c.unparam(mir.show(c.expr_op(a))) for a in t_true.get("args", [])) + ")",
               "no prefix": (t_false.get("callee") or "")}
        ok = MAGIC_HEX in cond and "arg1.0" in cond and det["has prefix"] == "api::eval_to_py($2)" and det["no prefix"].endswith("PyValueError::new_err")
        # polarity: `!starts_with` -> friendly message; so the TRUE edge of starts_with is eval_to_py
    ck.ob("R26c", "api::deser_2026::{closure#0}", ok,
          "audited closure: when the blob has the magic prefix the core error is passed through eval_to_py; only a missing prefix gets the friendlier text",
          site=c.where(0), detail=det)
    a = cr.fn("adapt_response::adapt_response")
    ck.analysed(a)
    got, _ = form(cr, a)
    ck.ob("R26c", "adapt_response::adapt_response|Ok", got == "Ok(tuple(($3 as Ok).0.0, lazy($2, ($3 as Ok).0.1)))",
          "success: (cost, LazyNode(allocator, result node))", site=a.where(0), detail=got)
    nm = Norm(cr)
    errs = []
    for d in a.defs(0):
        rv = a.def_rvalue(d)
        if "agg" in rv and isinstance(rv["agg"][0], dict) and rv["agg"][0].get("variant") == "Err":
            errs.append(render(simp(nm.norm(a, a.expr_rvalue(rv)))))
    want = ("Err(pyo3::exceptions::PyValueError::new_err(pytuple(array("
            "<pyo3::conversions::std::string::<impl pyo3::IntoPyObject<'py> for std::string::String>::into_pyobject(<T as std::string::ToString>::to_string(($3 as Err).0), $1), "
            "pyo3::Bound::<'py, T>::new($1, lazy($2, error::EvalErr::node_ptr(($3 as Err).0)))))))")
    norm_err = [e.replace("pyo3::conversions::std::string::<impl pyo3::IntoPyObject<'py> for std::string::String>::into_pyobject", "into_pyobject") for e in errs]
    want2 = "Err(pyo3::exceptions::PyValueError::new_err(pytuple(array(into_pyobject(<T as std::string::ToString>::to_string(($3 as Err).0), $1), pyo3::Bound::<'py, T>::new($1, lazy($2, error::EvalErr::node_ptr(($3 as Err).0)))))))"
    ck.ob("R26c", "adapt_response::adapt_response|Err", norm_err == [want2],
          "failure: ValueError((err.to_string(), LazyNode(allocator, err.node_ptr()))) — message first, node second", site=a.where(0), detail=norm_err)

    # ------------------------------------------------------------------ R26d
    p = cr.fn("lazy_node::LazyNode::pair")
    ck.analysed(p)
    got, _ = form(cr, p)
    sx = "Allocator::sexp($1.allocator, $1.node)"
    want = f"phi(Ok(None()) | Ok(Some(pytuple(array(lazy($1.allocator, ({sx} as Pair).0), lazy($1.allocator, ({sx} as Pair).1))))))"
    ck.ob("R26d", "lazy_node::LazyNode::pair", got == want, "pair == (LazyNode(first), LazyNode(rest)) sharing the allocator, None for atoms",
          site=p.where(0), detail=got)
    sws = [b for b in p.reachable_blocks() if p.discr_variants(b) and "Pair" in p.discr_variants(b).values()]
    okp = False
    if sws:
        dv = p.discr_variants(sws[0])
        edges = {dv[v]: tgt for tgt, v in p.succ(sws[0]) if v != "otherwise" and v in dv}
        okp = "Pair" in edges and any((tt.get("callee") or "").endswith("LazyNode::new") for b in forward_reach(p, edges["Pair"]) for tt in [p.term(b)] if tt["k"] == "call")
    ck.ob("R26d", "lazy_node::LazyNode::pair|arm", okp, "the tuple is built in the Pair arm of the match", site=p.where(0))
    at = cr.fn("lazy_node::LazyNode::atom")
    ck.analysed(at)
    got, _ = form(cr, at)
    want = "phi(None() | Some(pybytes(Allocator::atom($1.allocator, $1.node))))"
    ck.ob("R26d", "lazy_node::LazyNode::atom", got == want, "atom == bytes of allocator.atom(node), None for pairs", site=at.where(0), detail=got)
    sws = [b for b in at.reachable_blocks() if at.discr_variants(b) and "Atom" in at.discr_variants(b).values()]
    oka = False
    if sws:
        dv = at.discr_variants(sws[0])
        edges = {dv[v]: tgt for tgt, v in at.succ(sws[0]) if v != "otherwise" and v in dv}
        oka = "Atom" in edges and any((tt.get("callee") or "").endswith("Allocator::atom") for b in forward_reach(at, edges["Atom"]) for tt in [at.term(b)] if tt["k"] == "call")
    ck.ob("R26d", "lazy_node::LazyNode::atom|arm", oka, "the bytes are read in the Atom arm of the match (Allocator::atom panics on pairs)", site=at.where(0))
    ln = cr.fn("lazy_node::LazyNode::new")
    got, _ = form(cr, ln)
    ck.ob("R26d", "lazy_node::LazyNode::new", got == "LazyNode($1, $2)", "LazyNode::new(a, n) stores (a, n)", site=ln.where(0), detail=got)
    for acc, want in (("allocator", "$1.allocator"), ("node", "$1.node")):
        g = cr.fn("lazy_node::LazyNode::" + acc)
        got, _ = form(cr, g)
        ck.ob("R26d", "lazy_node::LazyNode::" + acc, got == want, f"LazyNode::{acc}() returns the stored {acc}", site=g.where(0), detail=got)

    # ------------------------------------------------------------------ R26e
    m = cr.fn("api::clvm_rs")
    ck.analysed(m)
    adds = [(b, t) for b, t in m.calls() if (t.get("callee") or "").endswith("PyModuleMethods<'py>>::add")]
    n = 0
    for b, t in adds:
        nm_ = [x[1] for x in mir.walk(m.expr_op(t["args"][1])) if x[0] == "str"]
        val = [x for x in mir.walk(m.expr_op(t["args"][2])) if x[0] == "bytes"]
        if len(nm_) != 1 or len(val) != 1:
            ck.ob("R26e", f"m.add #{n}", False, "constant export has a literal name and a constant value", site=m.where(b))
            continue
        n += 1
        name = nm_[0]
        v = int.from_bytes(bytes.fromhex(val[0][1]), "little")
        want = core.const_val("chia_dialect::" + name) if name == "MEMPOOL_MODE" else core.const_val("chia_dialect::ClvmFlags::" + name)
        ck.ob("R26e", "export " + name, want is not None and v == want, f"Python constant {name} == the Rust flag of the same name",
              site=m.where(b), detail={"exported": hex(v), "rust": hex(want) if want is not None else None})
    ck.floor("exported constants", n, 7)

    # ------------------------------------------------------------------ R26f
    src = ctx.read("wheel/python/clvm_rs/serde.py")
    tree = ast.parse(src)
    tables = {}
    funcs = {}
    imported = set()
    for node in tree.body:
        if isinstance(node, ast.ImportFrom) and node.module == "clvm_rs" and node.level == 1:
            imported |= {a.name for a in node.names if a.asname is None}
        if isinstance(node, ast.Assign) and len(node.targets) == 1 and isinstance(node.targets[0], ast.Name) and isinstance(node.value, ast.Dict):
            try:
                tables[node.targets[0].id] = {k.value: v.id for k, v in zip(node.value.keys, node.value.values)}
            except AttributeError:
                tables[node.targets[0].id] = None
        if isinstance(node, ast.FunctionDef):
            funcs[node.name] = node
    for tname, prefix, want_keys in (("_DESERIALIZERS", "deser_", {"legacy", "backrefs", "2026", "auto"}), ("_SERIALIZERS", "ser_", {"legacy", "backrefs", "2026"})):
        t = tables.get(tname)
        ok = isinstance(t, dict) and set(t) == want_keys and all(v == prefix + k and v in imported for k, v in t.items())
        ck.ob("R26f", "serde.py|" + tname, ok, f"format k is routed to the native binding {prefix}k", site="wheel/python/clvm_rs/serde.py", detail=t)
    # which bindings take extra parameters (from the Rust signatures)
    takes_limits = sorted(k for k in ("legacy", "backrefs", "2026", "auto") if cr.fn("api::deser_" + k).nargs == 3)
    takes_level = sorted(k for k in ("legacy", "backrefs", "2026") if cr.fn("api::ser_" + k).nargs == 3)

    def dispatch(fn, table, first):
        """-> (formats that get keyword arguments, keywords forwarded, ok-shape)"""
        d = funcs.get(fn)
        if d is None:
            raise mir.AnchorMissing(f"serde.py: {fn} not found")
        fmts, kws, plain = None, set(), False
        lookup = False
        for st in ast.walk(d):
            if isinstance(st, ast.Call) and isinstance(st.func, ast.Attribute) and st.func.attr == "get" and isinstance(st.func.value, ast.Name) \
                    and st.func.value.id == table and len(st.args) == 1 and isinstance(st.args[0], ast.Name) and st.args[0].id == "fmt":
                lookup = True
        for st in d.body:
            if isinstance(st, ast.If) and isinstance(st.test, ast.Compare) and isinstance(st.test.left, ast.Name) and st.test.left.id == "fmt":
                op = st.test.ops[0]
                cmpv = st.test.comparators[0]
                if isinstance(op, ast.In) and isinstance(cmpv, (ast.Tuple, ast.List, ast.Set)):
                    fmts = sorted(e.value for e in cmpv.elts if isinstance(e, ast.Constant))
                elif isinstance(op, ast.Eq) and isinstance(cmpv, ast.Constant):
                    fmts = [cmpv.value]
                else:
                    continue
                # keywords forwarded inside this branch
                for sub in ast.walk(st):
                    if isinstance(sub, ast.Call) and isinstance(sub.func, ast.Name) and sub.func.id == "fn":
                        for kw in sub.keywords:
                            if kw.arg is not None and isinstance(kw.value, ast.Name) and kw.value.id == kw.arg:
                                kws.add(kw.arg)
                            elif kw.arg is None and isinstance(kw.value, ast.Name):
                                # **kwargs: collect the keys stored into it with the same-named value
                                kn = kw.value.id
                                for s2 in ast.walk(st):
                                    if isinstance(s2, (ast.Assign, ast.AnnAssign)):
                                        tg = s2.targets[0] if isinstance(s2, ast.Assign) else s2.target
                                        if isinstance(tg, ast.Name) and tg.id == kn and isinstance(s2.value, ast.Dict):
                                            for k, v in zip(s2.value.keys, s2.value.values):
                                                if isinstance(k, ast.Constant) and isinstance(v, ast.Name) and v.id == k.value:
                                                    kws.add(k.value)
                                        if isinstance(tg, ast.Subscript) and isinstance(tg.value, ast.Name) and tg.value.id == kn \
                                                and isinstance(tg.slice, ast.Constant) and isinstance(s2.value, ast.Name) and s2.value.id == tg.slice.value:
                                            kws.add(tg.slice.value)
                        if not (len(sub.args) == 1 and isinstance(sub.args[0], ast.Name) and sub.args[0].id == first):
                            kws.add("?positional")
            if isinstance(st, ast.Return) and isinstance(st.value, ast.Call) and isinstance(st.value.func, ast.Name) and st.value.func.id == "fn" \
                    and len(st.value.args) == 1 and isinstance(st.value.args[0], ast.Name) and st.value.args[0].id == first and not st.value.keywords:
                plain = True
        return fmts, kws, plain and lookup

    fmts, kws, shape = dispatch("deserialize", "_DESERIALIZERS", "blob")
    ck.ob("R26f", "serde.py|deserialize", shape and fmts == takes_limits and kws == {"strict", "max_atom_len"},
          f"deserialize forwards strict and max_atom_len to exactly the bindings that take them ({takes_limits}) and calls the others with the blob only",
          site="wheel/python/clvm_rs/serde.py", detail={"formats given keywords": fmts, "keywords": sorted(kws), "rust bindings with limits": takes_limits})
    fmts, kws, shape = dispatch("serialize", "_SERIALIZERS", "node")
    ck.ob("R26f", "serde.py|serialize", shape and fmts == takes_level and kws == {"level"},
          f"serialize forwards level to exactly the bindings that take it ({takes_level})", site="wheel/python/clvm_rs/serde.py",
          detail={"formats given keywords": fmts, "keywords": sorted(kws), "rust bindings with level": takes_level})
    # a keyword is left out only when the caller did not give it: the guard of a conditional forwarding is `name is not None`,
    # never the truth value of the argument (0 is a legitimate limit and must reach the binding)
    guards = []
    for fn_ in ("deserialize", "serialize"):
        for st in ast.walk(funcs[fn_]):
            if not isinstance(st, ast.If):
                continue
            stored = [tg.slice.value for s2 in st.body if isinstance(s2, ast.Assign) for tg in s2.targets
                      if isinstance(tg, ast.Subscript) and isinstance(tg.slice, ast.Constant) and isinstance(s2.value, ast.Name) and s2.value.id == tg.slice.value]
            for name_ in stored:
                t_ = st.test
                okg = isinstance(t_, ast.Compare) and isinstance(t_.left, ast.Name) and t_.left.id == name_ and len(t_.ops) == 1 \
                    and isinstance(t_.ops[0], ast.IsNot) and isinstance(t_.comparators[0], ast.Constant) and t_.comparators[0].value is None
                guards.append((fn_, name_, ast.unparse(t_), okg))
    ck.ob("R26f", "serde.py|optional keywords", all(g[3] for g in guards),
          "an optional keyword is forwarded whenever the caller gave it (`is not None`), not only when it is truthy", site="wheel/python/clvm_rs/serde.py",
          detail=[list(g[:3]) for g in guards])
    # defaults of the Python wrapper that change decoding: strict must default to True like the binding's
    d = funcs["deserialize"]
    kwd = {a.arg: (dv.value if isinstance(dv, ast.Constant) else "?") for a, dv in zip(d.args.kwonlyargs, d.args.kw_defaults) if dv is not None}
    ck.ob("R26f", "serde.py|deserialize defaults", kwd == {"max_atom_len": None, "strict": True},
          "defaults: strict=True (the binding's default), max_atom_len=None (binding default applies)", site="wheel/python/clvm_rs/serde.py", detail=kwd)

    # Program.run_with_cost
    psrc = ctx.read("wheel/python/clvm_rs/program.py")
    ptree = ast.parse(psrc)
    rw = None
    for node in ast.walk(ptree):
        if isinstance(node, ast.FunctionDef) and node.name == "run_with_cost":
            rw = node
    if rw is None:
        raise mir.AnchorMissing("program.py: run_with_cost not found")
    assigns = {}
    call = None
    handler = None
    for node in ast.walk(rw):
        if isinstance(node, ast.Assign) and len(node.targets) == 1 and isinstance(node.targets[0], ast.Name):
            assigns[node.targets[0].id] = ast.unparse(node.value)
        if isinstance(node, ast.Call) and isinstance(node.func, ast.Name) and node.func.id == "run_serialized_chia_program":
            call = [ast.unparse(a) for a in node.args] + [f"{k.arg}={ast.unparse(k.value)}" for k in node.keywords]
        if isinstance(node, ast.ExceptHandler):
            handler = node
    resolved = [assigns.get(a, a) for a in (call or [])]
    ck.ob("R26f", "program.py|run_with_cost call", resolved == ["bytes(self)", "bytes(self.to(args))", "max_cost", "flags"],
          "run_with_cost calls the binding with (bytes(self), bytes(self.to(args)), max_cost, flags)", site="wheel/python/clvm_rs/program.py", detail=resolved)
    hs = None
    if handler is not None and handler.body and isinstance(handler.body[0], ast.Raise):
        hs = (ast.unparse(handler.type), ast.unparse(handler.body[0].exc))
    ck.ob("R26f", "program.py|run_with_cost error", hs is not None and hs[0] == "ValueError" and hs[1] == f"EvalError({handler.name}.args[0], self.wrap({handler.name}.args[1]))",
          "the (message, node) pair of the binding's ValueError is re-raised unchanged as EvalError(message, wrap(node))", site="wheel/python/clvm_rs/program.py", detail=hs)
    ret = [ast.unparse(n.value) for n in ast.walk(rw) if isinstance(n, ast.Return)]
    ck.ob("R26f", "program.py|run_with_cost result", ret == ["(cost, r)"] and assigns.get("r") == "self.wrap(lazy_node)",
          "the result is (cost, wrap(result node))", site="wheel/python/clvm_rs/program.py", detail={"return": ret, "r": assigns.get("r")})


def _triple_fields_ok(g):
    return False
