"""C27 — clvm_tree_to_lazy_node preserves any CLVM object.

R27 (T8 ownership/liveness)  The conversion memoises on object ADDRESS (Bound::as_ptr exposed as
usize, a PointerExposeProvenance cast in MIR). An address identifies an object only while the
object is alive, so: for every object whose address is exposed, on every path from the cast to
the next loop iteration (or to the code after the loop) the object — or a strong reference cloned
from it — must have been moved into an owner that outlives the loop (a Vec declared outside it:
the keep-alive list, or the work stack whose popped objects are subject to the same rule), unless
that path is taken only when the address was ALREADY a key of the map (then the object is the
live object that key belongs to).
"""
from lib import mir
from lib.mir import strip, show, walk

FN = "api::clvm_tree_to_lazy_node"


def locals_in(e):
    return {x[2] for x in walk(e) if x[0] in ("var", "named")}


def root_bool(f, op):
    """resolve a switch operand to (local, negated) of a named bool local, through copies and Not"""
    neg = False
    e = f.expr_op(op, deep=False)
    while True:
        e = strip(e) if e[0] != "named" else e
        if e[0] == "un" and e[1] == "Not":
            neg = not neg
            e = e[2]
            continue
        if e[0] in ("var", "named"):
            return e[2], neg
        return None, neg


def reach_assuming(f, start, blocked, assume):
    seen = set()
    work = [start]
    while work:
        b = work.pop()
        if b in seen or b in blocked:
            continue
        seen.add(b)
        t = f.term(b)
        succ = f.succ(b)
        if t["k"] == "switch" and t.get("ty") == "bool":
            l, neg = root_bool(f, t["on"])
            if l in assume:
                val = assume[l] != neg
                tt, ft = f.bool_edges(b)
                succ = [(tt if val else ft, None)]
        for s, _ in succ:
            if s not in seen and s not in blocked:
                work.append(s)
    return seen


def run(ctx):
    ck = ctx.check
    cr = ctx.crate("wheel")
    ck.rule("R27", "every object whose address is exposed as a map key is kept alive (moved/cloned into an owner outliving the loop) on every path that can record or reuse the address")
    f = cr.fn(FN)
    ck.analysed(f)
    loops = f.loops()
    if not loops:
        raise mir.AnchorMissing(f"{FN}: work loop not found")
    main_hdr = max(loops, key=lambda h: len(loops[h]))
    body = loops[main_hdr]

    # 1. address casts
    casts = []
    for b in sorted(f.reachable_blocks()):
        for i, st in enumerate(f.stmts(b)):
            rv = st.get("rv", {})
            if "cast" in rv and rv["cast"][0].startswith("PointerExposeProvenance"):
                src = strip(f.expr_op(rv["cast"][1], deep=False))
                obj = None
                if src[0] == "call" and src[1].endswith("::as_ptr") and src[2]:
                    a = strip(src[2][0])
                    if a[0] == "ref":
                        a = strip(a[2])
                    if a[0] in ("var", "named"):
                        obj = a[2]
                casts.append(dict(b=b, i=i, dst=st["d"]["l"], obj=obj, line=st["ln"], src=show(src)))
    ck.floor("address-exposing casts", len(casts), 4)

    # 2. address-keyed maps: HashMap::insert whose key is an exposed address (directly or via a
    #    work-item field of the same integer type)
    addr_locals = {c["dst"] for c in casts}
    maps = set()
    inserts = []
    for b, t in f.calls():
        c = t.get("callee") or ""
        if c.endswith("HashMap::<K, V, S, A>::insert") and t["args"]:
            m = strip(f.expr_op(t["args"][0], deep=False))
            key = f.expr_op(t["args"][1], deep=False)
            ml = locals_in(m)
            kty = None
            pl = mir.op_place(t["args"][1])
            if pl is not None:
                kty = f.local_ty(pl["l"])
            if kty == "usize":
                maps |= ml
                inserts.append((b, show(key)))
    ck.ob("R27", f"{FN}|address-keyed map", len(maps) == 1 and len(inserts) >= 3,
          "exactly one map keyed by address is used, with its insert sites found", site=f.where(0),
          detail={"maps": [f.local_name(m) for m in maps], "inserts": inserts})
    if not maps:
        return
    M = list(maps)[0]

    # 3. outer owners: Vec locals defined outside the loop that are only pushed to / popped from
    def outer(l):
        ds = f.defs(l)
        return bool(ds) and all(d[0] not in body for d in ds)

    # keep sites per object local
    def keep_blocks(obj):
        out = {}
        for b, t in f.calls():
            c = t.get("callee") or ""
            if not c.endswith("Vec::<T, A>::push") or len(t["args"]) < 2:
                continue
            k = strip(f.expr_op(t["args"][0], deep=False))
            kl = [l for l in locals_in(k) if outer(l) and "std::vec::Vec<" in f.local_ty(l)]
            if not kl:
                continue
            v = f.expr_op(t["args"][1], deep=False)
            # the pushed value is the object itself (moved), a clone of it, or an aggregate holding it
            holds = False
            for x in walk(v):
                if x[0] in ("var", "named") and x[2] == obj:
                    holds = True
            if holds:
                out[b] = f"{f.local_name(kl[0])}.push({show(v)})"
        # ... or the initial contents of such an owner (vec![WorkItem::Visit(obj)])
        for l in range(len(f.locals)):
            if f.local_name(l) and "std::vec::Vec<" in f.local_ty(l) and outer(l):
                for db, di in f.defs(l):
                    e = f.expr_rvalue(f.def_rvalue((db, di)), deep=True)
                    if any(x[0] in ("var", "named") and x[2] == obj for x in walk(e)):
                        out[db] = f"{f.local_name(l)} = {show(e)[:80]}"
                    # vec![..] lowers to: box = new_uninit(); (*box).. = [elems]; vec = into_vec(box)
                    if di == "T" and "into_vec" in (f.term(db).get("callee") or ""):
                        for b2 in f.dominators(db):
                            for st in f.stmts(b2):
                                rv = st.get("rv", {})
                                if "agg" in rv and rv["agg"][0] == "array" and st["d"]["p"]:
                                    e2 = f.expr_rvalue(rv, deep=False)
                                    if any(x[0] in ("var", "named") and x[2] == obj for x in walk(e2)):
                                        out[b2] = f"{f.local_name(l)} = vec!{show(e2)[5:]}"
        return out

    # 4. done-checks: contains_key(&M, &addr) for each address local
    def done_info(addr):
        """returns (blocked_targets, assume) for paths on which the address was already a key"""
        blocked, assume = set(), {}
        for b, t in f.calls():
            c = t.get("callee") or ""
            if not c.endswith("::contains_key") or len(t["args"]) < 2:
                continue
            m = strip(f.expr_op(t["args"][0], deep=False))
            k = strip(f.expr_op(t["args"][1], deep=False))
            if M not in locals_in(m) or addr not in locals_in(k):
                continue
            dst = t["dst"]["l"]
            if f.local_name(dst):
                assume[dst] = False  # stored bool: explore only the "not yet a key" specialisation
            else:
                nb = t["target"]
                be = f.bool_edges(nb)
                if be:
                    blocked.add(be[0])
        return blocked, assume

    for c in casts:
        obj = c["obj"]
        name = f.local_name(obj) if obj is not None else None
        key = f"{FN}|{name or c['src']}"
        site = f"{f.file}:{c['line']}"
        if obj is None:
            ck.ob("R27", key, False, "address cast whose source object could not be identified", site=site, detail=c["src"])
            continue
        keeps = keep_blocks(obj)
        blocked, assume = done_info(c["dst"])
        in_loop = c["b"] in body
        # targets: next iteration (loop header) for casts inside the loop; entering the loop for casts before it
        reach = reach_assuming(f, c["b"], set(keeps) | blocked, assume)
        # remove the start block's own membership problem: if the cast block is the header itself
        bad = False
        witness = None
        if in_loop:
            # a back edge to the header reachable without passing a keep site
            for b in reach:
                if b in body and main_hdr in f.succ_blocks(b) and f.dominates(main_hdr, b):
                    bad = True
                    witness = b
                    break
            # or leaving the loop towards a successful return
            if not bad:
                for b in reach:
                    if b not in body and not f.is_error_block(b) and "OK" in "".join(f.status().get(b, [])) \
                            and any(p in body for p, _ in f.pred(b)) and not f.diverges(b):
                        # leaving through the loop exit (stack empty) is only possible from the header
                        pass
        else:
            bad = main_hdr in reach
            witness = main_hdr
        # the object must not simply be dropped: report the drop that ends its life
        drops = [f.where(b) for b in reach if f.term(b)["k"] == "drop" and f.term(b)["place"]["l"] == obj and not f.term(b)["place"]["p"]]
        ck.ob("R27", key, not bad,
              f"object `{name}` (address exposed as `{f.local_name(c['dst'])}`) is kept alive until the map is done",
              site=site,
              detail=({"kept_by": sorted(set(keeps.values())), "already-a-key paths exempt": bool(blocked or assume)} if not bad else
                      {"missing": f"a path from the address cast reaches the next loop iteration without moving `{name}` (or a clone) into an owner that outlives the loop",
                       "object_dropped_at": drops[:3], "keep_sites_found": sorted(set(keeps.values())),
                       "why": "the address stays in the identity map after the object is freed; a fresh child object may be allocated at the same address and be mistaken for it"}))

    # 5. the keep-alive owner never shrinks
    for b, t in f.calls():
        c = t.get("callee") or ""
        m = c.split("::")[-1]
        if m in ("clear", "truncate", "drain", "pop", "remove", "swap_remove") and t["args"]:
            k = strip(f.expr_op(t["args"][0], deep=False))
            for l in locals_in(k):
                if outer(l) and "pyo3::Bound<" in f.local_ty(l) and "WorkItem" not in f.local_ty(l):
                    ck.ob("R27", f"{FN}|{f.local_name(l)}.{m}", False, "the keep-alive list must not release objects before the map is done",
                          site=f.where(b))
