"""C27 — clvm_tree_to_lazy_node preserves any CLVM object.

R27 (T8 ownership/liveness)  The conversion memoises on object ADDRESS (Bound::as_ptr exposed as
usize, a PointerExposeProvenance cast in MIR). An address identifies an object only while the
object is alive, so: for every object whose address is exposed, on every path from the cast to
the next loop iteration (or to the code after the loop) the object — or a strong reference cloned
from it — must have been moved into an owner that outlives the loop (a Vec declared outside it:
the keep-alive list, or the work stack whose popped objects are subject to the same rule), unless
that path is taken only when the address was ALREADY a key of the map (then the object is the
live object that key belongs to).
"""
from lib import mir
from lib.mir import strip, show, walk

FN = "api::clvm_tree_to_lazy_node"


def locals_in(e):
    return {x[2] for x in walk(e) if x[0] in ("var", "named")}


def root_bool(f, op):
    """resolve a switch operand to (local, negated) of a named bool local, through copies and Not"""
    neg = False
    e = f.expr_op(op, deep=False)
    while True:
        e = strip(e) if e[0] != "named" else e
        if e[0] == "un" and e[1] == "Not":
            neg = not neg
            e = e[2]
            continue
        if e[0] in ("var", "named"):
            return e[2], neg
        return None, neg


def reach_assuming(f, start, blocked, assume):
    seen = set()
    work = [start]
    while work:
        b = work.pop()
        if b in seen or b in blocked:
            continue
        seen.add(b)
        t = f.term(b)
        succ = f.succ(b)
        if t["k"] == "switch" and t.get("ty") == "bool":
            l, neg = root_bool(f, t["on"])
            if l in assume:
                val = assume[l] != neg
                tt, ft = f.bool_edges(b)
                succ = [(tt if val else ft, None)]
        for s, _ in succ:
            if s not in seen and s not in blocked:
                work.append(s)
    return seen


def run(ctx):
    ck = ctx.check
    cr = ctx.crate("wheel")
    ck.rule("R27", "every object whose address is exposed as a map key is kept alive (moved/cloned into an owner outliving the loop) on every path that can record or reuse the address")
    f = cr.fn(FN)
    ck.analysed(f)
    loops = f.loops()
    if not loops:
        raise mir.AnchorMissing(f"{FN}: work loop not found")
    main_hdr = max(loops, key=lambda h: len(loops[h]))
    body = loops[main_hdr]

    # 1. address casts
    casts = []
    for b in sorted(f.reachable_blocks()):
        for i, st in enumerate(f.stmts(b)):
            rv = st.get("rv", {})
            if "cast" in rv and rv["cast"][0].startswith("PointerExposeProvenance"):
                src = strip(f.expr_op(rv["cast"][1], deep=False))
                obj = None
                if src[0] == "call" and src[1].endswith("::as_ptr") and src[2]:
                    a = strip(src[2][0])
                    if a[0] == "ref":
                        a = strip(a[2])
                    if a[0] in ("var", "named"):
                        obj = a[2]
                casts.append(dict(b=b, i=i, dst=st["d"]["l"], obj=obj, line=st["ln"], src=show(src)))
    ck.floor("address-exposing casts", len(casts), 3)

    # 2. address-keyed maps: HashMap::insert whose key is an exposed address (directly or via a
    #    work-item field of the same integer type)
    addr_locals = {c["dst"] for c in casts}
    maps = set()
    inserts = []
    for b, t in f.calls():
        c = t.get("callee") or ""
        if c.endswith("HashMap::<K, V, S, A>::insert") and t["args"]:
            m = strip(f.expr_op(t["args"][0], deep=False))
            key = f.expr_op(t["args"][1], deep=False)
            ml = locals_in(m)
            kty = None
            pl = mir.op_place(t["args"][1])
            if pl is not None:
                kty = f.local_ty(pl["l"])
            if kty == "usize":
                maps |= ml
                inserts.append((b, show(key)))
    ck.ob("R27", f"{FN}|address-keyed map", len(maps) == 1 and len(inserts) >= 3,
          "exactly one map keyed by address is used, with its insert sites found", site=f.where(0),
          detail={"maps": [f.local_name(m) for m in maps], "inserts": inserts})
    if not maps:
        return
    M = list(maps)[0]

    # 3. outer owners: Vec locals defined outside the loop that are only pushed to / popped from
    def outer(l):
        ds = f.defs(l)
        return bool(ds) and all(d[0] not in body for d in ds)

    # keep sites per object local
    def keep_blocks(obj):
        out = {}
        for b, t in f.calls():
            c = t.get("callee") or ""
            if not c.endswith("Vec::<T, A>::push") or len(t["args"]) < 2:
                continue
            k = strip(f.expr_op(t["args"][0], deep=False))
            kl = [l for l in locals_in(k) if outer(l) and "std::vec::Vec<" in f.local_ty(l)]
            if not kl:
                continue
            v = f.expr_op(t["args"][1], deep=False)
            # the pushed value is the object itself (moved), a clone of it, or an aggregate holding it
            holds = False
            for x in walk(v):
                if x[0] in ("var", "named") and x[2] == obj:
                    holds = True
            if holds:
                out[b] = f"{f.local_name(kl[0])}.push({show(v)})"
        # ... or the initial contents of such an owner (vec![WorkItem::Visit(obj)])
        for l in range(len(f.locals)):
            if f.local_name(l) and "std::vec::Vec<" in f.local_ty(l) and outer(l):
                for db, di in f.defs(l):
                    e = f.expr_rvalue(f.def_rvalue((db, di)), deep=True)
                    if any(x[0] in ("var", "named") and x[2] == obj for x in walk(e)):
                        out[db] = f"{f.local_name(l)} = {show(e)[:80]}"
                    # vec![..] lowers to: box = new_uninit(); (*box).. = [elems]; vec = into_vec(box)
                    if di == "T" and "into_vec" in (f.term(db).get("callee") or ""):
                        for b2 in f.dominators(db):
                            for st in f.stmts(b2):
                                rv = st.get("rv", {})
                                if "agg" in rv and rv["agg"][0] == "array" and st["d"]["p"]:
                                    e2 = f.expr_rvalue(rv, deep=False)
                                    if any(x[0] in ("var", "named") and x[2] == obj for x in walk(e2)):
                                        out[b2] = f"{f.local_name(l)} = vec!{show(e2)[5:]}"
        return out

    # 4. done-checks: contains_key(&M, &addr) for each address local
    def done_info(addr):
        """returns (blocked_targets, assume) for paths on which the address was already a key"""
        blocked, assume = set(), {}
        for b, t in f.calls():
            c = t.get("callee") or ""
            if not c.endswith("::contains_key") or len(t["args"]) < 2:
                continue
            m = strip(f.expr_op(t["args"][0], deep=False))
            k = strip(f.expr_op(t["args"][1], deep=False))
            if M not in locals_in(m) or addr not in locals_in(k):
                continue
            dst = t["dst"]["l"]
            if f.local_name(dst):
                assume[dst] = False  # stored bool: explore only the "not yet a key" specialisation
            else:
                nb = t["target"]
                be = f.bool_edges(nb)
                if be:
                    blocked.add(be[0])
        return blocked, assume

    for c in casts:
        obj = c["obj"]
        name = f.local_name(obj) if obj is not None else None
        key = f"{FN}|{name or c['src']}"
        site = f"{f.file}:{c['line']}"
        if obj is None:
            ck.ob("R27", key, False, "address cast whose source object could not be identified", site=site, detail=c["src"])
            continue
        keeps = keep_blocks(obj)
        blocked, assume = done_info(c["dst"])
        in_loop = c["b"] in body
        # targets: next iteration (loop header) for casts inside the loop; entering the loop for casts before it
        reach = reach_assuming(f, c["b"], set(keeps) | blocked, assume)
        # remove the start block's own membership problem: if the cast block is the header itself
        bad = False
        witness = None
        if in_loop:
            # a back edge to the header reachable without passing a keep site
            for b in reach:
                if b in body and main_hdr in f.succ_blocks(b) and f.dominates(main_hdr, b):
                    bad = True
                    witness = b
                    break
            # or leaving the loop towards a successful return
            if not bad:
                for b in reach:
                    if b not in body and not f.is_error_block(b) and "OK" in "".join(f.status().get(b, [])) \
                            and any(p in body for p, _ in f.pred(b)) and not f.diverges(b):
                        # leaving through the loop exit (stack empty) is only possible from the header
                        pass
        else:
            bad = main_hdr in reach
            witness = main_hdr
        # the object must not simply be dropped: report the drop that ends its life
        drops = [f.where(b) for b in reach if f.term(b)["k"] == "drop" and f.term(b)["place"]["l"] == obj and not f.term(b)["place"]["p"]]
        ck.ob("R27", key, not bad,
              f"object `{name}` (address exposed as `{f.local_name(c['dst'])}`) is kept alive until the map is done",
              site=site,
              detail=({"kept_by": sorted(set(keeps.values())), "already-a-key paths exempt": bool(blocked or assume)} if not bad else
                      {"missing": f"a path from the address cast reaches the next loop iteration without moving `{name}` (or a clone) into an owner that outlives the loop",
                       "object_dropped_at": drops[:3], "keep_sites_found": sorted(set(keeps.values())),
                       "why": "the address stays in the identity map after the object is freed; a fresh child object may be allocated at the same address and be mistaken for it"}))

    # 5. the keep-alive owner never shrinks
    for b, t in f.calls():
        c = t.get("callee") or ""
        m = c.split("::")[-1]
        if m in ("clear", "truncate", "drain", "pop", "remove", "swap_remove") and t["args"]:
            k = strip(f.expr_op(t["args"][0], deep=False))
            for l in locals_in(k):
                if outer(l) and "pyo3::Bound<" in f.local_ty(l) and "WorkItem" not in f.local_ty(l):
                    ck.ob("R27", f"{FN}|{f.local_name(l)}.{m}", False, "the keep-alive list must not release objects before the map is done",
                          site=f.where(b))


# ------------------------------------------------------------------------------------------------- R27b
def _abbr(s):
    """abbreviate the recurring sub-expressions of the conversion loop"""
    OBJ = "((::pop(&mut stack) as Some).0 as Visit).0"
    s = s.replace(OBJ, "OBJ")
    PAIR = '((Try>::branch(PyAnyMethods>::extract(&(Try>::branch(PyAnyMethods>::getattr(&OBJ, "pair")) as Continue).0)) as Continue).0 as Some).0'
    ATOM = '((Try>::branch(PyAnyMethods>::extract(&(Try>::branch(PyAnyMethods>::getattr(&OBJ, "atom")) as Continue).0)) as Continue).0 as Some).0'
    s = s.replace(PAIR + ".0", "LEFT").replace(PAIR + ".1", "RIGHT").replace(PAIR, "PAIR").replace(ATOM, "BYTES")
    s = s.replace("((::pop(&mut stack) as Some).0 as BuildPair)", "BP")
    for x in ("OBJ", "LEFT", "RIGHT"):
        s = s.replace(f"(::as_ptr(&{x}) as usize)", f"ID({x})")
    import re
    s = re.sub(r"\*Index>::index\(&identity_map, &(ID\(\w+\)|BP\.\w+)\)", r"IM[\1]", s)
    return s


def _expand_bools(f, e):
    """expand named bool locals (left_done / right_done) to their defining expressions"""
    if isinstance(e, tuple):
        if e and e[0] == "named" and f.local_ty(e[2]) == "bool":
            return _expand_bools(f, e[3])
        return tuple(_expand_bools(f, x) for x in e)
    return e


def structure(ctx, ck, cr):
    ck.rule("R27b", "the converted node of an object is built from ITS OWN atom bytes / the converted nodes of ITS OWN left and right children, in this order, "
                    "is de-duplicated under exactly that key, and is recorded under the object's own address")
    f = cr.fn(FN)

    # role names by type, so that renaming a local is not reported
    ROLE = (("HashMap<usize, clvmr::NodePtr", "identity_map"), ("HashMap<std::vec::Vec<u8>, clvmr::NodePtr", "atom_map"),
            ("HashMap<(clvmr::NodePtr, clvmr::NodePtr), clvmr::NodePtr", "pair_map"), ("Vec<api::clvm_tree_to_lazy_node::WorkItem", "stack"),
            ("clvmr::Allocator", "allocator"))
    ren = {}
    for l in range(1, len(f.locals)):
        nm = f.local_name(l)
        if not nm:
            continue
        ty = f.local_ty(l)
        for pat, role in ROLE:
            if ty.startswith("std::collections::" + pat) or ty.startswith("std::vec::" + pat) or ty == pat or ty.startswith(pat):
                ren[nm] = role
        if l == 1:
            ren[nm] = "obj"
    import re as _re

    def canon(sx):
        for nm, role in ren.items():
            if nm != role:
                sx = _re.sub(r"(?<![A-Za-z0-9_])" + _re.escape(nm) + r"(?![A-Za-z0-9_])", role, sx)
        return sx

    def args(t):
        return [_abbr(canon(show(f.expr_op(a)))) for a in t["args"]]
    calls = {}
    for b, t in f.calls():
        c = t.get("callee") or ""
        name = c.split("::")[-1]
        if c.endswith(("Allocator::new_pair", "Allocator::new_atom")):
            calls.setdefault(name, []).append((b, args(t)[1:]))
        elif "HashMap" in c and name in ("insert", "get", "contains_key"):
            a = args(t)
            calls.setdefault(name + ":" + a[0].replace("&mut ", "").replace("&", ""), []).append((b, a[1:]))
        elif c.endswith("Vec::<T, A>::push"):
            a = args(t)
            calls.setdefault("push:" + a[0].replace("&mut ", ""), []).append((b, a[1:]))
    # a private helper that interns one pair (look up (l, r); else new_pair(l, r) and insert under (l, r); return the node) is
    # summarised and its call sites are treated like the inline form
    helpers = {}
    for b, t in f.calls():
        c = t.get("callee") or ""
        g = cr.fns.get(c)
        if g is None or c in helpers or not g.calls_to("clvmr::Allocator::new_pair"):
            continue
        nps = g.calls_to("clvmr::Allocator::new_pair")
        summ = None
        if len(nps) == 1:
            a_ = [g.unparam(show(g.expr_op(x))).replace("&mut ", "").replace("*", "") for x in nps[0][1]["args"]]
            if len(a_) == 3 and all(_re.fullmatch(r"\$\d+", x) for x in a_):
                al_, l_, r_ = a_
                gk = [g.unparam(show(g.expr_op(tt["args"][1]))) for _, tt in g.calls() if "HashMap" in (tt.get("callee") or "") and (tt.get("callee") or "").endswith("::get")]
                gi = [(g.unparam(show(g.expr_op(tt["args"][1]))), g.unparam(show(g.expr_op(tt["args"][2])))) for _, tt in g.calls()
                      if "HashMap" in (tt.get("callee") or "") and (tt.get("callee") or "").endswith("::insert")]
                okh = gk == [f"&tuple({l_}, {r_})"] and len(gi) == 1 and gi[0][0] == f"tuple({l_}, {r_})" and "Allocator::new_pair(" in gi[0][1]
                # what it returns: the looked-up node or the created one, nothing else
                outs = []
                for bb in g.reachable_blocks():
                    for st in g.stmts(bb):
                        rv = st.get("rv", {})
                        if st.get("d") and st["d"]["l"] == 0 and "agg" in rv and isinstance(rv["agg"][0], dict) and rv["agg"][0].get("variant") == "Ok":
                            outs.append(g.unparam(show(g.expr_op(rv["agg"][1][0]))))
                okh = okh and len(outs) == 2 and sorted(("created" if "Allocator::new_pair(" in o else "existing" if "::get(&" in o else "?") for o in outs) == ["created", "existing"]
                if okh:
                    summ = (int(al_[1:]) - 1, int(l_[1:]) - 1, int(r_[1:]) - 1)
        helpers[c] = summ
        ck.ob("R27b", FN + f"|helper {c.split('::')[-1]}", summ is not None,
              "a pair-interning helper looks (l, r) up, otherwise creates new_pair(l, r) and stores it under (l, r), and returns that node",
              site=g.where(0))
        ck.analysed(g)
    for b, t in f.calls():
        summ = helpers.get(t.get("callee") or "")
        if summ:
            a = args(t)
            L, R = a[summ[1]], a[summ[2]]
            calls.setdefault("new_pair", []).append((b, [L, R]))
            calls.setdefault("get:pair_map", []).append((b, [f"&tuple({L}, {R})"]))
            calls.setdefault("insert:pair_map", []).append((b, [f"tuple({L}, {R})", f"Allocator::new_pair(&mut allocator, {L}, {R})"]))
    helper_names = tuple(c + "(" for c, sm in helpers.items() if sm)
    np_ = sorted(a for _, a in calls.get("new_pair", []))
    ck.ob("R27b", FN + "|new_pair children", np_ == sorted([["IM[ID(LEFT)]", "IM[ID(RIGHT)]"], ["IM[BP.left_id]", "IM[BP.right_id]"]]),
          "both pair constructions use (converted left, converted right) of the object being built", site=f.where(calls.get("new_pair", [(0, 0)])[0][0]), detail=np_)
    gets = sorted(a[0] for _, a in calls.get("get:pair_map", []))
    ck.ob("R27b", FN + "|pair_map lookup", gets == sorted(["&tuple(IM[ID(LEFT)], IM[ID(RIGHT)])", "&tuple(IM[BP.left_id], IM[BP.right_id])"]),
          "pairs are looked up under (converted left, converted right)", site=f.where(0), detail=gets)
    ins = sorted((a[0], a[1][:60]) for _, a in calls.get("insert:pair_map", []))
    okins = len(ins) == 2 and {k for k, _ in ins} == {"tuple(IM[ID(LEFT)], IM[ID(RIGHT)])", "tuple(IM[BP.left_id], IM[BP.right_id])"} and \
        all("Allocator::new_pair(" in v for _, v in ins)
    for _, a in calls.get("insert:pair_map", []):
        # the stored value is the pair created from the same key
        k = a[0][len("tuple("):-1]
        okins = okins and f"Allocator::new_pair(&mut allocator, {k})" in a[1]
    ck.ob("R27b", FN + "|pair_map insert", okins, "a new pair is stored under the key it was created from", site=f.where(0), detail=ins)
    na = [a for _, a in calls.get("new_atom", [])]
    ck.ob("R27b", FN + "|new_atom bytes", na == [["&*Deref>::deref(&BYTES)"]], "the atom is created from the bytes of the object's own .atom", site=f.where(0), detail=na)
    ag = [a[0] for _, a in calls.get("get:atom_map", [])]
    ai = [(a[0], "Allocator::new_atom(&mut allocator, &*Deref>::deref(&BYTES))" in a[1]) for _, a in calls.get("insert:atom_map", [])]
    ck.ob("R27b", FN + "|atom_map", ag == ["&BYTES"] and ai == [("BYTES", True)], "atoms are de-duplicated by their bytes", site=f.where(0), detail={"get": ag, "insert": ai})
    idins = sorted(a[0] for _, a in calls.get("insert:identity_map", []))
    vals = []
    for b, t in f.calls():
        c = t.get("callee") or ""
        if "HashMap" in c and c.endswith("::insert") and "identity_map" in canon(show(f.expr_op(t["args"][0], deep=False))):
            pl = t["args"][2].get("mv") or t["args"][2].get("cp")
            # follow plain copies back to the `node` local
            while pl and not pl["p"] and len(f.defs(pl["l"])) == 1 and f.defs(pl["l"])[0][1] != "T" and "use" in f.def_rvalue(f.defs(pl["l"])[0]) \
                    and (f.def_rvalue(f.defs(pl["l"])[0])["use"].get("mv") or f.def_rvalue(f.defs(pl["l"])[0])["use"].get("cp")) \
                    and not (f.def_rvalue(f.defs(pl["l"])[0])["use"].get("mv") or f.def_rvalue(f.defs(pl["l"])[0])["use"].get("cp"))["p"]:
                u = f.def_rvalue(f.defs(pl["l"])[0])["use"]
                pl = u.get("mv") or u.get("cp")
            srcs = sorted(("created/existing" if helper_names and any(h in dx for h in helper_names) else
                           "created" if "Allocator::new_" in dx else "existing" if "::get(&" in dx else "?")
                          for dx in (show(f.expr_rvalue(f.def_rvalue(d_))) if d_[1] != "T" else "call" for d_ in f.defs(pl["l"]))) if pl and not pl["p"] else ["?"]
            vals.append("/".join(srcs))
    vals = sorted(vals)
    ck.ob("R27b", FN + "|identity_map insert", idins == ["BP.id", "ID(OBJ)", "ID(OBJ)"] and vals == ["created/existing"] * 3,
          "the converted node is recorded under the object's own address (three sites)", site=f.where(0), detail=list(zip(idins, vals)))
    # the node recorded is the one just looked up / created: each `node` local has exactly the two sources (existing | new)
    pushes = [a[0] for _, a in calls.get("push:stack", [])]
    bp = [p for p in pushes if p.startswith("BuildPair(")]
    vs = sorted(p for p in pushes if p.startswith("Visit("))
    ck.ob("R27b", FN + "|deferred pair", bp == ["BuildPair(ID(OBJ), ID(LEFT), ID(RIGHT))"],
          "a deferred pair remembers (own address, left address, right address)", site=f.where(0), detail=bp)
    fields = None
    for b in f.reachable_blocks():
        for st in f.stmts(b):
            rv = st.get("rv", {})
            if "agg" in rv and isinstance(rv["agg"][0], dict) and rv["agg"][0].get("variant") == "BuildPair":
                fields = rv["agg"][0].get("fields")
    ck.ob("R27b", FN + "|deferred pair fields", fields == ["id", "left_id", "right_id"], "BuildPair's fields are (id, left_id, right_id) in this order", site=f.where(0), detail=fields)
    ck.ob("R27b", FN + "|children visited", vs == ["Visit(LEFT)", "Visit(RIGHT)"], "both children are scheduled for conversion", site=f.where(0), detail=vs)
    cks = sorted(a[0] for _, a in calls.get("contains_key:identity_map", []))
    ck.ob("R27b", FN + "|done tests", cks == ["&ID(LEFT)", "&ID(OBJ)", "&ID(RIGHT)"], "an object counts as done iff its own address is in the identity map", site=f.where(0), detail=cks)
    # left_done / right_done guard the matching Visit pushes
    ok = True
    det = {}
    for side in ("LEFT", "RIGHT"):
        pb = [b for b, a in calls.get("push:stack", []) if a[0] == f"Visit({side})"]
        cond = None
        if pb:
            for x in f.dominators(pb[0]):
                if f.term(x)["k"] == "switch" and f.term(x).get("ty") == "bool":
                    c = _abbr(canon(show(_expand_bools(f, f.switch_cond(x)))))
                    be = f.bool_edges(x)
                    if "contains_key(&identity_map, &ID(" in c and be:
                        edge = "true" if f.dominates(be[0], pb[0]) or be[0] == pb[0] else "false" if f.dominates(be[1], pb[0]) or be[1] == pb[0] else None
                        cond = (c, edge)
                        break
        det[side] = cond
        want_in = f"contains_key(&identity_map, &ID({side}))"
        if not cond or want_in not in cond[0]:
            ok = False
        else:
            neg = cond[0].startswith("Not(")
            ok = ok and ((cond[1] == "true") == neg)
    ck.ob("R27b", FN + "|visit guards", ok, "a child is scheduled exactly when ITS address is not yet in the identity map", site=f.where(0), detail=det)
    # result
    root = None
    for b, t in f.calls():
        if (t.get("callee") or "").endswith("LazyNode::new"):
            root = _abbr(canon(show(f.expr_op(t["args"][1]))))
    ck.ob("R27b", FN + "|root", root == "*Index>::index(&identity_map, &(::as_ptr(&obj) as usize))", "the result is the converted node of the object passed in",
          site=f.where(0), detail=root)


_run_liveness = run


def run(ctx):  # noqa: F811
    _run_liveness(ctx)
    structure(ctx, ctx.check, ctx.crate("wheel"))
