"""C28 — pure-Python helpers agree with the Rust core (codec tables).

R28a  size_blob_for_blob (Python writer) has the same rows as the Rust writer
      (write_atom_encoding_prefix_with_size): bounds, prefix length, marker; beyond -> error.
R28b  atom_to_byte_iterator's special cases equal Rust's: empty -> 0x80, single byte <= 0x7f verbatim.
R28c  _atom_from_stream (Python reader) rejects what decode_size_with_offset rejects:
      prefix longer than 6 bytes, size >= 0x400000000, truncated prefix, truncated body; and the
      single-byte / empty-atom tests use the same constants.
R28d  duplicated wire constants (MAX_SINGLE_BYTE, CONS_BOX_MARKER) equal the Rust ones.
R28e  int_to_bytes / int_from_bytes use big-endian signed conversion and map 0 <-> b"".
"""
import ast
from lib import mir, tables
from lib.mir import compare_norm
from rules import c15

SER = "wheel/python/clvm_rs/ser.py"
CASTS = "wheel/python/clvm_rs/casts.py"


class PyMod:
    def __init__(self, src, name):
        self.tree = ast.parse(src)
        self.name = name
        self.consts = {}
        self.funcs = {}
        for n in self.tree.body:
            if isinstance(n, ast.Assign) and len(n.targets) == 1 and isinstance(n.targets[0], ast.Name):
                v = self.ev(n.value)
                if v is not None:
                    self.consts[n.targets[0].id] = v
            elif isinstance(n, ast.FunctionDef):
                self.funcs[n.name] = n

    def func(self, name):
        if name not in self.funcs:
            raise mir.AnchorMissing(f"{self.name}: function {name} not found")
        return self.funcs[name]

    def ev(self, e):
        """constant value of an expression, or None"""
        if isinstance(e, ast.Constant) and isinstance(e.value, (int, bytes, str)) and not isinstance(e.value, bool):
            return e.value
        if isinstance(e, ast.Name) and e.id in self.consts:
            return self.consts[e.id]
        if isinstance(e, ast.BinOp):
            a, b = self.ev(e.left), self.ev(e.right)
            if isinstance(a, int) and isinstance(b, int):
                ops = {ast.Add: lambda: a + b, ast.Sub: lambda: a - b, ast.Mult: lambda: a * b, ast.LShift: lambda: a << b,
                       ast.RShift: lambda: a >> b, ast.BitOr: lambda: a | b, ast.BitAnd: lambda: a & b, ast.BitXor: lambda: a ^ b}
                for k, fn in ops.items():
                    if isinstance(e.op, k):
                        return fn()
        return None


def cmp_interval(mod, test, var):
    """`var <op> CONST` -> (op, const) for a simple Compare on Name var (or len(...) aliased)"""
    if isinstance(test, ast.Compare) and len(test.ops) == 1:
        l, r = test.left, test.comparators[0]
        opn = type(test.ops[0]).__name__
        if isinstance(l, ast.Name) and l.id == var:
            c = mod.ev(r)
            if c is not None:
                return opn, c
        if isinstance(r, ast.Name) and r.id == var:
            c = mod.ev(l)
            flip = {"Lt": "Gt", "Gt": "Lt", "LtE": "GtE", "GtE": "LtE", "Eq": "Eq", "NotEq": "NotEq"}
            if c is not None:
                return flip[opn], c
    return None


def raises(body):
    return any(isinstance(s, ast.Raise) for s in body)


def run(ctx):
    ck = ctx.check
    cr = ctx.crate("default")
    ck.rule("R28a", "Python size_blob_for_blob rows == Rust writer rows (bounds, prefix length, marker); beyond -> error")
    ck.rule("R28b", "Python atom_to_byte_iterator special cases == Rust writer's (empty, single byte < 0x80)")
    ck.rule("R28c", "Python _atom_from_stream rejects exactly what decode_size_with_offset rejects (prefix-length cap, size cap, truncation)")
    ck.rule("R28d", "wire constants duplicated in Python equal the Rust constants")
    ck.rule("R28e", "int_to_bytes/int_from_bytes: big-endian signed, 0 <-> empty")
    ck.rule("R28f", "uncurry checks and takes apart exactly the shape curry builds, level by level")
    ser = PyMod(ctx.read(SER), SER)
    casts = PyMod(ctx.read(CASTS), CASTS)
    ck.analysed("py:" + SER, "py:" + CASTS)

    # ---- Rust side (same extraction as C15)
    w = cr.fn(c15.WRITER)
    ck.analysed(w)
    w.status()
    atom, paths = tables.threshold_paths(w)
    rows = tables.merge_rows([(iv, c15.writer_leaf(w, p)) for iv, p in paths])
    rust = {}
    for (lo, hi), leaf in rows:
        if leaf[0] == "write":
            n, m = leaf[1], leaf[2]
            rust[n] = (min(rust[n][0], lo) if n in rust else lo, max(rust[n][1], hi) if n in rust else hi, m)
    if len(rust) < 5:
        raise mir.AnchorMissing("Rust writer table not extracted")

    # ---- R28a
    fn = ser.func("size_blob_for_blob")
    var = None
    pyrows = []
    tail_raise = False
    lo = 0
    for s in fn.body:
        if isinstance(s, ast.Assign) and isinstance(s.value, ast.Call) and getattr(s.value.func, "id", "") == "len":
            var = s.targets[0].id
        elif isinstance(s, ast.If) and var:
            ci = cmp_interval(ser, s.test, var)
            ret = s.body[0] if s.body and isinstance(s.body[0], ast.Return) else None
            if ci and ci[0] == "Lt" and ret is not None:
                # bytes([ M | (...), ... ])
                lst = ret.value.args[0] if isinstance(ret.value, ast.Call) and ret.value.args else None
                n, marker = None, None
                if isinstance(lst, ast.List):
                    n = len(lst.elts)
                    first = lst.elts[0]
                    if isinstance(first, ast.BinOp) and isinstance(first.op, ast.BitOr):
                        marker = ser.ev(first.left)
                pyrows.append((lo, ci[1] - 1, n, marker))
                # byte composition: element i is (size >> 8(n-1-i)) [& 0xFF], the first OR-ed with the marker
                if isinstance(lst, ast.List):
                    shifts = []
                    for el in lst.elts:
                        sh = [x for x in ast.walk(el) if isinstance(x, ast.BinOp) and isinstance(x.op, ast.RShift)]
                        names = [x for x in ast.walk(el) if isinstance(x, ast.Name) and x.id == var]
                        if len(sh) == 1 and isinstance(sh[0].left, ast.Name) and sh[0].left.id == var:
                            shifts.append(ser.ev(sh[0].right))
                        elif not sh and len(names) == 1:
                            shifts.append(0)
                        else:
                            shifts.append(None)
                    want = [8 * (n - 1 - i) for i in range(n)]
                    ck.ob("R28a", f"{SER}::size_blob_for_blob|bytes of the {n}-byte prefix", shifts == want,
                          f"the {n} prefix bytes are size >> {want} (big-endian), as in the Rust writer (C15 R15a)",
                          site=f"{SER}:{s.lineno}", detail=shifts)
                lo = ci[1]
        elif isinstance(s, ast.Raise):
            tail_raise = True
    ck.floor("python writer rows", len(pyrows), 5)
    for n in sorted(rust):
        rlo, rhi, rm = rust[n]
        if n == 1:
            rlo = 0
        got = [r for r in pyrows if r[2] == n]
        ok = len(got) == 1 and got[0][0] == rlo and got[0][1] == rhi and got[0][3] == rm
        ck.ob("R28a", f"{SER}::size_blob_for_blob|row{n}", ok,
              f"{n}-byte prefix for sizes [{rlo:#x},{rhi:#x}] with marker {rm:#x}, as in the Rust writer",
              site=f"{SER}:{fn.lineno}", detail={"python": [(hex(a), hex(b), c, hex(d) if d is not None else None) for a, b, c, d in pyrows]})
    ck.ob("R28a", f"{SER}::size_blob_for_blob|beyond", tail_raise and len(pyrows) == len(rust),
          "sizes beyond the last row raise; no extra rows", site=f"{SER}:{fn.lineno}", detail=len(pyrows))

    # ---- R28b
    fn = ser.func("atom_to_byte_iterator")
    src = ast.unparse(fn)
    tests = [ast.unparse(n.test) for n in ast.walk(fn) if isinstance(n, ast.If)]
    single = None
    size1 = False
    # the byte test may stand alone inside `if size == 1:` or be and-ed with it: look at every comparison under an If
    for n in ast.walk(fn):
        if not isinstance(n, ast.If):
            continue
        for cmpn in [x for x in ast.walk(n.test) if isinstance(x, ast.Compare)]:
            if isinstance(cmpn.left, ast.Subscript) and len(cmpn.ops) == 1:
                single = (type(cmpn.ops[0]).__name__, ser.ev(cmpn.comparators[0]))
                # the length-is-one condition must hold where the byte is tested: same test (and) or an enclosing If
                conj = [ast.unparse(v).replace(" ", "") for v in (n.test.values if isinstance(n.test, ast.BoolOp) and isinstance(n.test.op, ast.And) else [])]
                encl = [ast.unparse(m.test).replace(" ", "") for m in ast.walk(fn) if isinstance(m, ast.If) and any(k is n for k in ast.walk(m)) and m is not n]
                size1 = any(t in ("size==1", "1==size", "len(as_atom)==1") for t in conj + encl)
    ok_single = single in (("LtE", 0x7F), ("Lt", 0x80)) and size1
    ck.ob("R28b", f"{SER}::atom_to_byte_iterator|single-byte", ok_single,
          "a one-byte atom is written verbatim iff its byte is < 0x80", site=f"{SER}:{fn.lineno}", detail={"test": single, "ifs": tests})
    empties = [n for n in ast.walk(fn) if isinstance(n, (ast.Yield,)) and isinstance(n.value, ast.Constant) and n.value.value == b"\x80"]
    zero_test = any(t.replace(" ", "") in ("size==0", "0==size") for t in tests)
    ck.ob("R28b", f"{SER}::atom_to_byte_iterator|empty", bool(empties) and zero_test, "the empty atom is the single byte 0x80",
          site=f"{SER}:{fn.lineno}", detail=tests)

    # ---- R28c
    d, dcaps, _raw = c15.decoder_caps(cr)
    ck.analysed(d)
    rust_size_cap = [dcaps["size"] - 1] if "size" in dcaps else []      # quantity > value => error
    rust_plen_cap = [dcaps["prefix"]] if "prefix" in dcaps else []
    if len(rust_size_cap) != 1 or len(rust_plen_cap) != 1:
        raise mir.AnchorMissing("decode_size_with_offset caps not recognised")
    fn = ser.func("_atom_from_stream")
    py_caps = {}
    trunc = 0
    # a read through a module-level helper that itself raises on a short read (f.read(n); len(..) != n -> raise) counts like the
    # inline form, once per call
    exact_readers = set()
    for hn, hf in ser.funcs.items():
        if hn == "_atom_from_stream":
            continue
        reads = [c_ for c_ in ast.walk(hf) if isinstance(c_, ast.Call) and isinstance(c_.func, ast.Attribute) and c_.func.attr == "read"]
        chk = [n_ for n_ in ast.walk(hf) if isinstance(n_, ast.If) and raises(n_.body) and isinstance(n_.test, ast.Compare) and len(n_.test.ops) == 1
               and isinstance(n_.test.ops[0], ast.NotEq) and ast.unparse(n_.test.left).startswith("len(")]
        if len(reads) == 1 and len(chk) == 1 and len(hf.args.args) == 2 and ast.unparse(chk[0].test.comparators[0]) == hf.args.args[1].arg \
                and ast.unparse(reads[0].args[0]) == hf.args.args[1].arg:
            exact_readers.add(hn)
    for n in ast.walk(fn):
        if isinstance(n, ast.Call) and isinstance(n.func, ast.Name) and n.func.id in exact_readers:
            trunc += 1
    for n in ast.walk(fn):
        if isinstance(n, ast.If) and raises(n.body) and isinstance(n.test, ast.Compare) and len(n.test.ops) == 1:
            left = ast.unparse(n.test.left)
            opn = type(n.test.ops[0]).__name__
            c = ser.ev(n.test.comparators[0])
            if opn == "NotEq" and left.startswith("len("):
                trunc += 1
            elif c is not None:
                # normalise to "quantity > value => error"
                v = c if opn == "Gt" else (c - 1 if opn == "GtE" else None)
                py_caps[left] = v
    ck.ob("R28c", f"{SER}::_atom_from_stream|size-cap", py_caps.get("size") == rust_size_cap[0],
          f"sizes > {rust_size_cap[0]:#x} are rejected, as in the Rust decoder", site=f"{SER}:{fn.lineno}",
          detail={"python": py_caps, "rust": dcaps})
    ck.ob("R28c", f"{SER}::_atom_from_stream|prefix-length-cap", py_caps.get("bit_count") == rust_plen_cap[0],
          f"length prefixes longer than {rust_plen_cap[0]} bytes are rejected, as in the Rust decoder", site=f"{SER}:{fn.lineno}",
          detail={"python": py_caps, "rust": dcaps})
    ck.ob("R28c", f"{SER}::_atom_from_stream|truncation", trunc >= 2, "a short read of the prefix or of the body raises",
          site=f"{SER}:{fn.lineno}", detail=trunc)
    firsts = []
    for n in fn.body:
        if isinstance(n, ast.If) and isinstance(n.test, ast.Compare):
            firsts.append((type(n.test.ops[0]).__name__, ser.ev(n.test.comparators[0])))
    ck.ob("R28c", f"{SER}::_atom_from_stream|literal-bytes", firsts[:2] == [("Eq", 0x80), ("LtE", 0x7F)],
          "0x80 is the empty atom, bytes <= 0x7f are literal one-byte atoms", site=f"{SER}:{fn.lineno}", detail=firsts[:3])
    # bit counting loop: mask starts at 0x80 and shifts right
    loop_ok = any(isinstance(n, ast.While) and "bit_mask" in ast.unparse(n.test) for n in ast.walk(fn)) and \
        any(isinstance(n, ast.Assign) and ast.unparse(n.targets[0]) == "bit_mask" and ser.ev(n.value) == 0x80 for n in ast.walk(fn))
    ck.ob("R28c", f"{SER}::_atom_from_stream|leading-ones", loop_ok, "the prefix length is the number of leading one bits",
          site=f"{SER}:{fn.lineno}")

    # ---- R28d
    for pyname, rust_names in (("MAX_SINGLE_BYTE", ["serde::parse_atom::MAX_SINGLE_BYTE"]),
                               ("CONS_BOX_MARKER", ["serde::ser::CONS_BOX_MARKER"])):
        rv = cr.const_val(rust_names[0])
        ck.ob("R28d", f"{SER}::{pyname}", ser.consts.get(pyname) == rv, f"{pyname} == {rv:#x} (Rust {rust_names[0]})",
              site=SER, detail={"python": ser.consts.get(pyname), "rust": rv})

    # ---- R28e
    for name in ("int_to_bytes", "int_from_bytes"):
        fn = casts.func(name)
        calls = [n for n in ast.walk(fn) if isinstance(n, ast.Call) and isinstance(n.func, ast.Attribute) and n.func.attr in ("to_bytes", "from_bytes")]
        ok = False
        det = []
        for c in calls:
            kws = {k.arg: getattr(k.value, "value", None) for k in c.keywords}
            args = [getattr(a, "value", None) for a in c.args]
            det.append({"args": [a for a in args if isinstance(a, (str, int))], "kw": kws})
            if kws.get("signed") is True and "big" in args:
                ok = True
        ck.ob("R28e", f"{CASTS}::{name}|big-endian-signed", ok, f"{name} converts big-endian two's complement", site=f"{CASTS}:{fn.lineno}", detail=det)
    fn = casts.func("int_to_bytes")
    z = any(isinstance(n, ast.If) and ast.unparse(n.test).replace(" ", "") in ("v==0", "0==v") and
            any(isinstance(s, ast.Return) and isinstance(s.value, ast.Constant) and s.value.value == b"" for s in n.body)
            for n in ast.walk(fn))
    ck.ob("R28e", f"{CASTS}::int_to_bytes|zero", z, "0 encodes as the empty atom", site=f"{CASTS}:{fn.lineno}")
    strip_loop = [ast.unparse(n.test) for n in ast.walk(fn) if isinstance(n, ast.While)]
    ok_strip = False
    for n in ast.walk(fn):
        if not isinstance(n, ast.While):
            continue
        has_len, has_cmp = False, False
        for c in ast.walk(n.test):
            if isinstance(c, ast.Compare) and isinstance(c.left, ast.Call) and getattr(c.left.func, "id", "") == "len" \
                    and isinstance(c.ops[0], ast.Gt) and casts.ev(c.comparators[0]) == 1:
                has_len = True
            if isinstance(c, ast.Compare) and isinstance(c.left, ast.Subscript) and casts.ev(c.left.slice) == 0 \
                    and isinstance(c.ops[0], ast.Eq) and isinstance(c.comparators[0], ast.IfExp):
                ie = c.comparators[0]
                t = ie.test
                if casts.ev(ie.body) == 0xFF and casts.ev(ie.orelse) == 0 and isinstance(t, ast.BinOp) and isinstance(t.op, ast.BitAnd) \
                        and isinstance(t.left, ast.Subscript) and casts.ev(t.left.slice) == 1 and casts.ev(t.right) == 0x80:
                    has_cmp = True
        ok_strip = ok_strip or (has_len and has_cmp)
    ck.ob("R28e", f"{CASTS}::int_to_bytes|minimal", ok_strip,
          "redundant leading 0x00/0xff bytes are stripped while the sign bit of the next byte allows it (minimal encoding)",
          site=f"{CASTS}:{fn.lineno}", detail=strip_loop)


    # ---------------------------------------------------------------- R28f: curry / uncurry agreement
    CURRY = "wheel/python/clvm_rs/curry_and_treehash.py"
    ctree = ast.parse(ctx.read(CURRY))
    cfns = {}
    for n in ast.walk(ctree):
        if isinstance(n, ast.FunctionDef) and n.name in ("curry", "uncurry"):
            cfns[n.name] = n
    if set(cfns) != {"curry", "uncurry"}:
        raise mir.AnchorMissing(f"{CURRY}: curry / uncurry not found")
    cur, unc = cfns["curry"], cfns["uncurry"]

    def kw(e):
        """dialect.X_KW / self.dialect.X_KW -> 'X_KW'"""
        return e.attr if isinstance(e, ast.Attribute) else (repr(e.value) if isinstance(e, ast.Constant) else ast.unparse(e))

    def shape(lst):
        """{path: keyword} and {path: 'VAR:<name>'} of a list literal [K, (K2, x), rest]: a proper list of three"""
        out = {}
        if not (isinstance(lst, ast.List) and len(lst.elts) == 3):
            return None
        out["f"] = kw(lst.elts[0])
        q = lst.elts[1]
        if not (isinstance(q, ast.Tuple) and len(q.elts) == 2):
            return None
        out["rff"] = kw(q.elts[0])
        out["rfr"] = "VAR"
        out["rrf"] = "VAR"
        out["rrr"] = "NULL"
        return out
    # what curry builds: the returned list (outer level) and the list assigned in the loop (one level per argument)
    outer = [shape(n.value) for n in ast.walk(cur) if isinstance(n, ast.Return) and isinstance(n.value, ast.List)]
    inner = [shape(n.value) for n in ast.walk(cur) if isinstance(n, ast.Assign) and isinstance(n.value, ast.List)]
    seed = [kw(n.value) for n in ast.walk(cur) if isinstance(n, ast.AnnAssign) and n.value is not None] + \
           [kw(n.value) for n in ast.walk(cur) if isinstance(n, ast.Assign) and isinstance(n.value, ast.Constant)]
    okb = len(outer) == 1 and len(inner) == 1 and outer[0] is not None and inner[0] is not None
    ck.ob("R28f", f"{CURRY}::curry|shape", okb, "curry builds (A (Q . mod) env) with env = (C (Q . arg) env') per argument", site=f"{CURRY}:{cur.lineno}",
          detail={"outer": outer, "inner": inner, "seed": seed})

    def at_checks(nodes, var):
        """{path: keyword} compared with != on at(var, path) inside `nodes`; other subjects are reported under '?<name>'"""
        out = {}
        for n in nodes:
            for c in ast.walk(n):
                if isinstance(c, ast.Compare) and len(c.ops) == 1 and isinstance(c.ops[0], ast.NotEq) and isinstance(c.left, ast.Call) \
                        and getattr(c.left.func, "id", "") == "at" and len(c.left.args) == 2 and isinstance(c.left.args[1], ast.Constant):
                    subj = ast.unparse(c.left.args[0])
                    key_ = c.left.args[1].value if subj == var else f"?{subj}:{c.left.args[1].value}"
                    out[key_] = kw(c.comparators[0])
        return out

    def at_takes(nodes, var):
        return sorted(c.args[1].value for n in nodes for c in ast.walk(n) if isinstance(c, ast.Call) and getattr(c.func, "id", "") == "at"
                      and len(c.args) == 2 and isinstance(c.args[1], ast.Constant) and ast.unparse(c.args[0]) == var
                      and not any(isinstance(p_, ast.Compare) and p_.left is c for p_ in ast.walk(n)))
    param = unc.args.args[1].arg if len(unc.args.args) > 1 else "?"
    loops = [n for n in ast.walk(unc) if isinstance(n, ast.While)]
    oku = okb and len(loops) == 1
    det = {}
    if oku:
        lp = loops[0]
        # the loop variable: the name compared in the loop test
        lv = [x.id for x in ast.walk(lp.test) if isinstance(x, ast.Name) and x.id != "dialect"]
        lv = lv[0] if lv else "?"
        pre = [n for n in unc.body if n is not lp and not (isinstance(n, ast.Return))]
        pre_checks = at_checks([n for n in pre if isinstance(n, ast.If)], param)
        in_checks = at_checks(lp.body, lv)
        want_outer = {k_: v for k_, v in outer[0].items() if v != "VAR"}
        want_inner = {k_: v for k_, v in inner[0].items() if v != "VAR"}
        # the loop advances to the rest of the level and collects the quoted argument
        adv = [ast.unparse(n.value) for n in lp.body if isinstance(n, ast.Assign) and len(n.targets) == 1 and ast.unparse(n.targets[0]) == lv]
        ends = ast.unparse(lp.test).replace("dialect.", "").replace(" ", "")
        det = {"outer checks": pre_checks, "level checks": in_checks, "advance": adv, "loop test": ends, "loop variable": lv}
        oku = pre_checks == want_outer and in_checks == want_inner and adv == [f"at({lv}, 'rrf')"] and ends == f"{lv}!=ONE" \
            and "rfr" in at_takes(lp.body, lv) and "rfr" in at_takes(pre, param) and "rrf" in at_takes(pre, param)
    ck.ob("R28f", f"{CURRY}::uncurry|mirrors curry", oku,
          "uncurry tests f / rff / rrr of the program against (A, Q, NULL) and of EVERY level against (C, Q, NULL) - the level it is looking at, "
          "not the whole program - takes rfr as the module / argument and continues with rrf until the environment reference 1",
          site=f"{CURRY}:{unc.lineno}", detail=det)
