"""C29 — size-limited serializers fail exactly at the limit with out-of-memory.

R29a  (T7 error discipline) in every function reachable from the two *_limit entry points, the
      error of every io::Write call leaves as EvalErr::OutOfMemory when the writer reports
      ErrorKind::OutOfMemory. Accepted idioms: map_err(closure returning OutOfMemory),
      map_err(From::from) / `?` through `impl From<io::Error> for EvalErr`, whose body must map
      kind()==OutOfMemory to EvalErr::OutOfMemory.
R29b  LimitedWriter::write fails iff limit < buf.len() (strict), with ErrorKind::OutOfMemory, and
      decrements the limit by the written count.
R29c  routing: each *_limit entry returns only bytes that went through a LimitedWriter built with
      the caller's limit, unchanged.
"""
from lib import mir
from lib.mir import strip, show, compare_norm, show_norm, walk

ENTRIES = ["serde::ser::node_to_bytes_limit", "serde::ser_br::node_to_bytes_backrefs_limit"]
FROM_IO = "<error::EvalErr as std::convert::From<std::io::Error>>::from"


def agg_variants_returned(g):
    """EvalErr variants a closure / function returns directly in _0"""
    vs = set()
    for b in g.reachable_blocks():
        for st in g.stmts(b):
            d = st.get("d")
            if d and d["l"] == 0 and not d["p"]:
                e = strip(g.expr_rvalue(st["rv"]))
                if e[0] == "agg":
                    vs.add(e[1].split("::")[-1])
                elif e[0] == "call":
                    vs.add("call:" + e[1])
                else:
                    vs.add("?")
        t = g.term(b)
        if t["k"] == "call" and t["dst"]["l"] == 0 and not t["dst"]["p"]:
            vs.add("call:" + (t.get("callee") or "?"))
    return vs


def from_io_summary(cr):
    """does impl From<io::Error> for EvalErr map kind()==OutOfMemory to EvalErr::OutOfMemory ?"""
    g = cr.fn(FROM_IO)
    oom_blocks = []
    for b in g.reachable_blocks():
        for st in g.stmts(b):
            d = st.get("d")
            if d and d["l"] == 0 and not d["p"]:
                e = strip(g.expr_rvalue(st["rv"]))
                if e[0] == "agg" and e[1].endswith("EvalErr::OutOfMemory"):
                    oom_blocks.append(b)
    if not oom_blocks:
        return False, "the impl never yields EvalErr::OutOfMemory (every io error becomes " + \
            ",".join(sorted(agg_variants_returned(g))) + ")"
    # a branch on kind() == ErrorKind::OutOfMemory must control that block
    for ob in oom_blocks:
        for k in g.dominators(ob):
            t = g.term(k)
            if t["k"] != "switch":
                continue
            cond = g.expr_op(t["on"])
            txt = show(cond, short=False)
            kind_call = any(x[0] == "call" and x[1].endswith("io::Error::kind") for x in walk(cond))
            if not kind_call:
                continue
            # eq-form: PartialEq::eq(&kind, &OutOfMemory) taken on the true edge
            oomc = "OutOfMemory" in errorkinds(g, cond)
            be = g.bool_edges(k)
            if oomc and be and g.dominates(be[0], ob) :
                return True, f"kind() == ErrorKind::OutOfMemory => EvalErr::OutOfMemory ({g.where(k)})"
            # match-form: discriminant switch
            dv = discr_variants(g, t["on"])
            if dv:
                for bb, v in g.succ(k):
                    if v != "otherwise" and dv.get(str(v)) == "OutOfMemory" and g.dominates(bb, ob):
                        return True, f"match kind() {{ OutOfMemory => EvalErr::OutOfMemory }} ({g.where(k)})"
    return False, "EvalErr::OutOfMemory is not selected by a test of kind() against ErrorKind::OutOfMemory"


def errorkinds(g, e):
    """io::ErrorKind variants mentioned in an expression (aggregate at opt-level 0, or constant)"""
    out = set()
    for x in walk(e):
        if x[0] == "agg" and x[1].startswith("std::io::ErrorKind::"):
            out.add(x[1].split("::")[-1])
        elif x[0] == "const" and x[3] == "std::io::ErrorKind":
            out.add(const_variant(g, x))
    return out


_cv = {}


def const_variant(g, cexpr):
    # constants carry their variant name in the raw facts; recover it by scanning operands
    key = (g.path,)
    if key not in _cv:
        m = {}
        for blk in g.blocks:
            ops = []
            for st in blk["stmts"]:
                if "rv" in st:
                    ops += mir.rvalue_operands(st["rv"])
            t = blk["term"]
            ops += t.get("args", [])
            for o in ops:
                if isinstance(o, dict) and "c" in o and "variant" in o["c"]:
                    m[(o["c"].get("ty"), o["c"].get("val"))] = o["c"]["variant"]
        _cv[key] = m
    return _cv[key].get((cexpr[3], cexpr[1]))


def discr_variants(g, op):
    pl = mir.op_place(op)
    if not pl or pl["p"]:
        return None
    ds = g.defs(pl["l"])
    if len(ds) != 1 or ds[0][1] == "T":
        return None
    rv = g.stmts(ds[0][0])[ds[0][1]]["rv"]
    if "discr" in rv and "variants" in rv:
        return {v: n for v, n in rv["variants"]}
    return None


def run(ctx):
    ck = ctx.check
    cr = ctx.crate("default")
    ck.rule("R29a", "every io::Write failure in the limited serializers leaves as EvalErr::OutOfMemory when the writer reports OutOfMemory")
    ck.rule("R29b", "LimitedWriter::write fails iff limit < buf.len(), with ErrorKind::OutOfMemory, and decrements by the written count")
    ck.rule("R29c", "each *_limit entry returns only bytes that passed through a LimitedWriter built with the caller's limit")

    for e in ENTRIES:
        cr.fn(e)
    reach = cr.reachable(ENTRIES)
    from_ok, from_why = from_io_summary(cr)
    ck.analysed(cr.fn(FROM_IO))
    nsites = 0
    for path in sorted(reach):
        f = cr.fns.get(path)
        if f is None:
            continue
        ret = f.locals[0]["ty"]
        sites = [(b, t) for b, t in f.calls() if t.get("trait") == "std::io::Write" or (t.get("raw") or "").startswith("std::io::Write::")]
        if not sites:
            continue
        ck.analysed(f)
        if "error::EvalErr" not in ret:
            # the writer itself (io::Result): covered by R29b
            continue
        for b, t in sites:
            nsites += 1
            m = (t.get("raw") or "").split("::")[-1]
            arg = show(f.expr_op(t["args"][1])) if len(t["args"]) > 1 else ""
            key = f"{f.path}|{m}({arg})"
            site = f.where(b)
            nb = t.get("target")
            nt = f.term(nb) if nb is not None else None
            ok, why = False, "unrecognised handling of the io::Result (not map_err, not `?`)"
            if nt and nt["k"] == "call":
                c = nt.get("callee") or ""
                uses_res = nt["args"] and mir.op_place(nt["args"][0]) and mir.op_place(nt["args"][0])["l"] == t["dst"]["l"]
                if c.endswith("Result::<T, E>::map_err") and uses_res:
                    h = strip(f.expr_op(nt["args"][1]))
                    if h[0] == "agg" and h[1].startswith("closure:"):
                        g = cr.fn(h[1][len("closure:"):])
                        vs = agg_variants_returned(g)
                        if vs == {"OutOfMemory"}:
                            ok, why = True, "map_err(|_| EvalErr::OutOfMemory)"
                        elif vs == {"call:" + FROM_IO} or vs == {"call:<T as std::convert::Into<U>>::into"}:
                            ok, why = from_ok, "map_err(closure -> From<io::Error>): " + from_why
                        else:
                            why = f"map_err closure yields {sorted(vs)}: a write that hits the size limit is reported as " \
                                  f"{'/'.join(sorted(vs))}, not OutOfMemory"
                    elif h[0] == "fnref" and h[1] in (FROM_IO, "std::convert::From::from"):
                        ok, why = from_ok, "map_err(EvalErr::from): " + from_why
                    else:
                        why = f"map_err handler {show(h)} not understood"
                elif c.endswith("Try>::branch") and uses_res:
                    ok, why = from_ok, "`?` through impl From<io::Error> for EvalErr: " + from_why
            ck.ob("R29a", key, ok, f"the failure of {m}({arg}) is reported as OutOfMemory when the size limit is hit",
                  site=site, detail=why)
    ck.floor("io::Write call sites in EvalErr-returning serializer functions", nsites, 6)

    # R29b
    lw = cr.fn("<serde::ser::LimitedWriter<W> as std::io::Write>::write")
    ck.analysed(lw)
    tests = []
    for b in sorted(lw.reachable_blocks()):
        if lw.term(b)["k"] != "switch":
            continue
        n = compare_norm(lw.switch_cond(b))
        if n:
            tests.append((b, n))
    # the two fields of LimitedWriter by type: the remaining-bytes counter is the usize field, the wrapped writer the other one
    lw_fields = cr.adt("serde::ser::LimitedWriter")["variants"][0]["fields"]
    LIM = [x["name"] for x in lw_fields if x["ty"] == "usize"]
    INNER = [x["name"] for x in lw_fields if x["ty"] != "usize"]
    if len(LIM) != 1 or len(INNER) != 1:
        raise mir.AnchorMissing("LimitedWriter: expected one usize field (the limit) and one writer field")
    LIM, INNER = LIM[0], INNER[0]
    want = ({"len($2)": 1, f"self.{LIM}": -1}, 0, ">0")      # write(&mut self, buf $2)
    tests = [(b, (lw.unparam(n[0]), n[1], n[2])) for b, n in tests]
    good = [(b, n) for b, n in tests if n == want]
    okb = False
    detail = {"tests": [show_norm(n) for _, n in tests]}
    if len(good) == 1 and len(tests) == 1:
        b = good[0][0]
        tt, ft = lw.bool_edges(b)
        # error edge: Err(ErrorKind::OutOfMemory.into())
        errv = set()
        for bb in lw.reach_from([tt]):
            for st in lw.stmts(bb):
                if "rv" in st:
                    errv |= errorkinds(lw, lw.expr_rvalue(st["rv"]))
            for o in lw.term(bb).get("args", []):
                errv |= errorkinds(lw, lw.expr_op(o))
        detail["error_kind"] = sorted(x for x in errv if x)
        okb = lw.is_error_block(tt) and errv == {"OutOfMemory"} and not lw.is_error_block(ft)
    ck.ob("R29b", "LimitedWriter::write|test", okb, "write fails iff limit < buf.len() (strict) with ErrorKind::OutOfMemory",
          site=lw.where(0), detail=detail)
    dec = []
    for b in lw.reachable_blocks():
        for st in lw.stmts(b):
            d = st.get("d")
            if d and mir.place_fields(d) == [LIM]:
                dec.append(lw.unparam(show(lw.expr_rvalue(st["rv"]))))
    okd = len(dec) == 1 and dec[0].startswith(f"(self.{LIM} Sub ") and f"Write::write(&mut self.{INNER}, &$2)" in dec[0]
    ck.ob("R29b", "LimitedWriter::write|decrement", okd, "limit -= bytes written by the inner writer (exactly one update)",
          site=lw.where(0), detail=dec)

    # R29c
    for e in ENTRIES:
        f = cr.fn(e)
        ck.analysed(f)
        oks = []
        for b in f.reachable_blocks():
            for st in f.stmts(b):
                d = st.get("d")
                if d and d["l"] == 0 and not d["p"]:
                    ex = strip(f.expr_rvalue(st["rv"]))
                    if ex[0] == "agg" and ex[1].endswith("Result::Ok"):
                        oks.append((b, ex))
        good = bool(oks)
        det = []
        for b, ex in oks:
            s = show(ex, short=False)
            det.append(s[:300])
            chain = [x for x in walk(ex) if x[0] == "call" and x[1].endswith("LimitedWriter::<W>::into_inner")]
            if not chain:
                good = False
                continue
            # the writer: LimitedWriter::new(_, limit) with limit = the parameter
            w = strip(chain[0][2][0])
            if w[0] == "named":
                w = w[3]
            news = [x for x in walk(chain[0]) if x[0] == "call" and x[1].endswith("LimitedWriter::<W>::new")]
            # ... with the caller's limit: the (only) usize parameter, by position and type, not by name
            la = strip(news[0][2][1]) if news else ("none",)
            if not news or la[0] != "var" or not (1 <= la[2] <= f.nargs) or f.local_ty(la[2]) != "usize":
                good = False
            else:
                # the limit parameter is not reassigned
                good = good and not f.defs(la[2])
        # the stream function receives that writer
        ck.ob("R29c", f"{e}|ok-value", good, "every Ok value is LimitedWriter::new(_, limit).into_inner() with the caller's limit",
              site=f.where(0), detail=det)
        errs = [b for b in f.reachable_blocks() if f._classify_ret.__self__ is f and f.status() and f._last_ret.get(b, None) and str(f._last_ret.get(b)).startswith("ERR")]
        bad = [f._last_ret[b] for b in errs if f._last_ret[b] not in ("ERR:?",)]
        ck.ob("R29c", f"{e}|err-value", not bad, "the entry point constructs no error of its own (errors come from the writer path)",
              site=f.where(0), detail=bad or "only `?` propagation")
