"""C30 — RuntimeDialect with the standard table matches ChiaDialect (structural clauses).

R30a  table agreement: for every row (name, opcode) of the standard operator-name table (oracle/standard_ops.json)
      `opcode_by_name(name)` yields the very function `ChiaDialect::op` dispatches that one-byte opcode to, and
      ChiaDialect's arm is unconditional (opcode 60 may test only DISABLE_OP / NEW_COST_MODEL, which the property
      excludes).  The lookup returns the function of the row whose name matched; the table builder stores
      opcode_by_name(name) at index idx[0] only for one-byte opcodes, name and idx from the same map entry.
R30b  dispatch: RuntimeDialect::op calls a table function only for an operator atom of length exactly 1, indexed by
      that byte, with (allocator, argument_list, max_cost, self.flags); ChiaDialect::op calls the operator with
      (allocator, argument_list, max_cost, flags) where flags = self.flags | (empty for OperatorSet::Default).
R30c  unknown path: both dialects reach op_unknown(allocator, o, argument_list, max_cost, flags) iff
      NO_UNKNOWN_OPS is clear, and Err(Unimplemented(o)) otherwise.
R30d  flags: RuntimeDialect::new stores the caller's flags unchanged and flags() returns them; ChiaDialect::new
      changes them only by dropping LIMITS under NEW_COST_MODEL, and every LIMITS test of the crate is conjoined
      with !NEW_COST_MODEL (so that normalisation cannot change behaviour).
R30e  keywords and hooks: quote/apply keywords are byte 0 of the given vectors, softfork keyword is 36 in both,
      RuntimeDialect never enables an extension nor GC, allow_unknown_ops is the same function of the flags.
"""
import json
import os
from lib import mir, facts
from lib.mir import strip, show, walk
from lib.flagregion import flag_tests, flag_of
from rules.c07 import forward_reach, is_test_fn
from rules.c10 import dispatch_table

RD = "<runtime_dialect::RuntimeDialect as dialect::Dialect>::"
CD = "<chia_dialect::ChiaDialect as dialect::Dialect>::"
NAMES = "f_table::opcode_by_name"
BUILD = "f_table::f_lookup_for_hashmap"
UNK = "chia_dialect::unknown_operator"


def param_of(f, e):
    """expression -> index of the parameter it denotes (through reborrows), 'self.<field>' for a field of self, or None"""
    e = strip(e)
    while e[0] in ("ref", "deref"):
        e = strip(e[2] if e[0] == "ref" else e[1])
    if e[0] == "var" and 1 <= e[2] <= f.nargs:
        return e[2]
    if e[0] == "field":
        base = strip(e[1])
        while base[0] in ("ref", "deref"):
            base = strip(base[2] if base[0] == "ref" else base[1])
        if base[0] == "var" and base[2] == 1:
            return "self." + e[2]
    return None


def dialect_flags_local(d, l):
    """l is the dialect's effective flag set: a non-parameter ClvmFlags local every assignment of which starts from self.flags
    (by type and provenance - not by the name `flags`)"""
    if l <= d.nargs or "ClvmFlags" not in d.local_ty(l):
        return False
    srcs = [show(d.expr_rvalue(d.def_rvalue(s_), deep=False)) for s_ in d.defs(l)]
    return bool(srcs) and all("self.flags" in x for x in srcs)


def unname(e):
    """expand named locals to their defining expressions"""
    if isinstance(e, tuple):
        if e and e[0] == "named":
            return unname(e[3])
        return tuple(unname(x) for x in e)
    if isinstance(e, list):
        return [unname(x) for x in e]
    return e


def name_rows(f):
    rows = []
    for b in sorted(f.reachable_blocks()):
        for st in f.stmts(b):
            rv = st.get("rv", {})
            if "agg" in rv and rv["agg"][0] == "tuple" and len(rv["agg"][1]) == 2:
                e0, e1 = (f.expr_op(o) for o in rv["agg"][1])
                fns = [x[1] for x in walk(e0) if x[0] == "fnref"]
                strs = [x[1] for x in walk(e1) if x[0] == "str"]
                if len(fns) == 1 and len(strs) == 1:
                    rows.append((strs[0], fns[0], st["ln"]))
    return rows


def skip(f, b):
    """follow blocks that only jump"""
    seen = set()
    while b not in seen and not f.stmts(b) and f.term(b)["k"] == "goto":
        seen.add(b)
        b = f.term(b)["target"]
    return b


def run(ctx):
    ck = ctx.check
    ctx.prefetch(["default", "nofast"])
    cr = ctx.crate("default")
    ck.rule("R30a", "name table, standard table and ChiaDialect's dispatch agree on the function of every opcode")
    ck.rule("R30b", "one-byte dispatch with unchanged arguments in both dialects")
    ck.rule("R30c", "the unknown-operator path is the same function of (NO_UNKNOWN_OPS, o, args, max_cost, flags)")
    ck.rule("R30d", "flags reach the operators unchanged; ChiaDialect's normalisation is behaviourally inert")
    ck.rule("R30e", "keywords, extensions, GC and allow_unknown_ops agree")
    ck.assume("the standard operator-name table is oracle/standard_ops.json (the published CLVM opcode assignment); equality of the "
              "outcome then follows from both dialects calling the same function with the same arguments, which is what is decided")
    with open(os.path.join(facts.VERIF, "oracle", "standard_ops.json")) as fh:
        oracle = json.load(fh)

    # ------------------------------------------------------------------ R30a
    nf = cr.fn(NAMES)
    ck.analysed(nf)
    rows = name_rows(nf)
    by_name = {}
    for n, fn, ln in rows:
        by_name.setdefault(n, []).append(fn)
    d, sb, tab = dispatch_table(cr)
    ck.analysed(d)
    for name, opc in sorted(oracle["rows"].items(), key=lambda x: x[1]):
        got = by_name.get(name, [])
        chia = tab.get(opc, [])
        ok = len(got) == 1 and chia == got
        ck.ob("R30a", f"{name} = opcode {opc}", ok,
              f"opcode_by_name(\"{name}\") and ChiaDialect's arm for opcode {opc} are the same function",
              site=nf.where(0), detail={"name table": got, "ChiaDialect": chia})
        # unconditional arm
        arm = [t for t, v in d.succ(sb) if v == opc]
        if arm:
            blk = arm[0]
            flags_tested = set()
            cond = False
            for bb in sorted(forward_reach(d, blk)):
                if any(mir.const_fn(o) for st in d.stmts(bb) if "rv" in st for o in mir.rvalue_operands(st["rv"])):
                    break
                dvs = d.discr_variants(bb)
                if d.term(bb)["k"] == "switch" and not (dvs and set(dvs.values()) <= {"Continue", "Break"}):
                    cond = True
                    fl = flag_of(d.switch_cond(bb))
                    flags_tested.add(fl[0] if fl else "?")
            allowed = set(oracle["excluded_guards"].get(str(opc), []))
            ck.ob("R30a", f"opcode {opc} unconditional", (not cond) or flags_tested <= allowed,
                  f"ChiaDialect dispatches opcode {opc} without consulting anything but flags the property excludes",
                  site=d.where(blk), detail=sorted(flags_tested), trivial=not cond)
    ck.floor("standard table rows", len(oracle["rows"]), 42)
    extra = sorted(n for n in by_name if n not in oracle["rows"])
    ck.info("names known to opcode_by_name outside the one-byte standard table: " + ", ".join(extra))
    dup = sorted(n for n, v in by_name.items() if len(v) > 1)
    ck.ob("R30a", NAMES + "|unique names", not dup, "no name occurs twice in the name table (the first match would shadow the second)",
          site=nf.where(0), detail=dup)
    # lookup returns the function of the matching row
    eqs = [(b, t) for b, t in nf.calls() if "PartialEq" in (t.get("callee") or "") and (t.get("callee") or "").endswith("::eq")]
    ok = False
    det = {}
    if len(eqs) == 1:
        b, t = eqs[0]
        cmp_args = [show(nf.expr_op(a)) for a in t["args"]]
        sw = [x for x in forward_reach(nf, t["target"]) if nf.term(x)["k"] == "switch"]
        be = nf.bool_edges(t["target"]) if nf.term(t["target"])["k"] == "switch" else None
        ret = None
        if be:
            for st in nf.stmts(skip(nf, be[0])):
                if st["d"]["l"] == 0:
                    ret = show(nf.expr_rvalue(st["rv"]))
        det = {"compared": cmp_args, "returned when equal": ret}
        both = " ".join(cmp_args)
        ok = ret is not None and ".0.0" in ret and "Some" in ret and ".0.1" in both and "name" in both
    if not ok:
        # iterator idiom:  table.iter().find(|(_, n)| *n == name).map(|(f, _)| *f)
        ret = show(unname(nf.expr_local(0))) if nf.defs(0) else ""
        finds = [(b, t) for b, t in nf.calls() if (t.get("callee") or "").endswith("Iterator>::find") or (t.get("raw") or "").endswith("Iterator::find")]
        maps = [(b, t) for b, t in nf.calls() if (t.get("callee") or "").endswith("Option::<T>::map")]
        cl = sorted(p_ for p_ in cr.fns if p_.startswith(NAMES + "::{closure"))
        if len(finds) == 1 and len(maps) == 1 and len(cl) == 2 and nf.dominates(finds[0][0], maps[0][0]):
            pred, proj = None, None
            for p_ in cl:
                g = cr.fns[p_]
                eqc = [t for _, t in g.calls() if "PartialEq" in (t.get("callee") or "") and (t.get("callee") or "").endswith("::eq")]
                if eqc:
                    a_ = " ".join(show(g.expr_op(x)) for x in eqc[0]["args"])
                    pred = (".1" in a_ and "arg1.0" in a_.replace("(*arg1).0", "arg1.0"), a_[:160])
                else:
                    r_ = [show(g.expr_rvalue(st["rv"])) for bb in g.reachable_blocks() for st in g.stmts(bb) if st["d"]["l"] == 0 and not st["d"]["p"]]
                    proj = (len(r_) == 1 and r_[0].replace("*", "").replace("(", "").replace(")", "").endswith(".0"), r_)
            src = show(unname(nf.expr_op(finds[0][1]["args"][0])))
            det = {"idiom": "iter().find(name == row.1).map(row.0)", "find predicate": pred, "map projection": proj, "iterates": src[:80]}
            ok = bool(pred and pred[0] and proj and proj[0] and "opcode_lookup" in src or (pred and pred[0] and proj and proj[0] and "::iter(" in src))
    ck.ob("R30a", NAMES + "|lookup", ok, "the lookup compares the row's name (.1) with the requested name and returns that row's function (.0)",
          site=nf.where(eqs[0][0]) if eqs else nf.where(0), detail=det)
    # builder
    bf = cr.fn(BUILD)
    ck.analysed(bf)
    stores = []
    for b in sorted(bf.reachable_blocks()):
        for st in bf.stmts(b):
            if any(isinstance(p, dict) and "ix" in p for p in st["d"]["p"]) or any(p == "ix" or (isinstance(p, dict) and p.get("k") == "index") for p in st["d"]["p"]):
                stores.append((b, st))
    if not stores:
        # fall back: any statement writing through an Index projection of f_lookup
        for b in sorted(bf.reachable_blocks()):
            for st in bf.stmts(b):
                if "[" in show(bf.expr_place(st["d"], deep=False)) and "f_lookup" in show(bf.expr_place(st["d"], deep=False)):
                    stores.append((b, st))
    det = {"stores": [show(bf.expr_place(st["d"], deep=True))[:160] + " = " + show(bf.expr_rvalue(st["rv"]))[:160] for _, st in stores]}
    ok = len(stores) == 1
    if ok:
        b, st = stores[0]

        def elem0_of(e):
            """container C if e denotes element 0 of C (C[0], *C.index(0), through as_slice/deref/borrows)"""
            e = strip(e)
            while e[0] in ("ref", "deref", "cast") or (e[0] == "call" and e[1].endswith(("::deref", "::as_slice", "::as_ref")) and len(e[2]) == 1):
                e = strip(e[2] if e[0] in ("ref", "cast") else e[1] if e[0] == "deref" else e[2][0])
                if e[0] == "index" or (e[0] == "call" and "Index" in e[1]):
                    break
            c = None
            if e[0] == "index" and strip(e[2])[0] == "const" and strip(e[2])[1] == 0:
                c = e[1]
            elif e[0] == "call" and "Index" in e[1] and e[1].endswith("::index") and len(e[2]) == 2 and strip(e[2][1])[0] == "const" and strip(e[2][1])[1] == 0:
                c = e[2][0]
            if c is None:
                return None
            c = strip(c)
            while c[0] in ("ref", "deref") or (c[0] == "call" and c[1].endswith(("::deref", "::as_slice", "::as_ref")) and len(c[2]) == 1):
                c = strip(c[2] if c[0] == "ref" else c[1] if c[0] == "deref" else c[2][0])
            return show(unname(c))
        # f_lookup[<ix> as usize] = <val>
        ixs = [p for p in st["d"]["p"] if isinstance(p, dict) and "ix" in p]
        cont = elem0_of(unname(bf.expr_local(ixs[0]["ix"]))) if ixs else None
        val = show(unname(bf.expr_rvalue(st["rv"])))
        len_ok = False
        for x in bf.dominators(b):
            if bf.term(x)["k"] != "switch":
                continue
            n = mir.compare_norm(unname(bf.switch_cond(x)))
            if n and n[1] == -1 and n[2] == "==0" and cont is not None and [k.replace("&", "").replace("*", "") for k in n[0]] == [f"len({cont})".replace("&", "").replace("*", "")]:
                be = bf.bool_edges(x)
                len_ok = be is not None and (bf.dominates(be[0], b) or be[0] == b)
        det["index is byte 0 of"] = cont
        det["one-byte guard on the same bytes dominates"] = len_ok
        # name and opcode bytes come from the same map entry: <entry>.0 and <entry>.1
        flat = lambda t: t.replace("&", "").replace("*", "")
        same_entry = cont is not None and cont.endswith(".1") and flat(f"opcode_by_name(::deref({cont[:-2]}.0))") in flat(val.replace("f_table::", ""))
        det["value"] = val[:160]
        ok = len_ok and same_entry
    ck.ob("R30a", BUILD + "|store", ok,
          "the table stores opcode_by_name(name) at index idx[0], only when idx has exactly one byte; name and idx come from the same entry",
          site=bf.where(stores[0][0]) if stores else bf.where(0), detail=det)

    # ------------------------------------------------------------------ R30b
    rop = cr.fn(RD + "op")
    ck.analysed(rop)
    ind = [(b, t) for b, t in rop.calls() if t.get("callee") is None and "fptr" in t]
    ok = len(ind) == 1
    det = {"indirect calls": len(ind)}
    if ok:
        b, t = ind[0]
        args = [param_of(rop, rop.expr_op(a)) for a in t["args"]]
        fp = rop.unparam(show(unname(rop.expr_op(t["fptr"]))))
        det.update({"args": args, "callee": fp[:160]})
        guard = False
        for x in rop.dominators(b):
            if rop.term(x)["k"] != "switch":
                continue
            n = mir.compare_norm(rop.switch_cond(x))
            if n and n[2] == "==0" and n[1] == -1 and len(n[0]) == 1 and "len(" in mir.show_norm(n):
                be = rop.bool_edges(x)
                # the length operand is the operator atom's bytes
                src = rop.unparam(show(unname(rop.switch_cond(x))))      # (self, allocator $2, o $3, argument_list $4, max_cost $5, ..)
                if be and rop.dominates(be[0], b) and "Allocator::atom(&$2, $3)" in src.replace("*", ""):
                    guard = True
        det["length==1 guard on the operator atom dominates"] = guard
        idx_ok = "self.f_lookup[" in fp and "[0] as usize" in fp.replace("(", "").replace(")", "") and "Allocator::atom(&$2, $3" in fp.replace("*", "")
        det["index is byte 0 of the operator atom"] = idx_ok
        ok = guard and idx_ok and args == [2, 4, 5, "self.flags"]
    ck.ob("R30b", RD + "op|table call", ok,
          "the table function is called only for a one-byte operator, indexed by that byte, with (allocator, argument_list, max_cost, self.flags)",
          site=rop.where(ind[0][0]) if ind else rop.where(0), detail=det)
    # ChiaDialect: final indirect call(s)
    cind = [(b, t) for b, t in d.calls() if t.get("callee") is None and "fptr" in t]
    oks = []
    fl_locals = set()
    for b, t in cind:
        a = [rop and d.expr_op(x, deep=False) for x in t["args"]]
        p = [param_of(d, x) for x in a[:3]]
        fl = strip(a[3])
        oks.append(p == [2, 4, 5] and fl[0] == "var" and dialect_flags_local(d, fl[2]))
        if fl[0] == "var":
            fl_locals.add(fl[2])
    ck.ob("R30b", CD + "op|operator call", bool(cind) and all(oks),
          "ChiaDialect calls the selected operator with (allocator, argument_list, max_cost, flags)", site=d.where(cind[0][0]) if cind else d.where(0),
          detail={"calls": len(cind)})
    # flags = self.flags | match extension { Default => empty, ... }
    okf = False
    det = {}
    if len(fl_locals) == 1:
        l = fl_locals.pop()
        defs = d.defs(l)
        if len(defs) == 1:
            t = d.term(defs[0][0]) if isinstance(defs[0], tuple) and defs[0][1] == "term" else None
        e = show(unname(d.expr_local(l)))
        det["flags"] = e[:200]
        # Default arm of the extension match
        for b in sorted(d.reachable_blocks()):
            dv = d.discr_variants(b)
            if dv and "Default" in dv.values() and d.discr_enum(b) and d.discr_enum(b).endswith("OperatorSet"):
                edges = {dv[v]: tgt for tgt, v in d.succ(b) if v != "otherwise" and v in dv}
                tgt = edges.get("Default")
                if tgt is None:
                    continue
                t = d.term(tgt)
                callee = (t.get("callee") or "") if t["k"] == "call" else ""
                det["Default arm"] = callee
                okf = callee.endswith("ClvmFlags>::empty") and "bitor" in e.lower() and "self.flags" in e
    ck.ob("R30b", CD + "op|no extension adds no flag", okf,
          "outside a softfork guard (OperatorSet::Default) ChiaDialect passes self.flags | empty()", site=d.where(0), detail=det)

    # ------------------------------------------------------------------ R30c
    def unknown_shape(f, roles):
        """roles: param index -> role name. returns dict(cond, err, call) for the function's NO_UNKNOWN_OPS test"""
        ts = [t for t in flag_tests(f) if t["flag"] == "NO_UNKNOWN_OPS"]
        out = {"tests": len(ts)}
        if len(ts) != 1:
            return out
        t = ts[0]
        cond_src = None
        for x in walk(f.switch_cond(t["block"])):
            if x[0] == "call" and x[1].endswith("ClvmFlags>::contains"):
                cond_src = param_of(f, x[2][0])
        out["flags tested"] = roles.get(cond_src, cond_src)
        setr = forward_reach(f, t["set_edge"]) - forward_reach(f, t["clear_edge"])
        clr = forward_reach(f, t["clear_edge"]) - forward_reach(f, t["set_edge"])
        errs = set()
        for b in setr:
            errs |= set(f.err_variants_from(b) or [])
        out["set: error"] = sorted(errs)
        pay = set()
        for b in setr:
            for st in f.stmts(b):
                rv = st.get("rv", {})
                if "agg" in rv and isinstance(rv["agg"][0], dict) and rv["agg"][0].get("variant") == "Unimplemented":
                    pay.add(roles.get(param_of(f, f.expr_op(rv["agg"][1][0])), "?"))
        out["set: payload"] = sorted(pay)
        out["set: calls op_unknown"] = any(f.term(b)["k"] == "call" and (f.term(b).get("callee") or "").endswith("op_unknown") for b in setr)
        calls = [f.term(b) for b in clr if f.term(b)["k"] == "call" and (f.term(b).get("callee") or "") == "more_ops::op_unknown"]
        out["clear: op_unknown args"] = [[roles.get(param_of(f, f.expr_op(a)), "?") for a in c["args"]] for c in calls]
        out["clear: other calls"] = sorted({(f.term(b).get("callee") or "?") for b in clr if f.term(b)["k"] == "call"} - {"more_ops::op_unknown"})
        return out

    WANT = {"tests": 1, "flags tested": "flags", "set: error": ["Unimplemented"], "set: payload": ["o"], "set: calls op_unknown": False,
            "clear: op_unknown args": [["allocator", "o", "args", "max_cost", "flags"]], "clear: other calls": []}
    r_shape = unknown_shape(rop, {2: "allocator", 3: "o", 4: "args", 5: "max_cost", "self.flags": "flags"})
    if r_shape.get("tests") == 0:
        # second idiom: the unknown path is delegated to ChiaDialect's own unknown_operator (whose shape is the next obligation):
        # unknown_operator(allocator, o, args, self.flags, max_cost) with the result returned
        dl = rop.calls_to(UNK)
        roles = {2: "allocator", 3: "o", 4: "args", 5: "max_cost", "self.flags": "flags"}
        if len(dl) == 1 and [roles.get(param_of(rop, rop.expr_op(a)), "?") for a in dl[0][1]["args"]] == ["allocator", "o", "args", "flags", "max_cost"] \
                and dl[0][1]["dst"]["l"] == 0 and not any((t.get("callee") or "").endswith("op_unknown") for _, t in rop.calls()):
            r_shape = dict(WANT)
    ck.ob("R30c", RD + "op|unknown path", r_shape == WANT,
          "NO_UNKNOWN_OPS set: Err(Unimplemented(o)); clear: op_unknown(allocator, o, argument_list, max_cost, self.flags), nothing else",
          site=rop.where(0), detail=r_shape)
    uf = cr.fn(UNK)
    ck.analysed(uf)
    u_shape = unknown_shape(uf, {1: "allocator", 2: "o", 3: "args", 4: "flags", 5: "max_cost"})
    ck.ob("R30c", UNK + "|unknown path", u_shape == WANT,
          "unknown_operator(allocator, o, args, flags, max_cost) has the same shape", site=uf.where(0), detail=u_shape)
    ucalls = d.calls_to(UNK)
    bad = []
    for b, t in ucalls:
        a = [d.expr_op(x, deep=False) for x in t["args"]]
        p = [param_of(d, a[0]), param_of(d, a[1]), param_of(d, a[2]), param_of(d, a[4])]
        fl = strip(a[3])
        if p != [2, 3, 4, 5] or not (fl[0] == "var" and dialect_flags_local(d, fl[2])):
            bad.append(d.where(b))
    ck.ob("R30c", CD + "op|unknown_operator calls", bool(ucalls) and not bad,
          "every unknown_operator call in ChiaDialect::op passes (allocator, o, argument_list, flags, max_cost)", site=d.where(0),
          detail={"calls": len(ucalls), "bad": bad})
    ck.floor("unknown_operator call sites in ChiaDialect::op", len(ucalls), 2)
    # everything in RuntimeDialect::op that is not the table call goes to the unknown path
    ts = [t for t in flag_tests(rop) if t["flag"] == "NO_UNKNOWN_OPS"]
    if ts and ind:
        ub = ts[0]["block"]
        exits_ok = True
        for b in sorted(rop.reachable_blocks()):
            if rop.term(b)["k"] == "switch" and rop.dominates(b, ind[0][0]) and b != ub:
                for tgt, v in rop.succ(b):
                    if not (rop.dominates(tgt, ind[0][0]) or tgt == ind[0][0]) and ub not in forward_reach(rop, tgt):
                        exits_ok = False
        ck.ob("R30c", RD + "op|fallthrough", exits_ok, "every operator not served by the table reaches the unknown-operator test",
              site=rop.where(ub))

    # ------------------------------------------------------------------ R30d
    rn = cr.fn("runtime_dialect::RuntimeDialect::new")
    ck.analysed(rn)
    fields = None
    for b in rn.reachable_blocks():
        for st in rn.stmts(b):
            rv = st.get("rv", {})
            if "agg" in rv and isinstance(rv["agg"][0], dict) and rv["agg"][0].get("adt", "").endswith("RuntimeDialect"):
                fields = dict(zip(rv["agg"][0]["fields"], rv["agg"][1]))
    if fields is None:
        raise mir.AnchorMissing("RuntimeDialect::new: struct construction not found")
    fl_param = [i for i in range(1, rn.nargs + 1) if rn.local_ty(i).endswith("ClvmFlags")]
    touched = []
    for b in rn.reachable_blocks():
        for st in rn.stmts(b):
            if st["d"]["l"] in fl_param:
                touched.append(rn.where(b))
            rv = st.get("rv", {})
            if "ref" in rv and rv["ref"][0] == "mut" and rv["ref"][1]["l"] in fl_param:
                touched.append(rn.where(b))
    fe = strip(rn.expr_op(fields["flags"], deep=False))
    ck.ob("R30d", "runtime_dialect::RuntimeDialect::new|flags", len(fl_param) == 1 and fe[0] == "var" and fe[2] == fl_param[0] and not touched,
          "RuntimeDialect::new stores its flags parameter unchanged", site=rn.where(0), detail={"stored": show(fe), "modified at": touched})
    kw = {k: show(rn.expr_op(fields[k])) for k in ("quote_kw", "apply_kw", "softfork_kw")}
    ck.ob("R30e", "runtime_dialect::RuntimeDialect::new|keywords",
          param_of(rn, rn.expr_op(fields["quote_kw"])) == 2 and param_of(rn, rn.expr_op(fields["apply_kw"])) == 3,
          "quote_kw and apply_kw are the caller's vectors, in this order", site=rn.where(0), detail=kw)
    sk = None
    for b in rn.reachable_blocks():
        for st in rn.stmts(b):
            rv = st.get("rv", {})
            if "agg" in rv and rv["agg"][0] == "array":
                vals = [strip(rn.expr_op(o)) for o in rv["agg"][1]]
                if all(v[0] == "const" for v in vals):
                    sk = [v[1] for v in vals]
    ck.ob("R30e", "runtime_dialect::RuntimeDialect::new|softfork keyword", sk == [oracle["keywords"]["softfork"]] and "box_assume_init_into_vec" in kw["softfork_kw"],
          "softfork_kw is vec![36]", site=rn.where(0), detail={"array": sk, "field": kw["softfork_kw"][:120]})
    for fn_, field in (("flags", "flags"),):
        g = cr.fn(RD + fn_)
        ck.analysed(g)
        r = [show(g.expr_rvalue(st["rv"])) for b in g.reachable_blocks() for st in g.stmts(b) if st["d"]["l"] == 0 and not st["d"]["p"]]
        ck.ob("R30d", RD + fn_, r == ["self." + field], f"{fn_}() returns self.{field}", site=g.where(0), detail=r)
    cn = cr.fn("chia_dialect::ChiaDialect::new")
    ck.analysed(cn)
    muts = [(b, t) for b, t in cn.calls() if any(rvm for rvm in [1]) and any(
        strip(cn.expr_op(a, deep=False))[0] == "ref" and strip(cn.expr_op(a, deep=False))[1] == "mut" for a in t["args"])]
    tests = flag_tests(cn)
    ok = len(muts) == 1 and (muts[0][1].get("callee") or "").endswith("ClvmFlags>::remove") and \
        show(cn.expr_op(muts[0][1]["args"][1])).endswith("LIMITS") and len(tests) == 1 and tests[0]["flag"] == "NEW_COST_MODEL" and \
        muts[0][0] in (forward_reach(cn, tests[0]["set_edge"]) - forward_reach(cn, tests[0]["clear_edge"]))
    ck.ob("R30d", "chia_dialect::ChiaDialect::new|normalisation", ok,
          "ChiaDialect::new changes the flags only by removing LIMITS, and only when NEW_COST_MODEL is set", site=cn.where(0),
          detail={"mutating calls": [(t.get("callee") or "?") + "(" + ", ".join(show(cn.expr_op(a)) for a in t["args"]) + ")" for _, t in muts]})
    n_lim = 0
    for cfg in ("default", "nofast"):
        crx = ctx.crate(cfg)
        tag = "" if cfg == "default" else "[no-fastpath] "
        for path, g in sorted(crx.fns.items()):
            if is_test_fn(g) or path == "chia_dialect::ChiaDialect::new":
                continue
            try:
                gts = flag_tests(g)
            except Exception:
                continue
            lim = [t for t in gts if t["flag"] == "LIMITS"]
            if not lim:
                continue
            ck.analysed(g)
            ncm = {t["block"]: t for t in gts if t["flag"] == "NEW_COST_MODEL"}
            for i, t in enumerate(lim):
                n_lim += 1
                join = skip(g, t["clear_edge"])
                b = t["set_edge"]
                seen = set()
                ok = False
                # walk straight-line code (pure flag reads only) to the next branch
                while b not in seen:
                    seen.add(b)
                    term = g.term(b)
                    if term["k"] == "goto" and not g.stmts(b):
                        b = term["target"]
                    elif term["k"] == "call" and (term.get("callee") or "").endswith("ClvmFlags>::contains") and term.get("target") is not None:
                        b = term["target"]
                    elif term["k"] == "switch":
                        if b in ncm:
                            ok = skip(g, ncm[b]["set_edge"]) == join
                        break
                    else:
                        break
                ck.ob("R30d", f"{tag}{path}|LIMITS test {i}", ok,
                      "a LIMITS test is immediately conjoined with !NEW_COST_MODEL: with both flags set the code behaves as without LIMITS",
                      site=g.where(t["block"]))
    ck.floor("LIMITS tests", n_lim, 16)

    # ------------------------------------------------------------------ R30e
    for name, fieldname in (("quote_kw", "quote_kw"), ("apply_kw", "apply_kw"), ("softfork_kw", "softfork_kw")):
        g = cr.fn(RD + name)
        ck.analysed(g)
        r = [show(g.expr_rvalue(st["rv"])) for b in g.reachable_blocks() for st in g.stmts(b) if st["d"]["l"] == 0 and not st["d"]["p"]]
        want = f"(*Index>::index(&self.{fieldname}, 0) as u32)"
        ck.ob("R30e", RD + name, r == [want], f"{name}() is byte 0 of self.{fieldname}", site=g.where(0), detail=r)
        c = cr.fn(CD + name)
        rc = [strip(c.expr_rvalue(st["rv"])) for b in c.reachable_blocks() for st in c.stmts(b) if st["d"]["l"] == 0 and not st["d"]["p"]]
        kwname = name[:-3]
        ck.ob("R30e", CD + name, len(rc) == 1 and rc[0][0] == "const" and rc[0][1] == oracle["keywords"][kwname],
              f"ChiaDialect::{name}() is {oracle['keywords'][kwname]}", site=c.where(0), detail=[show(x) for x in rc])
    g = cr.fn(RD + "softfork_extension")
    r = [show(g.expr_rvalue(st["rv"])) for b in g.reachable_blocks() for st in g.stmts(b) if st["d"]["l"] == 0 and not st["d"]["p"]]
    ck.ob("R30e", RD + "softfork_extension", r == ["Default()"] and not any(g.term(b)["k"] == "switch" for b in g.reachable_blocks()),
          "RuntimeDialect never enables an operator extension", site=g.where(0), detail=r)
    g = cr.fn(RD + "gc_candidate")
    rc = [strip(g.expr_rvalue(st["rv"])) for b in g.reachable_blocks() for st in g.stmts(b) if st["d"]["l"] == 0 and not st["d"]["p"]]
    ck.ob("R30e", RD + "gc_candidate", len(rc) == 1 and rc[0][0] == "const" and rc[0][1] in (0, False), "RuntimeDialect never garbage-collects (ChiaDialect without ENABLE_GC)",
          site=g.where(0), detail=[show(x) for x in rc])
    cg = cr.fn(CD + "gc_candidate")
    gt = flag_tests(cg)
    okg = False
    if gt and gt[0]["flag"] == "ENABLE_GC" and gt[0]["block"] in (0, cg.term(0).get("target")):
        clr = forward_reach(cg, gt[0]["clear_edge"]) - forward_reach(cg, gt[0]["set_edge"])
        vals = [strip(cg.expr_rvalue(st["rv"])) for b in clr for st in cg.stmts(b) if st["d"]["l"] == 0 and not st["d"]["p"]]
        okg = len(vals) == 1 and vals[0][0] == "const" and vals[0][1] in (0, False)
    ck.ob("R30e", CD + "gc_candidate", okg, "ChiaDialect::gc_candidate is false whenever ENABLE_GC is clear", site=cg.where(0))
    a1 = cr.fn(RD + "allow_unknown_ops")
    a2 = cr.fn(CD + "allow_unknown_ops")
    s1 = [show(a1.expr_rvalue(st["rv"])) for b in a1.reachable_blocks() for st in a1.stmts(b) if st["d"]["l"] == 0 and not st["d"]["p"]]
    s2 = [show(a2.expr_rvalue(st["rv"])) for b in a2.reachable_blocks() for st in a2.stmts(b) if st["d"]["l"] == 0 and not st["d"]["p"]]
    ck.ob("R30e", "allow_unknown_ops", s1 == s2 == ["Not(::contains(&self.flags, NO_UNKNOWN_OPS))"], "both dialects: allow_unknown_ops() == !flags.contains(NO_UNKNOWN_OPS)",
          site=a1.where(0), detail={"runtime": s1, "chia": s2})
