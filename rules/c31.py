"""C31 — softfork guards are isolated and always yield nil.

R31a  exit_guard: every successful return is reached only if the guard is cost-exempt or
      current_cost == expected_cost (the mismatch edge is an error, SoftforkCostMismatch).
R31b  every successful path of exit_guard restores the FULL checkpoint recorded at entry exactly once,
      pops the guarded program's value once, pushes nil once, and contributes 0; apply_op records
      allocator.checkpoint() in the guard, expected_cost = current_cost + declared cost (non-exempt),
      pushes exactly one ExitGuard step per guard before evaluating the guarded program; the run loop
      hands the current cost accumulator to exit_guard.
R31c  tables: nesting limit 20 under LIMIT_SOFTFORK (len >= 20 -> SoftforkStackDepthExceeded);
      cost_exempt <=> PreHardFork; extension table (NEW: 0,1 -> PreHardFork; classic: 0 -> Bls,
      1 -> Keccak; otherwise Default) and Default -> UnknownSoftforkExtension.
"""
import re
from lib import mir, patheff, flagregion as fr
from lib.mir import strip, show, walk, compare_norm, show_norm
from rules.c04 import pushes

RP = "run_program::RunProgramContext::<'a, D>::"


def run(ctx):
    ck = ctx.check
    cr = ctx.crate("default")
    ck.rule("R31a", "a guard exits successfully only if it is cost-exempt or consumed exactly its declared cost")
    ck.rule("R31b", "guard exit restores the full entry checkpoint once, replaces the program's value by nil, charges 0; guard entry records checkpoint and expected cost and schedules exactly one ExitGuard")
    ck.rule("R31c", "nesting limit, cost-exempt predicate and extension table")
    ck.rule("R31d", "a full restore resets every count to its checkpointed value (field coverage and order of the restore)")
    from rules import c12
    c12.check_restores(ck, cr, "R31d")

    eg = cr.fn(RP + "exit_guard")
    ck.analysed(eg)
    eg.status()
    reach = eg.reachable_blocks()
    okb = [b for b in reach if eg._last_ret.get(b) == "OK"]
    # E: switch on cost_exempt(), N: switch on current_cost != expected_cost
    E = N = None
    for b in sorted(reach):
        if eg.term(b)["k"] != "switch":
            continue
        e = eg.switch_cond(b)
        if any(x[0] == "call" and x[1].endswith("SoftforkGuard::cost_exempt") for x in walk(e)):
            be = eg.bool_edges(b)
            neg = strip(e)[0] == "un"
            E = (b, be[1] if neg else be[0], be[0] if neg else be[1])  # (block, exempt edge, non-exempt edge)
        n = compare_norm(e)
        nd = compare_norm(eg.denamed(e))
        if nd and nd[2] in ("!=0", "==0") and nd[1] == 0 and len(nd[0]) == 2 and "$2" in nd[0] and any(k.endswith(".expected_cost") for k in nd[0]):
            be = eg.bool_edges(b)
            mism, match = (be[0], be[1]) if n[2] == "!=0" else (be[1], be[0])
            N = (b, mism, match, n)
    ok = E is not None and N is not None
    det = {}
    if not ok:
        # the same predicate behind a private bool helper:  if !guard.accepts(cost) { Err(SoftforkCostMismatch) }
        for b in sorted(reach):
            if eg.term(b)["k"] != "switch" or eg.term(b).get("ty") != "bool":
                continue
            e = strip(eg.switch_cond(b))
            neg = False
            while e[0] == "un" and e[1] == "Not":
                neg = not neg
                e = strip(e[2])
            if e[0] != "call" or e[1] not in cr.fns or cr.fns[e[1]].local_ty(0) != "bool":
                continue
            h = cr.fns[e[1]]
            be = eg.bool_edges(b)
            acc_edge, rej_edge = (be[1], be[0]) if neg else (be[0], be[1])
            # arguments: (the guard, the current cost = parameter 2 of exit_guard)
            a_cost = [strip(eg.expr_op(a, deep=False)) for a in eg.term(eg.defs(strip(eg.expr_op(eg.term(b)["on"], deep=False))[2])[0][0])["args"]] \
                if False else None
            call_args = [show(eg.denamed(x)) for x in e[2]]
            # helper body: _0 = true under cost_exempt() == true, else _0 = (param == self.expected_cost)
            rets = []
            for hb in h.reachable_blocks():
                for st in h.stmts(hb):
                    if st.get("d") and st["d"]["l"] == 0 and not st["d"]["p"] and "rv" in st:
                        conds = []
                        for x in h.dominators(hb):
                            if h.term(x)["k"] == "switch":
                                hbe = h.bool_edges(x)
                                if hbe:
                                    c = show(h.denamed(h.switch_cond(x)))
                                    edge = "T" if (hbe[0] == hb or h.dominates(hbe[0], hb)) else "F" if (hbe[1] == hb or h.dominates(hbe[1], hb)) else "-"
                                    conds.append((c, edge))
                        rets.append((show(h.denamed(h.expr_rvalue(st["rv"]))), conds))
            good_h = sorted(r for r, _ in rets) == sorted(["1", "($2 Eq $1.expected_cost)"]) or sorted(r for r, _ in rets) == sorted(["true", "($2 Eq $1.expected_cost)"])
            for r, conds in rets:
                ex = [(c, e_) for c, e_ in conds if "cost_exempt" in c]
                if r in ("1", "true"):
                    good_h = good_h and ex and ex[0][1] == "T"
                else:
                    good_h = good_h and ex and ex[0][1] == "F"
            det = {"helper": h.path, "helper returns": rets, "arguments": call_args}
            okh = good_h and len(call_args) == 2 and call_args[1] == "$2" and eg.is_error_block(rej_edge) \
                and eg.err_variants_from(rej_edge) == {"SoftforkCostMismatch"} and bool(okb) and all(eg.dominates(acc_edge, x) or acc_edge == x for x in okb)
            ck.ob("R31a", RP + "exit_guard|cost equality", bool(okh),
                  "success is reachable only when the guard's predicate holds: cost_exempt() or current cost == expected_cost (predicate in a private helper)",
                  site=eg.where(b), detail=det)
            ok = None
            break
    if ok:
        det = {"mismatch_test": show_norm(N[3]), "mismatch_edge_errors": sorted(eg.err_variants_from(N[1]))}
        ok = (eg.is_error_block(N[1]) and eg.err_variants_from(N[1]) == {"SoftforkCostMismatch"}
              and all(eg.dominates(E[0], b) for b in okb)
              and eg.dominates(E[2], N[0])
              and not any(b in okb for b in eg.reach_from([E[2]], blocked={N[2]}))
              and bool(okb))
    if ok is not None:
        ck.ob("R31a", RP + "exit_guard|cost equality", ok,
              "success is reachable only through `cost_exempt()` or through the equal edge of current_cost == guard.expected_cost",
              site=eg.where(N[0]) if N else eg.where(0), detail=det)

    # R31b path effects
    be = {}

    def add(b, cls):
        be.setdefault(b, []).append((10 ** 6, cls, 1))

    for b, t in eg.calls():
        c = t.get("callee") or ""
        if c == "allocator::Allocator::restore_checkpoint":
            # the popped guard record's own checkpoint (by provenance: field allocator_state of the value popped from softfork_stack)
            arg = show(eg.denamed(eg.expr_op(t["args"][1])))
            add(b, "restore" if re.search(r"pop\(&mut \$1\.softfork_stack\).*\)\.allocator_state$", arg) else "restore-other")
        elif c == "allocator::Allocator::restore_transparent_checkpoint":
            add(b, "restore-other")
        elif c == RP + "pop":
            add(b, "pop")
        elif c == RP + "push":
            arg = show(eg.expr_op(t["args"][1]))
            add(b, "push-nil" if "Allocator::nil(" in arg else "push-other")
        elif c.endswith("Vec::<T, A>::pop") and "softfork_stack" in show(eg.expr_op(t["args"][0], deep=False)):
            add(b, "guard-pop")
    classes = ["restore", "restore-other", "pop", "push-nil", "push-other", "guard-pop"]

    def ret_kind(rv, b, fn):
        e = strip(fn.expr_rvalue(rv))
        if e[0] == "agg" and e[1].endswith("Result::Ok"):
            v = mir.const_eval(e[2][0]) if e[2] else None
            return f"Ok({v})"
        if e[0] == "agg" and e[1].endswith("Result::Err"):
            return "ERR"
        return "OTHER"

    exits = patheff.run(eg, be, ret_kind, classes)
    n_ok = 0
    for kind, counts in sorted(exits):
        if not kind.startswith("Ok"):
            continue
        n_ok += 1
        c = dict(zip(classes, counts))
        good = kind == "Ok(0)" and c == {"restore": 1, "restore-other": 0, "pop": 1, "push-nil": 1, "push-other": 0, "guard-pop": 1}
        ck.ob("R31b", RP + f"exit_guard|{kind}|" + ",".join(f"{k}={v}" for k, v in c.items() if v), good,
              "a completing guard pops its record, restores the full entry checkpoint once, pops the program's value, pushes nil and charges 0",
              site=eg.where(0), detail={k: v for k, v in c.items() if v})
    ck.floor("successful exit paths of exit_guard", n_ok, 1)
    # order: restore before push(nil) (the nil node must survive the restore: nil is a static small atom)
    # guard entry
    ap = cr.fn(RP + "apply_op")
    ck.analysed(ap)
    lits = []
    for b in ap.reachable_blocks():
        for st in ap.stmts(b):
            rv = st.get("rv", {})
            if "agg" in rv and isinstance(rv["agg"][0], dict) and rv["agg"][0].get("adt", "").endswith("SoftforkGuard"):
                lits.append((b, dict(zip(rv["agg"][0]["fields"], [ap.expr_op(o) for o in rv["agg"][1]]))))
    okl = len(lits) == 1
    det = {}
    if okl:
        b, fields = lits[0]
        det = {k: show(v)[:120] for k, v in fields.items()}
        cp = strip(fields.get("allocator_state", ("unknown",)))
        okl = cp[0] in ("call", "named") and "Allocator::checkpoint(" in show(cp) and "transparent" not in show(cp)
    ck.ob("R31b", RP + "apply_op|guard record", okl, "the guard records a FULL allocator checkpoint taken at entry",
          site=ap.where(lits[0][0]) if lits else ap.where(0), detail=det)
    # expected cost of a non-exempt guard = current_cost + declared cost: read from the guard record's field (no local names)
    forms = []
    if lits:
        b, fields = lits[0]
        e = fields.get("expected_cost")
        src = strip(e) if e is not None else None
        ls = [x[2] for x in walk(src) if x[0] in ("var", "named")] if src is not None else []
        for l in ls[:1]:
            for s_ in ap.defs(l):
                if s_[1] != "T":
                    forms.append(show(ap.denamed(ap.expr_rvalue(ap.def_rvalue(s_)))))
        if not ls and src is not None:
            forms.append(show(ap.denamed(src)))
    okf = any(f.startswith("($2 Add ") and "uint_atom" in f and "first(" in f for f in forms)
    ck.ob("R31b", RP + "apply_op|expected cost", okf, "a non-exempt guard expects current_cost + declared cost (uint_atom of the first argument) at exit",
          site=ap.where(0), detail=[f[:160] for f in forms])
    sp = [(b, m) for b, m, a in pushes(ap, "softfork_stack") if m == "push"]
    gp = [(b, a) for b, m, a in pushes(ap, "op_stack") if m == "push" and a and "ExitGuard" in show(a[0])]
    evs = [b for b, t in ap.calls_to(RP + "eval_pair") if sp and b in ap.reach_from([sp[0][0]])]
    okp = len(sp) == 1 and len(gp) == 1 and ap.dominates(sp[0][0], gp[0][0]) and ap.postdominates(gp[0][0], sp[0][0]) and \
        len(evs) == 1 and ap.dominates(gp[0][0], evs[0])
    ck.ob("R31b", RP + "apply_op|ExitGuard scheduled", okp,
          "exactly one ExitGuard step is pushed for each guard record, before the guarded program is evaluated",
          site=ap.where(sp[0][0]) if sp else ap.where(0), detail={"guard pushes": len(sp), "ExitGuard pushes": len(gp)})
    rp = cr.fn(RP + "run_program")
    egc = rp.calls_to(RP + "exit_guard")
    # the running cost = the local returned in the cost slot of Ok(Reduction(cost, ..))
    rp.status()
    cost_l = None
    for b in rp.reachable_blocks():
        if rp._last_ret.get(b) == "OK":
            for st in rp.stmts(b):
                if st.get("d") and st["d"]["l"] == 0 and "rv" in st:
                    for x in walk(rp.expr_rvalue(st["rv"], deep=False)):
                        if x[0] == "agg" and x[1].endswith("Reduction") and x[2] and strip(x[2][0])[0] in ("var", "named"):
                            cost_l = strip(x[2][0])[2]
    arg1 = strip(rp.expr_op(egc[0][1]["args"][1], deep=False)) if len(egc) == 1 else None
    okr = arg1 is not None and arg1[0] in ("var", "named") and arg1[2] == cost_l and cost_l is not None
    ck.ob("R31b", RP + "run_program|ExitGuard step", okr, "the ExitGuard step passes the running cost to exit_guard",
          site=rp.where(egc[0][0]) if egc else rp.where(0))

    # R31c nesting
    nest = None
    for b in sorted(ap.reachable_blocks()):
        if ap.term(b)["k"] == "switch":
            n = compare_norm(ap.switch_cond(b))
            if n and list(n[0]) == ["len(self.softfork_stack)"]:
                bb = ap.bool_edges(b)
                nest = (b, n, ap.is_error_block(bb[0]) and ap.err_variants_from(bb[0]) == {"SoftforkStackDepthExceeded"})
    under = False
    if nest:
        for t in fr.flag_tests(ap):
            if t["flag"] == "LIMIT_SOFTFORK" and ap.dominates(t["set_edge"], nest[0]):
                # ... and EVERY guard entry passes the depth test when the flag is set
                every = bool(sp) and ap.dominates(t["block"], sp[0][0]) and \
                    sp[0][0] not in ap.reach_from([t["set_edge"]], blocked={nest[0]})
                under = every
    ck.ob("R31c", RP + "apply_op|nesting limit", nest is not None and nest[1] == ({"len(self.softfork_stack)": 1}, -19, ">0") and nest[2] and under,
          "under LIMIT_SOFTFORK a guard is refused iff 20 guards are already open (21 deep fails, 20 succeed)",
          site=ap.where(nest[0]) if nest else ap.where(0), detail=show_norm(nest[1]) if nest else None)
    # cost_exempt <=> PreHardFork
    ce = cr.fn("run_program::SoftforkGuard::cost_exempt")
    ck.analysed(ce)
    okce = False
    for b in ce.reachable_blocks():
        dv = ce.discr_variants(b)
        if dv:
            true_vals = set()
            for tgt, v in ce.succ(b):
                vals = set()
                for bb in ce.reach_from([tgt]):
                    for st in ce.stmts(bb):
                        if st.get("d") and st["d"]["l"] == 0 and "use" in st["rv"] and "c" in st["rv"]["use"]:
                            vals.add(st["rv"]["use"]["c"].get("val"))
                    break
                if vals == {1}:
                    true_vals.add(dv.get(v, "otherwise") if v != "otherwise" else "otherwise")
            okce = true_vals == {"PreHardFork"}
    ck.ob("R31c", ce.path, okce, "a guard is cost-exempt iff its operator set is PreHardFork", site=ce.where(0))
    # extension table
    se = cr.fn("<chia_dialect::ChiaDialect as dialect::Dialect>::softfork_extension")
    ck.analysed(se)
    # path enumeration (the function is loop-free): every path is labelled with what it assumed about NEW_COST_MODEL and about
    # the extension number, and ends in one OperatorSet variant; the table is read off the paths, whatever the nesting order
    ftests = {t["block"]: t for t in fr.flag_tests(se) if t["flag"] == "NEW_COST_MODEL"}
    table = {}
    paths = []

    def ext_switch(bk):
        tm = se.term(bk)
        if tm["k"] != "switch" or tm.get("ty") != "u32":
            return False
        e = strip(se.expr_op(tm["on"]))
        return any(x[0] == "var" and x[2] == 2 for x in walk(e))

    def walk_paths(bk, ncm, ext, result, depth=0):
        if depth > 60:
            return
        for st in se.stmts(bk):
            if st.get("d") and st["d"]["l"] == 0 and "rv" in st:
                e = strip(se.expr_rvalue(st["rv"]))
                if e[0] == "agg":
                    result = e[1].split("::")[-1]
        tm = se.term(bk)
        if tm["k"] == "return":
            paths.append((ncm, ext, result))
            return
        if bk in ftests:
            t_ = ftests[bk]
            walk_paths(t_["set_edge"], True, ext, result, depth + 1)
            walk_paths(t_["clear_edge"], False, ext, result, depth + 1)
            return
        if ext_switch(bk):
            listed = [v for _, v in se.succ(bk) if v != "otherwise"]
            for tgt, v in se.succ(bk):
                walk_paths(tgt, ncm, v if v != "otherwise" else ("not", tuple(sorted(listed))), result, depth + 1)
            return
        for tgt, _ in se.succ(bk):
            walk_paths(tgt, ncm, ext, result, depth + 1)
    walk_paths(0, None, None, None)
    for model, mname in ((True, "new"), (False, "classic")):
        for extv in (0, 1, "otherwise"):
            res = set()
            for ncm, ext, result in paths:
                if ncm is not None and ncm != model:
                    continue
                if ext is None:
                    pass
                elif isinstance(ext, tuple):
                    if extv != "otherwise" and extv in ext[1]:
                        continue
                elif extv == "otherwise" or ext != extv:
                    continue
                res.add(result)
            table[(mname, extv)] = sorted(x for x in res if x)
    want = {("new", 0): ["PreHardFork"], ("new", 1): ["PreHardFork"], ("new", "otherwise"): ["Default"],
            ("classic", 0): ["Bls"], ("classic", 1): ["Keccak"], ("classic", "otherwise"): ["Default"]}
    ck.ob("R31c", se.path, table == want, "extension table: new model 0,1 -> PreHardFork; classic 0 -> Bls, 1 -> Keccak; otherwise Default",
          site=se.where(0), detail={f"{k[0]}:{k[1]}": v for k, v in table.items()})
    ps = cr.fn(RP + "parse_softfork_arguments")
    ck.analysed(ps)
    ps.status()
    unk = any("UnknownSoftforkExtension" in ps.err_variants_from(b) for b in ps.reachable_blocks())
    okps = False
    for b in ps.reachable_blocks():
        if ps.term(b)["k"] == "switch":
            e = show(ps.switch_cond(b))
            if "Default" in e and ("eq(" in e or " Eq " in e):
                bb = ps.bool_edges(b)
                okps = ps.is_error_block(bb[0]) and ps.err_variants_from(bb[0]) == {"UnknownSoftforkExtension"}
    ck.ob("R31c", ps.path, unk and okps, "an extension that maps to Default is an UnknownSoftforkExtension error (no guard is entered)",
          site=ps.where(0))
