"""Value-preserving restore rules shared by C04 and C12."""
from lib import mir, patheff
from lib.mir import strip, show, canon_atom, walk, compare_norm, show_norm
from rules import alloc_common as ac

A = "allocator::Allocator::"
CLASSES = ["restore", "atoms-", "atoms+", "heap-", "heap+", "pairs", "creator", "other"]


def check_maybe_restore(ck, cr, rule):
    """per-path accounting of Allocator::maybe_restore_with_node"""
    f = cr.fn(A + "maybe_restore_with_node")
    ck.analysed(f)
    be = {}

    def add(b, order, cls, d=1):
        be.setdefault(b, []).append((order, cls, d))

    efs = ac.effects(f)
    for e in efs:
        order = 10 ** 6 if e.idx == "T" else e.idx
        if e.kind == "ghost-sub" and e.resource == "atoms":
            add(e.b, order, "atoms-")
        elif e.kind == "ghost-sub" and e.resource == "heap":
            add(e.b, order, "heap-")
        elif e.kind == "vec-grow" and e.resource == "atoms":
            add(e.b, order, "atoms+")
        elif e.kind in ("ghost-add",) and e.resource == "atoms":
            add(e.b, order, "atoms+")
        elif e.kind in ("vec-grow", "ghost-add") and e.resource == "heap":
            add(e.b, order, "heap+")
        elif e.resource == "pairs":
            add(e.b, order, "pairs")
        else:
            add(e.b, order, "other")
    for b, t in f.calls():
        c = t.get("callee") or ""
        if c == A + "restore_transparent_checkpoint":
            add(b, 10 ** 6, "restore")
        elif c == A + "restore_checkpoint":
            add(b, 10 ** 6, "other")
        elif c.startswith(A + "new_") and cr.fns.get(c) is not None and cr.fns[c].d.get("impl_for") == "allocator::Allocator":
            add(b, 10 ** 6, "creator")
        elif c.startswith(A) and cr.fns.get(c) is not None and "&mut allocator::Allocator" in cr.fns[c].locals[1]["ty"]:
            if not ac.spliceable(cr.fns[c]):      # a private accounting helper's effects are already placed at this call
                add(b, 10 ** 6, "other")

    def ret_kind(rv, b, fn):
        e = strip(fn.expr_rvalue(rv))
        if e[0] == "agg" and e[1].endswith("Result::Ok") and e[2]:
            inner = strip(e[2][0])
            if inner[0] == "agg":
                return "Ok(" + inner[1].split("::")[-1] + ")"
            return "Ok(?)"
        if e[0] == "agg" and e[1].endswith("Result::Err"):
            return "ERR"
        return "OTHER"

    exits = patheff.run(f, be, ret_kind, CLASSES)
    kinds = set()
    for kind, counts in sorted(exits):
        c = dict(zip(CLASSES, counts))
        desc = {k: v for k, v in c.items() if v}
        key = f"{f.path}|{kind}|" + ",".join(f"{k}={v}" for k, v in sorted(desc.items()))
        if kind in ("ERR", "NONE", "OTHER") or kind.startswith("DELEGATED"):
            continue
        kinds.add(kind)
        if kind == "Ok(Aborted)":
            ok = not desc
            what = "an aborted restore changes nothing"
        elif kind == "Ok(NoReplace)":
            ok = desc == {"restore": 1}
            what = "NoReplace: exactly one transparent restore and nothing else"
        elif kind == "Ok(Replace)":
            base = c["restore"] == 1 and c["atoms-"] == 1 and c["pairs"] == 0 and c["other"] == 0
            via_push = c["atoms+"] == 1 and c["creator"] == 0 and c["heap-"] == 0 and c["heap+"] == 0
            via_new = c["atoms+"] == 0 and c["creator"] == 1 and c["heap-"] == 1 and c["heap+"] == 0
            ok = base and (via_push or via_new)
            what = ("Replace: one transparent restore, ghost atom count -1 and exactly one re-created atom "
                    "(a re-pushed view of old bytes, or new_atom(bytes) compensated by ghost heap -len)")
        else:
            ok = False
            what = "unknown verdict"
        ck.ob(rule, key, ok, what, site=f.where(0), detail=desc or "no effect")
    ck.ob(rule, f"{f.path}|verdicts", kinds == {"Ok(Aborted)", "Ok(NoReplace)", "Ok(Replace)"},
          "all three verdicts are produced", site=f.where(0), detail=sorted(kinds))
    # order: the ghost counters are compensated BEFORE the atom is re-created, so that the
    # re-creation's own limit tests see the counts as if the old atom were gone
    creators = [b for b, t in f.calls() if (t.get("callee") or "").startswith(A + "new_")]
    grows = [e.b for e in efs if e.kind == "vec-grow" and e.resource == "atoms"]
    subs_all = [e for e in efs if e.kind == "ghost-sub"]
    for cb in creators + grows:
        rel = [e for e in subs_all if cb in f.reach_from([e.b]) or e.b in f.reach_from([cb])]
        late = [e.what for e in rel if not (f.dominates(e.b, cb) and e.b != cb)]
        ck.ob(rule, f"{f.path}|order|{f.term(cb).get('callee', '').split('::')[-1]}", bool(rel) and not late,
              "ghost counters are reduced before the preserved atom is re-created (its limit tests must not see it counted twice)",
              site=f.where(cb), detail={"decrements on this path": [e.what for e in rel], "after the creation": late})
    # the compensated length equals the length of the bytes handed to new_atom
    subs = [e for e in efs if e.kind == "ghost-sub" and e.resource == "heap"]
    news = f.calls_to(A + "new_atom")
    ok = len(subs) == 1 and len(news) == 1
    det = {}
    if ok:
        arg = strip(f.expr_op(news[0][1]["args"][1]))
        det = {"ghost_heap -=": subs[0].amount_s, "new_atom arg": show(arg)[:200]}
        # the slice handed to new_atom is  saved[..len]  with the same `len`
        ok = any(canon_atom(x) == subs[0].amount_s or show(x) == show(strip(subs[0].amount)) for x in walk(arg))
        # ... and the guard  ghost_heap < len  => InternalError precedes it
    ck.ob(rule, f"{f.path}|compensated length", ok,
          "ghost heap is reduced by exactly the length of the bytes re-created with new_atom", site=f.where(0), detail=det)
    return f


def check_node_status(ck, cr, rule):
    """checkpoint_node_status compares each node kind with the checkpoint field of the SAME kind"""
    f = cr.fn(A + "checkpoint_node_status")
    ck.analysed(f)
    top = None
    for b in sorted(f.reachable_blocks()):
        dv = f.discr_variants(b)
        if dv and set(dv.values()) >= {"Pair", "Bytes", "SmallAtom"}:
            top = (b, dv)
            break
    if not top:
        raise mir.AnchorMissing("checkpoint_node_status: match on object_type not found")
    b0, dv = top
    # parameters by position (self, checkpoint, node): $2 is the checkpoint, $3 the node - whatever they are called
    want = {"Pair": [("NodePtr::index($3)", "$2.pairs")],
            "Bytes": [("NodePtr::index($3)", "$2.atoms"), (".start", "$2.u8s")]}
    for tgt, v in f.succ(b0):
        if v == "otherwise":
            continue
        name = dv.get(v)
        region = f.reach_from([tgt])
        tests = []
        rets = set()
        for b in sorted(region):
            if f.term(b)["k"] == "switch":
                n = compare_norm(f.switch_cond(b))
                if n:
                    tests.append((f.unparam(n[0]), n[1], n[2]))
            for st in f.stmts(b):
                d = st.get("d")
                if d and d["l"] == 0 and not d["p"]:
                    e = strip(f.expr_rvalue(st["rv"]))
                    if e[0] == "agg":
                        rets.add(e[1].split("::")[-1])
        if name == "SmallAtom":
            ck.ob(rule, f"{f.path}|SmallAtom", rets == {"Before"} and not tests,
                  "an inline small atom is never invalidated by a restore", site=f.where(tgt), detail=sorted(rets))
            continue
        ok = len(tests) == len(want[name])
        det = [show_norm(t) for t in tests]
        if ok:
            for t, (lhs, rhs) in zip(tests, want[name]):
                terms = t[0]
                ok = ok and t[2] == ">0" and t[1] == 0 and len(terms) == 2 and terms.get(rhs) == 1 and \
                    any(k.endswith(lhs) or lhs in k for k, c in terms.items() if c == -1)
        ck.ob(rule, f"{f.path}|{name}", ok,
              f"a {name} node is 'Before' iff its index is below the checkpoint's count of the SAME kind"
              + (" (and its bytes are old iff start < checkpoint.u8s)" if name == "Bytes" else ""),
              site=f.where(tgt), detail=det)
