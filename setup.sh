#!/bin/sh
# Build the framework offline from files on disk: the mirfacts driver (rustc_private, nightly,
# zero dependencies). Facts themselves are built on demand by ./check from /repo's current tree.
set -e
cd "$(dirname "$0")"
export CARGO_NET_OFFLINE=true
(cd mirfacts && cargo +nightly build --release --offline 2>&1 | tail -3)
mkdir -p .cache evidence
# warm the dependency check caches of the four analysed configurations (optional; speeds up the first check)
python3 lib/facts.py default >/dev/null 2>&1 &
python3 lib/facts.py nofast >/dev/null 2>&1 &
python3 lib/facts.py diag >/dev/null 2>&1 &
python3 lib/facts.py wheel >/dev/null 2>&1 &
python3 -c "import sys; sys.path.insert(0, '.'); from lib import facts; facts.fixtures_facts()" >/dev/null 2>&1 &
wait
python3 -m compileall -q lib rules >/dev/null 2>&1 || true
echo setup done
