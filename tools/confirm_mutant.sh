#!/bin/bash
# confirm_mutant.sh <id> <n> : confirm seeded change n of property <id> from /var/tmp/incoming/<id>
# in a scratch worktree of /repo HEAD: (1) patch applies and builds, (2) full suite passes with it,
# (3) demo fails with it, (4) demo passes without it. Prints a one-line verdict.
id=$1; n=$2
src=/var/tmp/incoming/$id
wt=${CONFIRM_WT:-/var/tmp/confirm-wt}
tgt=${CONFIRM_TGT:-/var/tmp/confirm-tgt}
export CARGO_NET_OFFLINE=true CARGO_TARGET_DIR=$tgt
log=$src/confirm$n.log
: > $log
if [ ! -d $wt ]; then git -C /repo worktree add -q --detach $wt HEAD >>$log 2>&1; fi
cd $wt && git checkout -q --detach $(git -C /repo rev-parse HEAD) && git checkout -q -- . && git clean -fdq -e target
demo=$(ls $src/demo$n.* 2>/dev/null | head -1)
ext="${demo##*.}"
if ! git apply --check $src/patch$n.diff >>$log 2>&1; then echo "$id/$n: PATCH-DOES-NOT-APPLY"; exit 1; fi
verdict=""
run_demo() {
  if [ "$ext" = "rs" ]; then
    cp $demo $wt/tests/demo_${id}_$n.rs
    cargo test --offline --test demo_${id}_$n >>$log 2>&1; r=$?
    rm -f $wt/tests/demo_${id}_$n.rs
    return $r
  else
    # python demo: needs the built wheel
    cargo build --release -p clvm_rs --offline >>$log 2>&1 || return 99
    rm -rf /var/tmp/confirm-py-$id && mkdir -p /var/tmp/confirm-py-$id && cp -r $wt/wheel/python/clvm_rs /var/tmp/confirm-py-$id/ && cp $tgt/release/libclvm_rs.so /var/tmp/confirm-py-$id/clvm_rs/clvm_rs.so
    PYTHONPATH=/var/tmp/confirm-py-$id python3 $demo >>$log 2>&1
    return $?
  fi
}
# without the change
run_demo; base=$?
git apply $src/patch$n.diff
cargo test --workspace --no-fail-fast --offline >$src/suite$n.log 2>&1; suite=$?
npass=$(grep -E "^test result: ok. 1375 passed" $src/suite$n.log | wc -l)
run_demo; withp=$?
git checkout -q -- . ; git clean -fdq -e target
echo "$id/$n: demo-without=$base suite-exit=$suite suite-1375=$npass demo-with=$withp  => $([ $base = 0 ] && [ $suite = 0 ] && [ $npass = 1 ] && [ $withp != 0 ] && echo CONFIRMED || echo NOT-CONFIRMED)"
