#!/bin/bash
# confirm_queue.sh "<id> <n>" ... : confirm seeded changes one after another (single scratch worktree), append verdicts to confirm-all.txt
while pgrep -f tools/confirm_mutant.sh >/dev/null; do sleep 20; done
for item in "$@"; do set -- $item; /verif/tools/confirm_mutant.sh $1 $2 >> /var/tmp/incoming/confirm-all.txt 2>&1; done
echo "queue done: $*" >> /var/tmp/incoming/confirm-queue.log
