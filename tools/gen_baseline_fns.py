#!/usr/bin/env python3
"""Regenerate oracle/private_fns.json: the private functions of /repo's current tree in every analysed build configuration.
lib/inline_mir.py inlines only private functions that are not in this list (helpers introduced after the rules were frozen)."""
import json, os, sys
VERIF = os.path.dirname(os.path.dirname(os.path.abspath(__file__)))
sys.path.insert(0, VERIF)
from lib import mir, facts  # noqa: E402
out = set()
for cfg, name in (("default", "clvmr"), ("nofast", "clvmr"), ("diag", "clvmr"), ("wheel", "clvm_rs")):
    dirs = facts.ensure([cfg])
    cr = mir.Crate(os.path.join(dirs[cfg], name + ".json"))
    out |= {p for p, f in cr.fns.items() if f.d.get("vis") == "priv" and f.d.get("kind") != "Closure"}
old = json.load(open(os.path.join(VERIF, "oracle", "private_fns.json")))
old["fns"] = sorted(out)
json.dump(old, open(os.path.join(VERIF, "oracle", "private_fns.json"), "w"), indent=0)
print(len(out), "private functions listed")
