#!/usr/bin/env python3
"""Generate /verif/MANIFEST.json from the claims table below (one entry per claimed property)."""
import json
import os

VERIF = os.path.dirname(os.path.dirname(os.path.abspath(__file__)))

NA = {
    "C01": "agreement with an external reference implementation (the Python clvm package) on all programs: no structural clause of this repository implies it and the reference is not installed; the table-level facts that are statically checkable are decided under C10/C26/C30 instead",
    "C32": "cryptographic correctness against independent implementations lives in dependency crates (chia-bls, k256, p256, sha2/sha3) and in number theory; nothing in this repository's code shape decides it",
}
PENDING = "static check not built yet in this session (see DESIGN.md section 4 for the designed rules); not claimed until the rule fires on its seeded breakage and is silent on the unchanged tree"

# id -> (technique, level text, level note, design ref)
CLAIMS = {
    "C07": ("effect confinement of flag-controlled regions (T6): for every test of a restriction flag, the blocks reachable only from its 'set' edge must be pure conditions or error blocks; constant relation on MEMPOOL_MODE; interprocedural error-swallowing rule",
            "Decides for EVERY test of NO_UNKNOWN_OPS / CANONICAL_INTS / DISABLE_OP / LIMIT_SOFTFORK / LIMITS in the library that the flag can only reject, that RELAXED_BLS only removes validation, that MEMPOOL_MODE is made of restriction flags, and that no caller turns a flag-caused error into a success. One audited exception (uint_atom) and one known finding (softfork argument errors swallowed in lenient mode).",
            "Trusts rustc's MIR and the purity whitelist of callee names used inside conditions; LIMIT_HEAP is a caller-chosen allocator parameter (monotone by C13).",
            "DESIGN.md 4/C07"),
    "C08": ("constant relation between each 4-byte opcode and the cost its native operator charges (extracted from the dispatch switch and the operator's return), no-allocation / nil-result rule, region analysis of the not-understood softfork path, shared restore-coverage rule",
            "Decides the structural necessary conditions of soft-fork safety: native 4-byte operators charge exactly the unknown-operator cost of their opcode, are keyed by all 32 bits, yield nil and never touch the allocator; a softfork call that is not understood yields nil for exactly the declared cost without a guard or checkpoint; a full restore resets every count. With C31 (understood guards) both sides charge the declared cost, yield nil and leave the counts as at entry. Not equality for arbitrary programs inside a guard.",
            "Trusts rustc's MIR; the cryptographic accept/reject decision of the native operators is C32 (not applicable).",
            "DESIGN.md 4/C08"),
    "C14": ("who-may-write rule over every &mut use of the three storage vectors in the crate, threshold-table extraction for the canonical-integer encoders, byte-test normal forms, sibling comparison of the two bignum encoders, trait-impl call inventory for Atom, compile-fail witnesses with compiling twins (thorough tier)",
            "Decides: storage is append/truncate-only everywhere in the crate (no overwrite), truncation only to recorded lengths; the k-byte rows of len_for_value/new_u64/new_i64 end at 2^(8k-1); small-atom bounds tied to the 26-bit mask; every byte test is a sign/zero/bound test; Atom Hash/Eq/Borrow/Deref go through the bytes; atom_eq/bytes_eq_int compare by canonical bytes. Thorough: 5 compile-fail witnesses + 5 twins (borrow blocks allocation, Atom read-only, private storage, NodePtr not forgeable).",
            "Trusts rustc (MIR and borrow checker). `small_number <=> minimal encoding below 2^26` beyond the table rows and read-back of stored integers are arithmetic facts not decided.",
            "DESIGN.md 4/C14"),
    "C09": ("dominance / ordering rules inside op_unknown, checked-arithmetic rule on the multiplier, constant-set comparison with sibling operators, who-may-call + flag-region routing rule",
            "Decides the structural clauses of the unknown-operator rule: rejection order (reserved first), 4-byte multiplier cap, selector bits, base compared with the budget before multiplying, overflow-checked multiplication in BOTH cost models, 32-bit cap dominating the only Ok(nil), sibling cost constants, and that op_unknown is reachable only through the lenient unknown-operator paths with unchanged arguments. Known finding: classic model uses wrapping_mul.",
            "Trusts rustc's MIR; the numeric value of the add/mul/concat-like formulas is not decided (only which constants they read).",
            "DESIGN.md 4/C09"),
    "C10": ("table extraction: per-operator sets of named cost constants resolved through the dispatch switch vs. a transcription of the published classic table; constant relations; flag-region placement of NEW_* vs classic constants; formula evaluation against the figures printed in the docs; structural no-shortcut rule for the tree-hash walk; multiplicand rule over every per-byte cost term",
            "Decides: all 27 classic rows + 6 interpreter constants equal the published values; documented relations (coinid, BLS siblings, sha256tree per-byte) hold in both models; every NEW_* constant is read only under NEW_COST_MODEL and its counterpart only without it (incl. helper functions and bool-parameter helpers); new-model per-argument terms use max(., limbs); the sha256tree formula reproduces the 4 documented figures and the walk pushes both children of every pair unconditionally with every update checked; every per-byte constant of the operator modules multiplies an input length or a fixed result size, never the length of a default constant or the magnitude of an argument (R10e). Not the new-model constant values (documented only in code) nor that each formula is evaluated correctly on all arguments.",
            "Trusts the transcription in oracle/classic_costs.json (values of the historical clvm cost table) and rustc's constant evaluation.",
            "DESIGN.md 4/C10"),
    "C11": ("effect confinement of NEW_COST_MODEL-controlled regions (T6) + forward taint of the values they define to cost sinks; audited split-accumulator regions frozen by their set of value operations",
            "Decides for EVERY test of NEW_COST_MODEL (73 today, incl. tests of the captured flag inside closures) that code run under only one model calls only cost helpers and defines only values that reach the cost (accumulator, check_cost, CostExceeded comparisons, cost slot), never the result node, the allocator or bignum values. Seven audited regions (split accumulators of add/sub/logops) are pinned by the exact set of value operations each arm performs.",
            "Trusts rustc's MIR, the cost-helper whitelist and the value-type blacklist; equality of acc0+acc1+small and the single accumulator is arithmetic and not decided; control dependence on a cost-derived comparison is not tracked.",
            "DESIGN.md 4/C11"),
    "C31": ("dominance/reachability rule on the guard-exit cost test, path-sensitive effect counting of exit_guard (T3), pairing of guard record and ExitGuard pushes, constant/table extraction (nesting limit, cost-exempt predicate, extension table)",
            "Decides on ALL paths of exit_guard that success needs cost-exempt or current_cost == expected_cost, that exactly one full restore of the entry checkpoint, one pop and one push(nil) happen and 0 is charged; that guard entry records a full checkpoint and current+declared cost and schedules exactly one ExitGuard; nesting limit 20; extension table. With C12/R12b (a full restore resets every count) this gives 'counts as at entry'.",
            "Trusts rustc's MIR; equality of the guarded program's cost with the declared cost for a given program is a runtime fact.",
            "DESIGN.md 4/C31"),
    "C12": ("path-sensitive effect counting over MIR (forward dataflow, T3) + field-matched checkpoint tables",
            "Decides a structural necessary condition on ALL paths of ALL allocation entry points: per successful path exactly one atom / one heap contribution / one pair, none on failing paths; restore field coverage; reporters. Not the arithmetic of sizes.",
            "Trusts rustc's MIR and the effect recogniser (Vec method names, ghost counter field names resolved by type); bulk append loop tied to the checked size by C13. Known finding: new_substr small-integer slice counted on the heap.",
            "DESIGN.md 4/C12"),
    "C02": ("must-pass-through (dominance) of the budget test in the run loop, linear normalisation of the three budget comparisons, argument-shape rule on every check_cost call site (incl. closures through their captures), interprocedural budget-taint rule",
            "Decides on ALL paths / ALL 53 early-check sites: the loop test dominates the successful return with no cost update in between; the comparisons are strict; apply_op receives budget - cost and budgets are forwarded unchanged; every early check compares the value that is charged with the unmodified budget; the budget influences nothing but CostExceeded. Not that an operator's charged cost equals checked cost plus non-negative terms arithmetically, nor the cost-exempt guard clause.",
            "Trusts rustc's MIR and callee resolution; 'reaches the charged cost' is an additive-flow approximation (locals appearing in the cost slot of a successful return, closed under +).",
            "DESIGN.md 4/C02"),
    "C03": ("dominance rule on every insertion into the validated-point caches (with bool-specialised reachability across the two `if strict` regions and an interprocedural caller check), trait-impl call inventory for Atom, inventory of representation matches with per-arm error-variant comparison, inventory of random sources",
            "Decides: the BLS caches can only ever contain valid encodings (so earlier or failed runs cannot change a later outcome); Atom equality/hash are by bytes; the 37 places that branch on the storage form of an atom are exactly the audited ones and their inline arm fails only as the heap arm can; the 5 users of randomness are the audited ones and the drawn value only indexes the split accumulators. A NEW function that branches on the storage form is reported as unaudited. Not the semantic equality of the two arms' arithmetic.",
            "Trusts rustc's MIR; negating a valid compressed point by flipping bit 0x20 yields a valid encoding (BLS encoding fact); allocator-limit interplay excluded by the property itself.",
            "DESIGN.md 4/C03"),
    "C05": ("multiset equality of flag-guarded rejection thresholds between the default and the no-fastpath build of every function, cfg-gate scanner + cross-configuration comparison of MIR call sequences (default vs no-fastpath vs counters+pre-eval), constant-table relation for the inline path lookup, ordering rule in the u64 fast paths, hash-table validation with hashlib",
            "Decides: only audited functions have fast paths; the inline path lookup charges the zero-byte surcharge exactly at bit lengths that are multiples of 8 and uses the same constants/direction as the generic lookup; the add/sub fast paths measure the accumulator before updating it and check before updating; all 37 precomputed hashes are correct and indexed under a bound; outside cfg-gated lines the three builds make identical calls in identical order, and gated diagnostic code only accounts / calls callbacks / writes counter fields. Not arithmetic equality of native and bignum sums.",
            "Trusts the line-range scanner for cfg attributes (bracket matching) and rustc's MIR in three feature configurations.",
            "DESIGN.md 4/C05"),
    "C04": ("path-sensitive effect counting of the value-preserving restore per verdict (T3), field-matched checkpoint tables, dominance/post-dominance pairing of checkpoint and RestoreAllocator pushes, verdict-switch region analysis in the run loop",
            "Decides the accounting and plumbing clauses on ALL paths: transparent restore count-neutral; Aborted/NoReplace/Replace each change exactly what they must (and compensate before re-creating); node classification uses same-kind counts; the interpreter pairs every checkpoint with one RestoreAllocator below the Apply, replaces the top iff Replace, charges 0; ENABLE_GC read only by gc_candidate. Not that no live node is invalidated (heap-shape invariant).",
            "Trusts rustc's MIR; the gc-candidate opcode list is deliberately not checked (the restore is value-safe for any operator).",
            "DESIGN.md 4/C04"),
    "C06": ("sibling agreement: canonical CFG serialisation of MIR (DFS block order, first-occurrence local renaming, callee/type maps) and exact comparison",
            "Decides that each op_X's non-MALACHITE body and op_X_malachite are the SAME program up to the bignum library (every threshold, flag test, cost expression, message and the order of checks), that the prologue forwards unchanged, that the two canonical-integer encoders are the same program and that nothing else reads the flag. All ~1200 canonical MIR lines of the 5 pairs are compared.",
            "Assumes the two bignum libraries agree on methods of the same name (div_floor, div_mod_floor, modpow, sign, to_signed_bytes_be, to_u32) and that int_atom/malachite_int_atom decode the same value and length: library semantics are not decided. A one-sided behaviour-preserving restructure is reported (the siblings are meant to stay parallel).",
            "DESIGN.md 4/C06"),
    "C15": ("threshold-table extraction from comparison chains / integer matches in MIR (interval path enumeration) and cross-table relations",
            "Decides the table clause: the length-prefix rows of the writer, of the two length functions, of the canonical check and the decoder caps are mutually consistent and each n-byte row ends at 2^(7n-1) (shortest prefix). ALL rows of ALL five tables; not decode(encode(x)) == x.",
            "Trusts rustc's MIR and constant evaluation; u32 truncation of atom lengths in serialized_length_atom is harmless because the heap limit is <= u32::MAX (C13/R13c). Round-trip on trees is not decided.",
            "DESIGN.md 4/C15"),
    "C16": ("table rules of C15 + constant agreement across modules, call-graph routing (every decoder reaches the one prefix decoder; who-may-call leading_ones), SCC computation on the resolved call graph (trait calls expanded to all impls), comparison normal forms for short-read tests, explicit-panic inventory, operator-shape rule for every test against MAX_SINGLE_BYTE, the in-bounds verifier of C25 over everything reachable from the decoders",
            "Decides: the canonical check and the writer/decoder tables agree (C15 rules); the 14 duplicated wire constants agree; all 8 decoders/probes use decode_size_with_offset and compare the first byte only with the protocol constants; no function reachable from decoders, serializers, tree hashers or run_program is recursive (259 functions, no SCC); body-consuming helpers fail on short reads; explicit panic sites in decoder code are audited. Not equal consumption / equal trees across decoders (value properties).",
            "Trusts rustc's MIR and callee resolution; unresolved trait calls are over-approximated by all local impls.",
            "DESIGN.md 4/C16"),
    "C17": ("call-graph scan for hash-order iteration, dominance + linear normalisation of the 'never grows' guards in both path finders, structural pairing of writes and read-cache stack operations in the serializer loop",
            "Decides: no HashMap/HashSet iteration is reachable from the compressing serializers (96 functions); a back-reference is emitted only when marker + path length <= length of the node replaced, in BOTH path finders, and never for nodes under 4 bytes; the serializer mirrors the decoder's stack (one read-cache push per written atom/back-reference after the write succeeded, one pop-two-and-cons per cons, left child written first). Not round-trip or canonicity of the output.",
            "Trusts rustc's MIR; PathBuilder::serialized_length and atom_length_bits are covered by C15's tables.",
            "DESIGN.md 4/C17"),
    "C18": ("in-bounds verifier of C25 over both back-reference decoders and the length probe (no out-of-range index on any byte string: proved or by a listed invariant), dominance ordering of fallible step -> ghost-pair -> push in the vector-stack decoder, pairing of remove_ghost_pair/new_pair in the materialising loop, comparison-set equality of the two path walkers' loop control, call-shape comparison of the length probe with the list-stack decoder",
            "Decides the allocation-count parity clause (pair counts of both decoders agree per event class, also on failing inputs), that both decoders share the atom/path parsers and call the callback once per back-reference, that the two path walkers have identical loop control and direction, and that the length probe mirrors the list-stack decoder and reports the cursor. Not that both decoders build identical trees.",
            "Trusts rustc's MIR; the acceptance sets being equal rests on the shared parsers plus identical path-walk control, not on a value-level comparison.",
            "DESIGN.md 4/C18"),
    "C19": ("undo-completeness rule (fields written by the mutators vs fields restored, at field/sub-field granularity, with audited inert caches), snapshot-before-mutation dominance, reader inventory for the salt, conjunction-shape rule for the sentinel length, stack-mirroring pairing",
            "Decides: every piece of Serializer and TreeCache state mutated by add/update/push/pop is restored from the checkpoint or is an audited inert cache; both checkpoint types are fully consumed; the checkpoint precedes the first mutation; the salt and salted hashes are read only where entries are created; pairs holding the sentinel get length 0; the incremental loop mirrors the decoder's stack. Known finding: parent links written by update() are not undone (a concrete history decodes to a different tree). Not that the final bytes decode to the assembled tree in general.",
            "Trusts rustc's MIR and the field-write recogniser; 'inert' is an audited judgement per field, stated in the rule.",
            "DESIGN.md 4/C19"),
    "C20": ("in-bounds verifier of C25 over the serde_2026 decoders and the length probe, constant relation evaluated over extracted decoder caps and the magic bytes, switch-table extraction of the instruction numbering on both sides, sequence/set comparison of header validations between decoder and probe, origin tracking of allocation sizes, accept-condition normalisation of the varint range tests",
            "Decides: the classic prefix decoder rejects the magic by its own caps; writer and reader agree on 0 / +1 / -1 / i+2 / -(j+2) and on the operand order of both cons opcodes, with bounds-checked tables; decoder and probe validate the same varints with the same calls and reject the same header values, the probe reports magic + cursor and bounds its skips; every allocation size is constant or bounded by max_atom_len; write_varint and the strict size function accept the same ranges over 7+7k bits. Not round-trip, nor totality beyond explicit sites.",
            "Trusts rustc's MIR. The probe/decoder comparison identifies a header quantity by the ordinal of the read_varint call it derives from (field-sensitively through tuples), never by the name of the local that holds it; the varint range rule is C21's.",
            "DESIGN.md 4/C20"),
    "C22": ("argument-sequence rule on every Sha256::update / blob-list hashing site, pop-order vs push-order rule for pair hashes, index-provenance rule for the precomputed table, dominance rule for the stream hasher's slice position, Python ast check",
            "Decides for all 11 Rust hashing sites and the Python hasher: prefix 01 + atom bytes or 02 + left + right, nothing else; the first hash argument of every pair hash is the left child's (by push/pop order: which pop feeds which argument is read off call-site identities, which child is pushed first off the pair field, never off a local's name); the precomputed table is correct and indexed only by the value of an inline small integer; the stream hasher slices the body after consuming the prefix. Not SHA-256 itself.",
            "Trusts chia_sha2 and Python's hashlib; `intern` delegates to the object cache.",
            "DESIGN.md 4/C22"),
    "C23": ("static cost arithmetic: abstract interpretation of CLVM's cost rules on the fixed ChiaLisp program over an abstract tree, constants extracted from source, coefficient-wise inequalities",
            "Proof by closed forms: lisp(tree) = S + sum_atoms(A + B*len) + sum_pairs P is DERIVED from the program bytes embedded in the repository and the current constants (it reproduces the four CLVM figures printed in docs/sha256tree.md exactly), native(tree) = BASE + sum_atoms (len+1)*RATE + sum_pairs PAIR + 32*MALLOC is DERIVED from the MIR of tree_hash_costed (R23n: exactly one cost update per node kind, in the work loop only, RATE selected by NEW_COST_MODEL only); B' <= B, A' <= A, P' < P, S'+A' < S+A imply native < lisp for every tree; discharged for both cost models (8 obligations + shape + 4 cross-checks).",
            "Trusted base: the 80-line cost-rule interpreter in rules/c23.py (which constant is charged for quote/apply/op call/path lookup/cons/listp/if/sha256 - pinned against the code by C02 and C10), constant extraction by the driver, the embedded program bytes.",
            "DESIGN.md 4/C23"),
    "C27": ("ownership/liveness rule over elaborated MIR: address-exposing casts (PointerExposeProvenance) vs. moves into owners that outlive the loop, with bool-specialised reachability; structural key-provenance rule over the reconstructed expressions of every map lookup/insert, node construction and work-item push (names canonicalised by type)",
            "Decides (R27) that every object whose address is used as a map key is kept alive on every path: the necessary condition whose absence corrupted 119/200 random trees before the fix; and (R27b) that each converted pair is built from the converted nodes of its own left and right child, in this order, de-duplicated and stored under exactly that key, recorded under its own address, atoms from their own bytes, children scheduled iff their own address is unknown, result = the node of the object passed in. Not that Python's attribute protocol returns consistent values.",
            "Trusts rustc's elaborated MIR (a moved local has no drop) and pyo3's Bound::clone being a strong reference.",
            "DESIGN.md 4/C27"),
    "C28": ("Python ast table extraction compared with tables extracted from Rust MIR (writer rows, decoder caps, wire constants); writer/reader shape agreement between curry and uncurry derived from curry's list literals",
            "Decides that the pure-Python codec's tables equal the Rust codec's: writer rows, single-byte rule, reader rejections (prefix-length cap, size cap, truncation), wire constants, integer conversion shape; and that uncurry tests and takes apart exactly the shape curry builds, on the program and on every level (R28f). Not curry_hash, nor running a curried program.",
            "Trusts Python's ast module and the Rust-side extraction of C15; behaviour of CPython int.to_bytes/from_bytes is assumed.",
            "DESIGN.md 4/C28"),
    "C29": ("error-discipline rule over every io::Write call site reachable from the *_limit entry points (resolved callees, closure bodies, From impl summary) + linear normalisation of the limiter test + routing of the Ok value",
            "Decides for EVERY write site in the limited serializers that a writer failure of kind OutOfMemory leaves as EvalErr::OutOfMemory, that the limiter fails iff limit < len (strict) and decrements by the written count, and that the entry points return only bytes that passed the limiter built with the caller's limit. Does not decide that the unlimited serialization is what is written (C15/C17).",
            "Trusts rustc's MIR and callee resolution; io::Write implementations other than LimitedWriter are out of scope (Cursor<Vec<u8>> never fails).",
            "DESIGN.md 4/C29"),
    "C21": ("writer/reader agreement rules over write_varint, varint_size and read_varint with local names removed: read/write call inventory with the slice ranges read and the arrays written (consumed and emitted length = 1 + K), range-table equality of the writer and the strict-size function (accept-condition normal forms, ascending candidate order), layout agreement (first-byte composition, shift amounts, iteration order, two's-complement conversion on both sides), dominance rule for the strict check",
            "Decides the clauses of the statement that are visible in the shape of the code: the reader consumes exactly the length its prefix declares (1 + K bytes, 8 leading ones rejected) and the writer emits exactly that many for the FIRST K whose range contains the value (shortest encoding); writer and strict-size function use the same range -(1 << (6+7K)) .. (1 << (6+7K)) - 1; both sides agree on the byte layout (prefix | top bits, then big-endian bytes) and on the sign conversion threshold and offset; after assembly the only rejection is strict && varint_size(value) != K + 1, lenient mode returns the value. NOT decided: that these agreeing tables make decode(encode(v)) == v for every 56-bit v (arithmetic on runtime values).",
            "Partial by nature: the bijection is arithmetic. Trusts rustc's MIR; expected expression shapes are pinned (a behaviour-preserving rewrite of the bit arithmetic, e.g. another way to build the mask, would need the rule's shape extended).",
            "DESIGN.md 9.1/C21"),
    "C24": ("typestate of the two de-duplication maps in intern_tree_limited: key-provenance rule (atom map keyed by content, pair map keyed by the interned children in order), creation-only-in-Vacant-arm region rule, recorded-once rule, visited-set rule; with C03/R03b (Atom equality and hash go through the bytes)",
            "Decides the structural necessary conditions of maximal de-duplication and of tree preservation: atoms are looked up by content, pairs by their interned children (left, right); a node is created and pushed exactly once and only when its entry is vacant; the created atom has the source bytes, the created pair has the two key values as children; every source node is mapped once and the root is the mapping of the request. Not that the serialization is byte-identical (a value property).",
            "Trusts rustc's MIR and std's HashMap entry API.",
            "DESIGN.md 4/C24"),
    "C25": ("in-bounds verifier for every indexing / slicing / division site reachable from run_program (lib/bounds.py: flow-sensitive symbolic values with reaching definitions, dominating and per-path branch facts, staleness analysis for mutable storage, linear prover with infeasible-path detection, and an inductive loop-invariant step for indices that are reassigned inside a loop: entry / preservation / use are each discharged by the same prover, optionally under a boolean guard), typestate rule for the accessors that panic on pairs (match arms, !is_pair(), validator summaries, constructor results, recursive caller check over the resolved call graph), audited inventories of explicit panic sites (local guards checked by dominance) and InternalError constructions, SCC computation for recursion",
            "Decides for all functions reachable from run_program (both dialects, every operator): each of the ~90 indexing and 5 division sites is proved in bounds from the code's own conditions (63 goals, 3 of them by an inductively checked loop invariant), or proved under the allocator's stated storage invariant (31, inside impl Allocator only), or relies on one of 15 audited invariants listed with their reason; every call of atom()/atom_len()/number()/atom_eq() is on a node known to be an atom; the 20 explicit panic sites and 15 InternalError constructions are the audited ones and a new one is reported; no recursion. Not decided: arithmetic overflow assertions (debug builds only), dependency crates, allocation failure, and that the audited stack-discipline invariants hold (C04/C31 decide the pairing).",
            "Sound-but-incomplete verifier: new indexing code that is safe for a reason the prover cannot see must be added to the audited table with its invariant. Trusts rustc's MIR, the purity list for accessor calls, and the audited invariants.",
            "DESIGN.md 4/C25"),
    "C26": ("normal-form comparison of every binding: the value each #[pyfunction] returns is reconstructed from MIR across `?`, map_err, borrows and closures (lib/inline.py) and compared with 'core function applied to the caller's parameters'; call inventory + &mut-borrow inventory (nothing else touches core state); flag-region rule for the heap limit; constant comparison of exported flags with the core's; Python ast rules for serde.py and Program.run_with_cost, parameterised by the Rust signatures",
            "Decides that run_serialized_chia_program is adapt_response(run_program(alloc, ChiaDialect::new(from_bits_truncate(flags)), node_from_bytes(program), node_from_bytes(args), max_cost)) with alloc = new_limited(500000000) iff LIMIT_HEAP, that each ser_*/deser_* binding is exactly its core function on unchanged arguments with errors rendered by to_string(), that adapt_response passes cost/node/message through unchanged, that LazyNode.atom/pair are the allocator's views in the right arms and order, that exported constants equal the core's flags, and that the Python front end routes formats and keyword limits to the bindings that take them. Not: pyo3's argument extraction, nor the tree conversion of clvm_tree_to_lazy_node (C27).",
            "Trusts rustc's MIR, pyo3's generated wrappers, and the value-preserving wrapper list in rules/c26.py (Deref, as_slice, Rc::new, unbind, ...).",
            "DESIGN.md 4/C26"),
    "C30": ("three-way table agreement (opcode_by_name rows x the standard operator-name table x ChiaDialect's dispatch switch, all extracted), dominance rule for the one-byte dispatch, sibling comparison of the unknown-operator paths by parameter roles, flag-flow rule (stored unchanged; ChiaDialect's normalisation shown inert by checking every LIMITS test of the crate in two build configurations), constant rules for keywords and hooks",
            "Decides that both dialects call the SAME operator function with the SAME arguments for every opcode of the standard table, that everything else takes the same unknown-operator path (same condition, same error payload, same op_unknown arguments), that flags reach operators unchanged (and that ChiaDialect dropping LIMITS under NEW_COST_MODEL cannot change behaviour because all 26 LIMITS tests are conjoined with !NEW_COST_MODEL), that keywords are 1/2/36 and that RuntimeDialect never enables extensions or GC. Equality of outcome follows because run_program is generic over Dialect (same interpreter code).",
            "Trusts rustc's MIR and the oracle file oracle/standard_ops.json (the published opcode assignment = the 'standard table' of the property).",
            "DESIGN.md 4/C30"),
    "C13": ("dominance (must-pass-through) of growth sites by cap tests + linear normalisation of the comparison (MIR)",
            "Decides for EVERY growth of a counted resource that a tight cap test of the right kind with the right error variant dominates it (count + increment - cap > 0). All sites, all paths; not a sample.",
            "Trusts rustc's MIR, the linear normaliser, and the inductive invariant count <= cap; does not decide arithmetic overflow of the comparison operands.",
            "DESIGN.md 4/C13"),
}


def main():
    ids = [json.loads(l)["id"] for l in open(os.path.join(VERIF, "properties.jsonl"))]
    checks = []
    for pid in ids:
        if pid not in CLAIMS:
            continue
        tech, text, note, ref = CLAIMS[pid]
        level = "proof" if pid == "C23" else "other"
        checks.append({
            "property_id": pid,
            "quick_cmd": f"./check {pid} --tier quick",
            "thorough_cmd": f"./check {pid} --tier thorough",
            "evidence_file": f"/verif/evidence/{pid}.json",
            "replay_cmd_template": "./check --replay {path}",
            "engine": "mirfacts+rules",
            "level_claimed": {"category": level, "text": text, "design_ref": ref},
            "level_note": note,
            "technique": "static analysis: " + tech,
        })
    na = []
    for pid in ids:
        if pid in CLAIMS:
            continue
        na.append({"property_id": pid, "reason": NA.get(pid, PENDING)})
    m = {
        "version": 1,
        "setup_cmd": "./setup.sh",
        "hooks": {
            "guard": "chia_network_clvm_rs_verif",
            "enable": "none needed: static analysis reads the source; no hook code exists in /repo (guard name reserved, unused)",
            "baseline_off_cmd": "cd /repo && cargo test --workspace --no-fail-fast --offline",
            "source_commits": [],
            "add_only": True,
        },
        "engines": [
            {"name": "mirfacts", "path": "mirfacts/", "serves_properties": sorted(CLAIMS),
             "kind_free_text": "rustc_private driver (nightly) injected with RUSTC_WORKSPACE_WRAPPER under cargo check: dumps type-checked MIR, resolved callees, evaluated constants, ADTs and impls of /repo's current tree as JSON"},
            {"name": "rules", "path": "rules/ lib/", "serves_properties": sorted(CLAIMS),
             "kind_free_text": "stdlib-Python rule layer: CFG, dominators, post-dominators, def-use, expression reconstruction, linear normaliser, path-effect dataflow, sibling comparison, table extraction; Python ast for wheel/python"},
        ],
        "checks": checks,
        "not_applicable": na,
        "notes": "Two views of the same program: each rule runs on the MIR as written; only if an obligation fails there it is re-run on a second view in which every small private helper is inlined into its callers (lib/inline_mir.py), and an obligation that holds on either view is discharged (per key, or per function cluster for helpers that are dissolved in the second view). Extracting lines into a private helper therefore does not by itself raise an alarm; a defect is reported when neither view satisfies the rule. Every check is ./check <id>: it rebuilds MIR facts from /repo's current working tree (cached by a hash of the sources), applies the property's rules, writes evidence/<id>.json, prints KNOWN-FINDING lines for defects listed in known_findings.json and VIOLATION lines otherwise. VERIF_REPO=<dir> points the same command at a scratch copy.",
    }
    with open(os.path.join(VERIF, "MANIFEST.json"), "w") as f:
        json.dump(m, f, indent=1)
    print(f"{len(checks)} checks, {len(na)} not applicable")


if __name__ == "__main__":
    main()
