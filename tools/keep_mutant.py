#!/usr/bin/env python3
"""keep_mutant.py <Cxx> <n> "<what it changes>" "<what it needs to manifest>" "<caught by>"
copies a CONFIRMED seeded change from /var/tmp/incoming/<Cxx>/ to /verif/seeded/<Cxx>-<n>/"""
import json, os, shutil, sys, glob, subprocess
pid, n, what, needs, caught = sys.argv[1:6]
src = f"/var/tmp/incoming/{pid}"
dst = f"/verif/seeded/{pid}-{n}"
os.makedirs(dst, exist_ok=True)
shutil.copy(f"{src}/patch{n}.diff", f"{dst}/patch.diff")
demo = glob.glob(f"{src}/demo{n}.*")[0]
shutil.copy(demo, f"{dst}/" + os.path.basename(demo).replace(f"demo{n}", "demo"))
conf = ""
for line in open("/var/tmp/incoming/confirm-all.txt") if os.path.exists("/var/tmp/incoming/confirm-all.txt") else []:
    if line.startswith(f"{pid}/{n}:"):
        conf = line.strip()
head = subprocess.check_output(["git", "-C", "/repo", "rev-parse", "--short", "HEAD"], text=True).strip()
ext = os.path.splitext(demo)[1]
meta = {
    "property": pid,
    "origin": "independent sub-agent given only the property text and a scratch worktree",
    "change": what,
    "needs_to_manifest": needs,
    "confirmed": {
        "by": "tools/confirm_mutant.sh in a scratch worktree of /repo at " + head,
        "ran": [
            "git apply patch.diff  (applies cleanly to /repo HEAD)",
            "cargo test --workspace --no-fail-fast --offline   -> 1375 passed, 0 failed (with the change)",
            (f"cargo test --offline --test demo_{pid}_{n}" if ext == ".rs" else f"PYTHONPATH=<built wheel dir> python3 demo{ext}") + "  -> fails with the change, passes without it",
        ],
        "result_line": conf,
    },
    "detected_by": caught,
}
json.dump(meta, open(f"{dst}/meta.json", "w"), indent=1)
print("kept", dst)
