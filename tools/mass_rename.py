#!/usr/bin/env python3
"""mass_rename.py <worktree> [suffix]: rename (almost) every local variable and parameter of the non-test code under
<worktree>/src by appending a suffix, keeping only the renames with which `cargo check` still passes.  The result is a
behaviour-preserving patch touching every function the rules anchor in: the broadest possible test that no rule depends on
a local's name.  Used for the third false-alarm probe (DESIGN 9.3); never run on /repo itself."""
import os, re, subprocess, sys

wt = sys.argv[1]
suffix = sys.argv[2] if len(sys.argv) > 2 else "_q"
KEYWORDS = set("self Self super crate mut ref true false None Some Ok Err _ as in if else match let fn for while loop return break continue move where impl dyn pub use mod struct enum trait type const static unsafe".split())


def nontest_part(s):
    m = re.search(r"#\[cfg\(test\)\]\s*(pub\s+)?mod\s", s)
    return (s[:m.start()], s[m.start():]) if m else (s, "")


def candidates(code):
    ids = set()
    for m in re.finditer(r"\blet\s+(?:mut\s+)?([a-z_][a-z0-9_]*)\b", code):
        ids.add(m.group(1))
    for m in re.finditer(r"\blet\s+(?:Some|Ok)?\(([^()=]*)\)", code):
        for x in re.findall(r"\b(?:mut\s+)?([a-z_][a-z0-9_]*)\b", m.group(1)):
            ids.add(x)
    for m in re.finditer(r"\bfor\s+(?:&?\(?)([a-z_][a-z0-9_, &]*)\)?\s+in\b", code):
        for x in re.findall(r"[a-z_][a-z0-9_]*", m.group(1)):
            ids.add(x)
    for m in re.finditer(r"\bfn\s+[a-z_0-9]+(?:<[^>]*>)?\s*\(([^{;]*?)\)\s*(?:->|\{|where)", code, re.S):
        for x in re.findall(r"(?:^|,)\s*(?:mut\s+)?([a-z_][a-z0-9_]*)\s*:", m.group(1)):
            ids.add(x)
    for m in re.finditer(r"\|([a-z_, &0-9]*)\|", code):
        for x in re.findall(r"[a-z_][a-z0-9_]*", m.group(1)):
            ids.add(x)
    ids -= KEYWORDS
    out = set()
    for x in ids:
        if len(x) < 2 and x != "a":
            pass
        # not a field / method / function / path segment / macro / struct-literal field anywhere in this file
        if re.search(r"\.\s*" + x + r"\b", code) or re.search(r"\b" + x + r"\s*\(", code) or re.search(r"\b" + x + r"\s*::", code) \
                or re.search(r"::\s*" + x + r"\b", code) or re.search(r"\b" + x + r"!", code) or re.search(r"\bfn\s+" + x + r"\b", code):
            continue
        out.add(x)
    return out


files = []
for root, _, fs in os.walk(os.path.join(wt, "src")):
    for f in fs:
        if f.endswith(".rs") and "test" not in f and "/bin" not in root:
            files.append(os.path.join(root, f))
orig = {p: open(p).read() for p in files}
plan = {p: candidates(nontest_part(orig[p])[0]) for p in files}


def apply(plan):
    for p in files:
        code, tests = nontest_part(orig[p])
        # never touch string/char literals or comments (error messages are compared by the tests)
        parts = re.split(r'(b?"(?:\\.|[^"\\])*"|\'(?:\\.|[^\'\\])\'|//[^\n]*)', code)
        for i in range(0, len(parts), 2):
            seg = parts[i]
            for x in sorted(plan[p], key=len, reverse=True):
                seg = re.sub(r"(?<![\w.])" + x + r"\b(?!\s*[!(]|::)", x + suffix, seg)
            parts[i] = seg
        open(p, "w").write("".join(parts) + tests)


for it in range(40):
    apply(plan)
    r = subprocess.run(["cargo", "check", "--offline", "--all-targets", "--message-format=short"], cwd=wt, capture_output=True, text=True,
                       env=dict(os.environ, CARGO_NET_OFFLINE="true"))
    if r.returncode == 0:
        break
    bad = {}
    for line in r.stderr.splitlines():
        m = re.match(r"(src/[^:]+):\d+:\d+: error", line)
        if m:
            p = os.path.join(wt, m.group(1))
            names = set(x[:-len(suffix)] for x in re.findall(r"\b([a-z_][a-z0-9_]*" + re.escape(suffix) + r")\b", line))
            # an un-renamed use (inside a macro or a struct shorthand) is reported under the old name
            names |= set(x for x in re.findall(r"`([a-z_][a-z0-9_]*)`", line))
            bad.setdefault(p, set()).update(names)
    progress = False
    for p, names in bad.items():
        if p in plan:
            if names & plan[p]:
                plan[p] -= names
                progress = True
    if not progress:
        # cannot attribute: drop the whole file(s) with errors
        for p in bad:
            if p in plan and plan[p]:
                plan[p] = set()
                progress = True
        if not progress:
            sys.stderr.write(r.stderr[-3000:])
            sys.exit("mass_rename: cannot make the tree compile")
print("renamed identifiers:", sum(len(v) for v in plan.values()), "in", sum(1 for v in plan.values() if v), "files; iterations", it + 1)
