#!/bin/bash
# merge_r2.sh <id>: second-round sub-agent output /var/tmp/incoming/<id>-r2/{patch,demo}{1,2} -> /var/tmp/incoming/<id>/{patch,demo}{3,4}
id=$1; s=/var/tmp/incoming/$id-r2; d=/var/tmp/incoming/$id; mkdir -p $d
for n in 1 2; do m=$((n+2)); cp $s/patch$n.diff $d/patch$m.diff; for f in $s/demo$n.*; do cp $f $d/demo$m.${f##*.}; done; done
cp $s/notes.md $d/notes-r2.md; ls $d | tr '\n' ' '; echo
