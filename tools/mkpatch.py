#!/usr/bin/env python3
"""mkpatch.py <out.diff> <file> <old> <new> [count-th occurrence, 1-based]  : make a one-edit patch of /repo (working tree is restored)"""
import subprocess, sys
out, file, old, new = sys.argv[1:5]
nth = int(sys.argv[5]) if len(sys.argv) > 5 else 1
p = "/repo/" + file
s = open(p).read()
i = -1
for _ in range(nth):
    i = s.index(old, i + 1)
t = s[:i] + new + s[i + len(old):]
open(p, "w").write(t)
d = subprocess.check_output(["git", "-C", "/repo", "diff"], text=True)
open(out, "w").write(d)
subprocess.check_call(["git", "-C", "/repo", "checkout", "--", "."])
print("wrote", out, len(d.splitlines()), "lines")
