#!/usr/bin/env python3
"""Print the prompt given to an independent sub-agent that seeds a property-breaking change.
Only the property record itself is given; nothing from /verif's machinery."""
import json, sys
pid = sys.argv[1]
wt = sys.argv[2] if len(sys.argv) > 2 else f"/tmp/wt-{pid}"
p = next(json.loads(l) for l in open('/verif/properties.jsonl') if json.loads(l)['id'] == pid)
rec = {k: p[k] for k in ('title', 'statement', 'quantifier', 'why_tests_cant', 'anchors')}
print(f"""You are working in a scratch git worktree of the Rust project Chia-Network/clvm_rs (a Rust implementation of the Chia Lisp VM) at {wt}. Work ONLY inside {wt}. Do not read, list or modify /verif or /repo at all.

A semantic property that this code base is supposed to satisfy:

{json.dumps(rec, indent=1)}

Your task: write TWO different, independent source changes (at different sites / of different kinds) to the NON-TEST source of the project (src/**, wheel/src/**, wheel/python/** - not tests, not fuzz, not benches) such that EACH change on its own:
 (a) still compiles (cargo build --workspace --offline),
 (b) still passes the complete existing test suite, unedited:  cd {wt} && CARGO_TARGET_DIR={wt}/target cargo test --workspace --no-fail-fast --offline   (1375 tests pass on the unchanged tree),
 (c) BREAKS the property above, and
 (d) needs something specific to manifest - an unusual input, a particular multi-step sequence of operations, a boundary value, a particular flag combination, or two cooperating sites that each look fine alone - NOT something ordinary use would expose at once. It should look like a realistic slip a developer could make (off-by-one, dropped check on one path, wrong constant in one of several sibling places, check moved after the effect, wrong error kind on one path, one-sided edit of duplicated code, ...), not sabotage.

For each change also write a demonstration: a small Rust integration test (e.g. {wt}/tests/demo_{pid}_1.rs using the public `clvmr` API) or, if the property concerns the Python wheel, a Python script - that FAILS with the change applied and PASSES on the unchanged tree. 

You must verify all of this yourself: run the full suite with each change applied (must pass), run the demo with the change (must fail) and without it (must pass). Always pass --offline to cargo; there is no network. Use CARGO_TARGET_DIR={wt}/target.

Deliverables, in {wt}/_out/ :
  patch1.diff, patch2.diff   - `git diff` of the source change only (must apply with `git apply` to a clean checkout; do NOT include the demo file in the patch)
  demo1.rs / demo2.rs (or .py) - the demonstration, plus in notes.md the exact command to run it and where the file must be placed
  notes.md - for each change: what was changed, why it breaks the property, what it needs in order to manifest, the commands you ran and their outcomes (suite result with change; demo result with and without change).
Leave the worktree's tracked files clean at the end (git checkout -- . ; untracked _out/ stays). Do not commit. When done, reply with a short summary of the two changes (files/functions touched, one line each) and whether every verification step succeeded.""")
