#!/bin/bash
# name_probe.sh [Cxx ...]: run the checks with every local and parameter of the analysed program renamed at fact-load time
# (VERIF_RENAME_SUFFIX).  The program is unchanged, so every report is a rule that depends on what a variable is called.
cd /verif
ids=${@:-$(python3 -c "import json;print(' '.join(x['property_id'] for x in json.load(open('/verif/MANIFEST.json'))['checks']))")}
bad=""
for c in $ids; do
  out=$(VERIF_RENAME_SUFFIX=_q ./check $c 2>&1); rc=$?
  if [ $rc -ne 0 ]; then bad="$bad $c"; echo "== $c rc=$rc"; echo "$out" | grep -E "^  (instance|obligation|detail)|Anchor|Error|Traceback" | cut -c1-300 | head -${NP_LINES:-40}; fi
done
echo "NAME-DEPENDENT:${bad:- none}"
