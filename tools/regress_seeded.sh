#!/bin/bash
# regress_seeded.sh [pattern]: for every kept seeded change, apply it in a scratch worktree (never /repo), run the checks named in
# its meta.json plus the property's own check with VERIF_REPO pointing there, and report changes no check catches.
# Four worktrees (/var/tmp/regress-wt-<k>) are used in parallel and removed at the end.
# Evidence files are overwritten by these runs: run tools/run_all.sh afterwards.
pat=${1:-}
one() {
  d=$1; slot=$2; wt=/var/tmp/regress-wt-$slot
  id=$(basename $d); prop=${id%%-*}
  checks=$( (echo $prop; python3 -c "import json,re,sys; print(' '.join(sorted(set(re.findall(r'C\d\d', json.load(open('$d/meta.json'))['detected_by'])))))") | tr ' ' '\n' | sort -u | tr '\n' ' ')
  git -C $wt apply $d/patch.diff 2>/dev/null || { echo "$id: PATCH DOES NOT APPLY"; return; }
  caught=""
  for c in $checks; do
    VERIF_TGT_SLOT=$slot VERIF_REPO=$wt /verif/check $c >/dev/null 2>&1; rc=$?
    [ $rc -ne 0 ] && caught="$caught $c"
  done
  git -C $wt checkout -q -- . ; git -C $wt clean -fdq
  if [ -z "$caught" ]; then echo "$id: MISSED (ran: $checks)"; else echo "$id: caught by$caught"; fi
}
k=0; tmp=$(mktemp)
for d in /verif/seeded/*$pat*/; do echo "${d%/}" >> $tmp.$((k % 4)); k=$((k+1)); done
for s in 0 1 2 3; do
  [ -f $tmp.$s ] || continue
  wt=/var/tmp/regress-wt-$s
  [ -d $wt ] || git -C /repo worktree add -q --detach $wt HEAD
  ( cd $wt && git checkout -q --detach $(git -C /repo rev-parse HEAD) && git checkout -q -- . && git clean -fdq )
  ( while read d; do one $d $s; done < $tmp.$s ) > $tmp.out.$s &
done
wait
cat $tmp.out.* | sort
echo "seeded changes: $(cat $tmp.out.* | wc -l), missed: $(cat $tmp.out.* | grep -c MISSED)"
rm -f $tmp $tmp.*
for s in 0 1 2 3; do [ -d /var/tmp/regress-wt-$s ] && git -C /repo worktree remove --force /var/tmp/regress-wt-$s; done
[ -d /var/tmp/regress-wt ] && git -C /repo worktree remove --force /var/tmp/regress-wt
exit 0
