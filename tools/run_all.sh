#!/bin/bash
# run every claimed check (quick tier) on the current tree; refresh all evidence files; report failures
cd /verif
if [ -n "$(git -C /repo status --porcelain --untracked-files=no)" ]; then echo "WARNING: /repo working tree is not clean"; fi
fail=0
for id in $(python3 -c "import json;print(' '.join(c['property_id'] for c in json.load(open('MANIFEST.json'))['checks']))"); do
  out=$(./check $id --tier quick 2>&1); rc=$?
  echo "$out" | tail -1
  if [ $rc != 0 ]; then fail=1; echo "  ^^^ FAILED rc=$rc"; fi
done
python3-vt - <<'PY'
import json,jsonschema,glob
s=json.load(open('/root/.vp/EVIDENCE.schema.json'))
m=json.load(open('/verif/MANIFEST.json'))
jsonschema.validate(m,json.load(open('/root/.vp/MANIFEST.schema.json')))
for c in m['checks']:
    e=json.load(open(c['evidence_file'])); jsonschema.validate(e,s)
    assert e['level']==c['level_claimed']['category'], (c['property_id'], e['level'])
    if e['level']=='proof': assert e['coverage']['obligations']==e['coverage']['discharged'], c['property_id']
print('manifest + evidence valid for', len(m['checks']), 'checks')
PY
exit $fail
