#!/usr/bin/env python3
"""Regenerate the table of seeded changes in DESIGN.md (between the SEEDED-TABLE markers) from seeded/*/meta.json."""
import glob, json, os, re
V = os.path.dirname(os.path.dirname(os.path.abspath(__file__)))
rows = []
for m in sorted(glob.glob(os.path.join(V, "seeded", "*", "meta.json"))):
    d = json.load(open(m))
    name = os.path.basename(os.path.dirname(m))
    rows.append(f"| {name} | {d['change']} | {d['needs_to_manifest']} | {d['detected_by']} |")
table = "| seeded change | what it changes | what it needs to manifest | caught by |\n|---|---|---|---|\n" + "\n".join(rows) + f"\n\n{len(rows)} seeded changes, all confirmed (suite passes, demonstration fails with / passes without) and all reported by at least one check.\n"
p = os.path.join(V, "DESIGN.md")
s = open(p).read()
a, b = "<!-- SEEDED-TABLE:BEGIN -->", "<!-- SEEDED-TABLE:END -->"
if a in s:
    s = s[:s.index(a) + len(a)] + "\n" + table + s[s.index(b):]
    open(p, "w").write(s)
    print("table updated:", len(rows), "rows")
else:
    print(table)
