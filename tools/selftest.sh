#!/bin/bash
# selftest.sh [must_catch|silent|extra <dir>]: exercise the checker both ways on scratch worktrees (never /repo).
#   must_catch/<Cxx>_*.diff : the check of property Cxx must report a violation with the patch applied
#   silent/*.diff           : behaviour-preserving edits; EVERY claimed check must stay silent
# Runs 4 patches in parallel, each in its own worktree under /var/tmp/selftest-wt-<k>; worktrees are removed at the end.
# Evidence files are overwritten by these runs: run tools/run_all.sh afterwards.
mode=${1:-all}; extra=$2
cd /verif
ids=$(python3 -c "import json;print(' '.join(x['property_id'] for x in json.load(open('/verif/MANIFEST.json'))['checks']))")
export ids
one() {
  kind=$1; p=$2; slot=$3
  wt=/var/tmp/selftest-wt-$slot
  [ -d $wt ] || git -C /repo worktree add -q --detach $wt HEAD
  ( cd $wt && git checkout -q --detach $(git -C /repo rev-parse HEAD) && git checkout -q -- . && git clean -fdq )
  git -C $wt apply $p 2>/dev/null || { echo "FAIL $kind $(basename $p): patch does not apply"; return; }
  if [ $kind = must_catch ]; then
    c=$(basename $p | cut -c1-3)
    VERIF_TGT_SLOT=$slot VERIF_REPO=$wt /verif/check $c >/dev/null 2>&1; rc=$?
    [ $rc -eq 1 ] && echo "ok   must_catch $(basename $p): $c reports" || echo "FAIL must_catch $(basename $p): $c rc=$rc"
  else
    bad=""
    for c in $ids; do VERIF_TGT_SLOT=$slot VERIF_REPO=$wt /verif/check $c >/dev/null 2>&1 || bad="$bad $c"; done
    [ -z "$bad" ] && echo "ok   silent $(basename $p)" || echo "FAIL silent $(basename $p): reporting$bad"
  fi
  ( cd $wt && git checkout -q -- . && git clean -fdq )
}
export -f one
SB=${SELFTEST_BASE:-0}
list=$(mktemp)
k=0
add() { for p in "$2"/*.diff; do [ -f "$p" ] && echo "$1 $(readlink -f $p) $((SB + k % 4))" >> $list.$((k % 4)) && k=$((k+1)); done; }
case $mode in
  must_catch) add must_catch selftest/must_catch ;;
  silent) add silent selftest/silent ;;
  extra) add silent "$extra" ;;
  *) add must_catch selftest/must_catch; add silent selftest/silent ;;
esac
for s in 0 1 2 3; do
  [ -f $list.$s ] && ( while read kind p slot; do one $kind $p $slot; done < $list.$s ) &
done
wait
rm -f $list $list.*
for s in 0 1 2 3; do [ -d /var/tmp/selftest-wt-$((SB + s)) ] && git -C /repo worktree remove --force /var/tmp/selftest-wt-$((SB + s)); done
