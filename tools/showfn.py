#!/usr/bin/env python3
"""debug aid: print a function's CFG with reconstructed expressions"""
import sys, os, glob
sys.path.insert(0, os.path.dirname(os.path.dirname(os.path.abspath(__file__))))
from lib import mir, facts
cfg = os.environ.get("CFG", "default")
name = "clvm_rs" if cfg == "wheel" else "clvmr"
d = facts.ensure([cfg])[cfg]
cr = mir.Crate(os.path.join(d, name + ".json"))
pat = sys.argv[1]
deep = "--shallow" not in sys.argv
for f in cr.fns.values():
    if f.path == pat or (pat.endswith("*") and f.path.startswith(pat[:-1])):
        print("==", f.path, f.file, f.lo, f.hi, "nargs", f.nargs)
        st = f.status()
        for b in range(f.n):
            if f.is_cleanup(b): continue
            print(f" bb{b}  status={sorted(st.get(b, []))} idom={f.idom().get(b)}")
            for s in f.stmts(b):
                if "d" not in s: continue
                dl = s["d"]["l"]; 
                if "--all" not in sys.argv and not f.local_name(dl) and not s["d"]["p"] and dl != 0 and len(f.defs(dl)) == 1:
                    continue
                print(f"    L{s['ln']} {mir.show(f.expr_place(s['d'], deep=False))} = {mir.show(f.expr_rvalue(s['rv'], deep))}")
            t = f.term(b)
            if t["k"] == "call":
                print(f"    L{t['ln']} {mir.show(f.expr_place(t['dst'], deep=False))} = CALL {t.get('callee')}(" + ", ".join(mir.show(f.expr_op(a, deep)) for a in t["args"]) + f") -> bb{t['target']}")
            elif t["k"] == "switch":
                print(f"    L{t['ln']} SWITCH {mir.show(f.expr_op(t['on'], deep))} {t['targets']} else bb{t['otherwise']}   norm={mir.show_norm(mir.compare_norm(f.expr_op(t['on'], deep)))}")
            else:
                print(f"    L{t['ln']} {t['k']} " + str({k: v for k, v in t.items() if k in ('target', 'kind')}))
