#!/bin/bash
# try_patch.sh [-R] <patch.diff> <Cxx> [Cxx...] : apply patch to /repo, run the checks, undo. Prints verdict per check.
rev=""
if [ "$1" = "-R" ]; then rev="-R"; shift; fi
patch=$(readlink -f "$1"); shift
cd /repo || exit 2
if [ -n "$(git status --porcelain --untracked-files=no)" ]; then echo "repo not clean"; exit 2; fi
git apply $rev "$patch" || { echo "patch does not apply"; exit 2; }
cd /verif
for c in "$@"; do
  out=$(./check $c 2>&1); rc=$?
  echo "== $c rc=$rc"
  echo "$out" | grep -E "^VIOLATION|^  (instance|site|obligation)|^KNOWN|^C[0-9]+:" | head -${LINES_MAX:-14}
done
git -C /repo checkout -- .
