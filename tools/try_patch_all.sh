#!/bin/bash
# try_patch_all.sh <patch>: apply a patch to /repo, run EVERY claimed check (quick tier), list the checks that report, undo.
# Used for behaviour-preserving refactorings: any report is a false alarm to triage.
p=$(readlink -f "$1"); cd /verif
git -C /repo apply "$p" || { echo "patch does not apply"; exit 2; }
ids=$(python3 -c "import json;print(' '.join(x['property_id'] for x in json.load(open('/verif/MANIFEST.json'))['checks']))")
bad=""
for c in $ids; do
  out=$(./check $c 2>&1); rc=$?
  if [ $rc -ne 0 ]; then bad="$bad $c"; echo "== $c rc=$rc"; echo "$out" | grep -E "^  (instance|obligation|detail)" | cut -c1-260 | head -12; fi
done
git -C /repo checkout -- . ; git -C /verif checkout -- evidence 2>/dev/null
echo "REPORTING:${bad:- none}"
