//! Compile-fail witnesses for C14 (nodes are immutable). Each witness is paired with a compiling
//! twin that differs only in the offending line, so that a witness cannot pass merely because a
//! path is wrong. Run with `cargo +nightly test --doc` (stable ignores the error codes).

/// Twin: reading an atom and allocating afterwards compiles.
/// ```
/// let mut a = clvmr::allocator::Allocator::new();
/// let n = a.new_atom(&[1, 2, 3]).unwrap();
/// let len = a.atom(n).as_ref().len();
/// let _m = a.new_atom(&[4]).unwrap();
/// assert_eq!(len, 3);
/// ```
///
/// Witness: while an atom's bytes are borrowed, nothing can be allocated (the allocator cannot move
/// or change bytes somebody is looking at).
/// ```compile_fail,E0502
/// let mut a = clvmr::allocator::Allocator::new();
/// let n = a.new_atom(&[1, 2, 3]).unwrap();
/// let bytes = a.atom(n);
/// let _m = a.new_atom(&[4]).unwrap();
/// assert_eq!(bytes.as_ref().len(), 3);
/// ```
pub struct BorrowBlocksAllocation;

/// Twin: an Atom can be read.
/// ```
/// let mut a = clvmr::allocator::Allocator::new();
/// let n = a.new_atom(&[1, 2, 3]).unwrap();
/// let atom = a.atom(n);
/// let first = atom.as_ref()[0];
/// assert_eq!(first, 1);
/// ```
///
/// Witness: an Atom gives no mutable access to the bytes.
/// ```compile_fail,E0594
/// let mut a = clvmr::allocator::Allocator::new();
/// let n = a.new_atom(&[1, 2, 3]).unwrap();
/// let atom = a.atom(n);
/// atom.as_ref()[0] = 9;
/// ```
pub struct AtomIsReadOnly;

/// Twin: the public counters are readable.
/// ```
/// let a = clvmr::allocator::Allocator::new();
/// let _ = a.heap_size();
/// ```
///
/// Witness: the byte heap is a private field.
/// ```compile_fail,E0616
/// let a = clvmr::allocator::Allocator::new();
/// let _ = a.u8_vec.len();
/// ```
pub struct StorageIsPrivate;

/// Twin: the nil node is a public constant.
/// ```
/// let n = clvmr::allocator::NodePtr::NIL;
/// assert!(n.is_atom());
/// ```
///
/// Witness: a NodePtr cannot be forged from a raw index (tuple-struct field is private).
/// ```compile_fail,E0603
/// let n = clvmr::allocator::NodePtr(7);
/// let _ = n;
/// ```
pub struct NodePtrCannotBeForged;

/// Twin: pairs can be read.
/// ```
/// let mut a = clvmr::allocator::Allocator::new();
/// let x = a.new_atom(&[1]).unwrap();
/// let p = a.new_pair(x, x).unwrap();
/// assert!(matches!(a.sexp(p), clvmr::allocator::SExp::Pair(_, _)));
/// ```
///
/// Witness: the pair storage is private (children cannot be rewritten).
/// ```compile_fail,E0616
/// let mut a = clvmr::allocator::Allocator::new();
/// let x = a.new_atom(&[1]).unwrap();
/// let _p = a.new_pair(x, x).unwrap();
/// a.pair_vec.clear();
/// ```
pub struct PairStorageIsPrivate;
